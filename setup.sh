#!/bin/bash
# Offline sanity check of the tools the checks need (nothing is built or fetched).
set -e
python3-vt -c "import z3; assert z3.get_version_string().startswith('5.')"
/venv/bin/python -c "import numpy, scipy"
test -x /usr/bin/z3
mkdir -p "$(dirname "$0")/evidence" "$(dirname "$0")/replay"
echo setup ok
