#!/bin/bash
# usage: confirm_seed.sh <id> <srcdir>   (srcdir holds patch.diff, demo.py, notes.md)
# Confirms in a scratch worktree: demo passes on the original tree, fails with the patch, pinned tests still pass.
id=$1; src=$2; name=${3:-$id}
wt=/tmp/cw-$name
out=/verif/seeded/$name
mkdir -p $out
cp $src/patch.diff $src/demo.py $out/ 2>/dev/null
[ -f $src/notes.md ] && cp $src/notes.md $out/notes.md
git -C /repo worktree add -q --detach $wt HEAD || exit 9
cd $wt
/venv/bin/python $out/demo.py > $out/demo_orig.log 2>&1; d0=$?
git apply $out/patch.diff; ap=$?
/venv/bin/python $out/demo.py > $out/demo_patched.log 2>&1; d1=$?
/venv/bin/python -m pytest -q -p no:cacheprovider --timeout=900 --continue-on-collection-errors -x -q 2>&1 | tail -1 > $out/pytest_patched.log
# -x stops at first failure but collection errors are tolerated by --continue-on-collection-errors
/venv/bin/python -m pytest -q -p no:cacheprovider --timeout=900 --continue-on-collection-errors 2>&1 | tail -1 > $out/pytest_patched.log
tests=$(cat $out/pytest_patched.log)
files=$(git diff --name-only | tr '\n' ' ')
cd /
git -C /repo worktree remove --force $wt
python3 - <<PY
import json
json.dump(dict(property="$id", name="$name", patch_applies=($ap==0), demo_exit_original=$d0, demo_exit_patched=$d1,
  pytest_patched="""$tests""".strip(), files="$files".split(),
  confirmed=($ap==0 and $d0==0 and $d1!=0 and "2074 passed" in """$tests"""),
  ran=["demo.py on a fresh worktree of /repo HEAD", "git apply patch.diff", "demo.py again", "pinned pytest command"]),
  open("$out/meta.json","w"), indent=1)
PY
cat $out/meta.json
