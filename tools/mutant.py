#!/usr/bin/env python3
"""tools/mutant.py <pid> <relpath> <old> <new> : run ./check <pid> on a scratch copy with one textual edit"""
import os, subprocess, sys
sys.path.insert(0, os.path.dirname(os.path.dirname(os.path.abspath(__file__))))
from vf import mutate
pid, rel, old, new = sys.argv[1:5]
d = mutate.scratch_copy()
try:
    mutate.apply_edit(d, rel, old, new)
    p = subprocess.run(['./check', pid, '--repo', d] + sys.argv[5:], cwd='/verif', capture_output=True, text=True,
                       env=dict(os.environ, VF_NO_HINT_UPDATE='1'))
    for l in p.stdout.strip().splitlines()[-5:]:
        print('   ', l[:330])
    print('exit', p.returncode, p.stderr[-300:])
finally:
    mutate.remove(d)
