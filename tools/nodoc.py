#!/usr/bin/env python3
"""print a python file (or one class/function of it) without docstrings/comments: nodoc.py file [name]"""
import ast, sys
src = open(sys.argv[1]).read()
tree = ast.parse(src)
for n in ast.walk(tree):
    if isinstance(n, (ast.FunctionDef, ast.ClassDef, ast.Module)) and n.body and isinstance(n.body[0], ast.Expr) \
            and isinstance(n.body[0].value, ast.Constant) and isinstance(n.body[0].value.value, str):
        n.body = n.body[1:] or [ast.Pass()]
if len(sys.argv) > 2:
    for n in ast.walk(tree):
        if isinstance(n, (ast.FunctionDef, ast.ClassDef)) and n.name == sys.argv[2]:
            print(ast.unparse(n)); break
else:
    print(ast.unparse(tree))
