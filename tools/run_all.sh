#!/bin/bash
# tools/run_all.sh [seed] : every quick check on the unchanged tree, exit codes and summary lines (regression after engine changes)
cd "$(dirname "$0")/.."
seed=${1:-0}
tier=${2:-quick}
ids=$(python3 -c "import json;print(' '.join(c['property_id'] for c in json.load(open('MANIFEST.json'))['checks']))")
mkdir -p /var/tmp/vf-runall
for id in $ids; do
  ( VERIF_SEED=$seed ./check $id --tier $tier > /var/tmp/vf-runall/$id.$tier.log 2>&1; echo "$id exit=$? $(tail -1 /var/tmp/vf-runall/$id.$tier.log | cut -c1-160)" ) &
  # at most 3 checks at a time (each uses up to 16 solver processes)
  while [ $(jobs -r | wc -l) -ge 3 ]; do sleep 1; done
done
wait
grep -l "VIOLATION\|UNDECIDED\|ENGINE" /var/tmp/vf-runall/*.$tier.log 2>/dev/null | sed 's/^/ATTENTION: /'
