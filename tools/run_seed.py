#!/usr/bin/env python3
"""Run checks against a seeded change on a scratch copy of /repo: tools/run_seed.py <seed name> <pid> [<pid>...]"""
import os
import subprocess
import sys
sys.path.insert(0, os.path.dirname(os.path.dirname(os.path.abspath(__file__))))
from vf import mutate

name = sys.argv[1]
pids = sys.argv[2:]
d = mutate.scratch_copy()
try:
    patch = os.path.join('/verif/seeded', name, 'patch.diff')
    subprocess.run(['patch', '-p1', '-s', '-i', patch], cwd=d, check=True)
    for pid in pids:
        env = dict(os.environ, VF_NO_HINT_UPDATE='1')
        p = subprocess.run(['./check', pid, '--repo', d], cwd='/verif', capture_output=True, text=True, env=env)
        out = p.stdout.strip().splitlines()
        print('== seed %s vs %s: exit %d' % (name, pid, p.returncode))
        for l in out[-6:]:
            print('   ', l[:400])
        if p.stderr.strip():
            print('    stderr:', p.stderr.strip()[-500:])
finally:
    mutate.remove(d)
