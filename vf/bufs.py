"""Opaque buffers with ghost contents (DESIGN C01 step 6, C03, C04).

Layout/grid code that only *moves* whole blocks between a few flat buffers is verified at this level:
a buffer's content is (valid, field, layout) -- "this buffer holds global field G in layout L" or garbage --
and the only operations understood are the ones that code uses: whole-block views
(np.split(b,[n])[0].reshape(shape), b[:n], v[:]), whole-block copies (flatten, dest[:] = source) and calls
with a contract.  Anything else on a buffer is out of reach (never silently accepted).
"""
import z3

from . import smt
from .smt import fresh
from . import vals as V
from .vals import OutOfReach, FunVal, Obj, INT, BOOL, is_sym, is_cint, Z, ZI, simp, compare, truth, b_and, b_not, b_or

FIELD = z3.DeclareSort('Field')
_counter = [0]


class Buf:
    def __init__(self, name='buf'):
        _counter[0] += 1
        self.bid = _counter[0]
        self.name = name
        self.size = z3.Int('size!%s%d' % (name, self.bid))

    def __repr__(self):
        return 'Buf(%s#%d)' % (self.name, self.bid)


class BufRef:
    """Possibly symbolic reference to one of several buffers: [(cond, Buf)] with exclusive conditions."""

    def __init__(self, choices):
        self.choices = [(c, b) for (c, b) in choices if not (isinstance(c, bool) and not c)]

    @staticmethod
    def of(b):
        return BufRef([(True, b)])

    def __repr__(self):
        return 'BufRef(%s)' % (self.choices,)


class BufView:
    """A view of the logical block at the start of a buffer; `extent` is the stop of the slice b[:n] that made it (None: all)."""

    def __init__(self, ref, extent=None):
        self.ref = ref
        self.extent = extent


class BufCopy:
    def __init__(self, content):
        self.content = content     # (valid, G, lay)


def new_content(prefix='c'):
    return (fresh(prefix + '_valid', 'bool'), fresh(prefix + '_G', FIELD), fresh(prefix + '_lay', 'int'))


def zb(c):
    return z3.BoolVal(c) if isinstance(c, bool) else c


class BufMixin:

    def is_bufish(self, v):
        return isinstance(v, (Buf, BufRef, BufView, BufCopy))

    def as_ref(self, v):
        if isinstance(v, Buf):
            return BufRef.of(v)
        if isinstance(v, BufRef):
            return v
        if isinstance(v, BufView):
            return v.ref
        raise OutOfReach('buffer expected, got %r' % (v,))

    def new_buf(self, st, name='buf', content=None):
        b = Buf(name)
        st.bufs[b.bid] = content if content is not None else new_content(name)
        return b

    def content(self, st, v):
        """(valid, G, lay) of a reference as ite-chains."""
        if isinstance(v, BufCopy):
            return v.content
        ref = self.as_ref(v)
        ch = ref.choices
        if not ch:
            raise OutOfReach('empty buffer reference')
        val, G, lay = st.bufs[ch[-1][1].bid]
        val, G, lay = zb(val), G, ZI(lay)
        for (c, b) in reversed(ch[:-1]):
            v2, g2, l2 = st.bufs[b.bid]
            val = z3.If(zb(c), zb(v2), val)
            G = z3.If(zb(c), g2, G)
            lay = z3.If(zb(c), ZI(l2), lay)
        return (val, G, lay)

    def set_content(self, st, v, content):
        ref = self.as_ref(v)
        nv, ng, nl = content
        for (c, b) in ref.choices:
            ov, og, ol = st.bufs[b.bid]
            if isinstance(c, bool) and c:
                st.bufs[b.bid] = (nv, ng, nl)
            else:
                st.bufs[b.bid] = (z3.If(zb(c), zb(nv), zb(ov)), z3.If(zb(c), ng, og), z3.If(zb(c), ZI(nl), ZI(ol)))

    def havoc_buf(self, st, v):
        self.set_content(st, v, new_content('havoc'))

    def same_buffer(self, a, b):
        """Condition under which two references denote the same buffer."""
        ra, rb = self.as_ref(a), self.as_ref(b)
        alts = []
        for (c1, b1) in ra.choices:
            for (c2, b2) in rb.choices:
                if b1 is b2:
                    alts.append(b_and(c1, c2))
        return b_or(*alts) if alts else False

    # ------------------------------------------------------------------
    # hooks used by the executor
    # ------------------------------------------------------------------
    def buf_subscript(self, st, fr, base, idx, node):
        if isinstance(base, (list, tuple)) and base and all(isinstance(x, Buf) for x in base) and not is_cint(idx):
            self.safety(st, fr, 'index_bounds', b_and(compare('GtE', idx, 0), compare('Lt', idx, len(base))), node)
            return BufRef([(compare('Eq', idx, k), b) for k, b in enumerate(base)])
        if isinstance(base, (Buf, BufRef, BufView)):
            # b[:n], v[:], v[:]  -> view of the logical block (the extent is not tracked: contents are whole blocks)
            if isinstance(idx, slice) and idx.step is None and (idx.start is None or (is_cint(idx.start) and idx.start == 0)):
                ext = getattr(base, 'extent', None)
                if idx.stop is not None:
                    if ext is not None:
                        raise OutOfReach('slice of a slice of an opaque buffer')
                    ext = idx.stop
                return BufView(self.as_ref(base), ext)
            raise OutOfReach('element access into an opaque buffer')
        return NotImplemented

    def buf_store(self, st, fr, base, idx, val, node):
        if isinstance(base, (Buf, BufRef, BufView)):
            if not (isinstance(idx, slice) and idx.step is None and (idx.start is None or (is_cint(idx.start) and idx.start == 0))):
                raise OutOfReach('partial write into an opaque buffer')
            if not self.is_bufish(val):
                raise OutOfReach('non-buffer value written into an opaque buffer')
            if not isinstance(val, BufCopy):
                # overlapping copy is undefined: require distinct buffers
                self.safety(st, fr, 'no_overlap', b_not(self.same_buffer(base, val)), node)
                # buffer-to-buffer copy through b[:n] slices moves n entries only: the block held by the source (the first
                # lsize(layout) entries) arrives whole only if every stated extent covers it.  (A copy of a reshaped view,
                # BufCopy, has exactly the block's entries and numpy itself checks the extents.)
                cv, _, cl = self.content(st, val)
                lsize = V.uf('lsize', INT, INT)
                for ext in (getattr(base, 'extent', None) if isinstance(base, BufView) else None,
                            idx.stop if isinstance(idx, slice) else None,
                            getattr(val, 'extent', None) if isinstance(val, BufView) else None):
                    if ext is not None:
                        self.safety(st, fr, 'block_covered', z3.Implies(zb(cv), Z(ext) >= lsize(ZI(cl))), node)
            self.set_content(st, base, self.content(st, val))
            return True
        return NotImplemented

    def buf_attribute(self, st, fr, base, attr, node):
        if isinstance(base, (Buf, BufRef, BufView)):
            if attr in ('reshape', 'flatten', 'copy', 'ravel'):
                return FunVal('bufmethod', attr, base)
            if attr == 'base':
                return self.as_ref(base)
            if attr == 'size':
                ch = self.as_ref(base).choices
                r = ch[-1][1].size
                for (c, b) in reversed(ch[:-1]):
                    r = z3.If(zb(c), b.size, r)
                return r
            raise OutOfReach('buffer attribute ' + attr)
        return NotImplemented

    def buf_method(self, st, fr, f, args):
        base, nm = f.ref, f.name
        if nm == 'reshape':
            return BufView(self.as_ref(base))
        if nm in ('flatten', 'copy'):
            return BufCopy(self.content(st, base))
        if nm == 'ravel':
            return BufView(self.as_ref(base))
        raise OutOfReach('buffer method ' + nm)

    def buf_builtin(self, st, fr, name, args, kwargs, node):
        if name == 'empty' and getattr(self.ctx, 'opaque_alloc', False) and not (fr is not None and fr.spec_only) \
                and args and not isinstance(args[0], (list, tuple)):
            # np.empty(n) in the opaque-buffer model: a new flat buffer of n entries holding garbage
            b = self.new_buf(st, 'empty', (False, fresh('empty_G', FIELD), fresh('empty_lay', 'int')))
            self.safety(st, fr, 'alloc_nonneg', compare('GtE', args[0], 0), node)
            st.pc.append(b.size == Z(args[0]))
            return b
        if name == 'split' and args and isinstance(args[0], (Buf, BufRef, BufView)):
            return [BufView(self.as_ref(args[0])), None]
        return NotImplemented

    def buf_is(self, a, b):
        if isinstance(a, (Buf, BufRef, BufView)) and isinstance(b, (Buf, BufRef, BufView)):
            return self.same_buffer(a, b)
        return NotImplemented

    # spec builtins -----------------------------------------------------
    def buf_spec(self, st, fr, name, args):
        if name == 'holds':            # holds(buf, G, layoutname)
            v, G, lay = self.content(st, args[0])
            return simp(z3.And(zb(v), G == args[1], lay == ZI(args[2])))
        if name == 'valid':
            return simp(zb(self.content(st, args[0])[0]))
        if name == 'field_of':
            return self.content(st, args[0])[1]
        if name == 'layout_of':
            return self.content(st, args[0])[2]
        if name == 'same_content':
            a, b = self.content(st, args[0]), self.content(st, args[1])
            return simp(z3.And(zb(a[0]) == zb(b[0]), a[1] == b[1], a[2] == b[2]))
        if name == 'distinct_bufs':
            conds = []
            for i in range(len(args)):
                for j in range(i + 1, len(args)):
                    if args[i] is None or args[j] is None:
                        continue
                    conds.append(b_not(self.same_buffer(args[i], args[j])))
            return b_and(*conds) if conds else True
        if name == 'same_buf':
            return self.same_buffer(args[0], args[1])
        return NotImplemented
