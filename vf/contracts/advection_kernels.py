"""Contracts for pygyro/advection/accelerated_advection_steps.py (properties C10, C11, C12).

The spline evaluators arrive as function-valued parameters.  S1 / S2 name the value of the evaluator
that was passed in (an uninterpreted function of its arguments); that the two evaluators that are ever
passed (general / uniform cubic) compute the B-spline value is property C07.  spl1_ok / spl2_ok are the
evaluators' own preconditions on (knots, degree, coeffs) -- a class invariant of BSplines/Spline1D that the
Python-level callers establish (see C08 / advection.py contracts).
"""
from .cusplines import CONTRACTS as SPL_CONTRACTS, SPECS as SPL_SPECS

F = 'pygyro/advection/accelerated_advection_steps.py'
FI = 'pygyro/initialisation/initialiser_funcs.py'

A1 = [('x', 'real'), ('knots', 'arr1'), ('degree', 'int'), ('coeffs', 'arr1'), ('der', 'int')]
A2 = [('x', 'real'), ('y', 'real'), ('kts1', 'arr1'), ('deg1', 'int'), ('kts2', 'arr1'), ('deg2', 'int'),
      ('coeffs', 'arr2'), ('der1', 'int'), ('der2', 'int')]

SPECS = SPL_SPECS + [
    ('S1', A1, 'real', None),
    ('S2', A2, 'real', None),
    ('spl1_ok', [('knots', 'arr1'), ('degree', 'int'), ('coeffs', 'arr1')], 'bool', None),
    ('spl1_lo', [('knots', 'arr1'), ('degree', 'int')], 'real', None),
    ('spl1_hi', [('knots', 'arr1'), ('degree', 'int')], 'real', None),
    ('spl2_ok', [('kts1', 'arr1'), ('deg1', 'int'), ('kts2', 'arr1'), ('deg2', 'int'), ('coeffs', 'arr2')], 'bool', None),
    # periodic image of v in [vMin, vMax]: defined along the orbit v + m*(vMax - vMin) (well founded for vMax > vMin)
    ('pwrap', [('v', 'real'), ('vMin', 'real'), ('vMax', 'real')], 'real',
     'pwrap(v + (vMax - vMin), vMin, vMax) if v < vMin else (pwrap(v - (vMax - vMin), vMin, vMax) if v > vMax else v)'),
]

IN1 = ['spl1_ok(knots, degree, coeffs)', 'spl1_lo(knots, degree) <= x', 'x <= spl1_hi(knots, degree)']

ABSTRACT = {
    'spline1d_scalar': dict(abstract=True, pure=True, returns='float', params_order=[p for p, _ in A1],
                            requires=IN1 + ['der == 0 or der == 1'], modifies=[],
                            ensures=['result == S1(x, knots, degree, coeffs, der)']),
    'spline1d_vector': dict(abstract=True, params_order=['x', 'knots', 'degree', 'coeffs', 'y', 'der'],
                            requires=['spl1_ok(knots, degree, coeffs)', 'len(y) >= len(x)',
                                      'forall(0, len(x), lambda i: spl1_lo(knots, degree) <= x[i] and x[i] <= spl1_hi(knots, degree))'],
                            modifies=['y'],
                            ensures=['forall(0, len(x), lambda i: y[i] == S1(x[i], knots, degree, coeffs, der))']),
    'spline2d_scalar': dict(abstract=True, pure=True, returns='float', params_order=[p for p, _ in A2],
                            requires=['spl2_ok(kts1, deg1, kts2, deg2, coeffs)'], modifies=[],
                            ensures=['result == S2(x, y, kts1, deg1, kts2, deg2, coeffs, der1, der2)']),
    'spline2d_cross': dict(abstract=True, params_order=['X', 'Y', 'kts1', 'deg1', 'kts2', 'deg2', 'coeffs', 'z', 'der1', 'der2'],
                           requires=['spl2_ok(kts1, deg1, kts2, deg2, coeffs)', 'shape(z)[0] >= len(X)', 'shape(z)[1] >= len(Y)'],
                           modifies=['z'],
                           ensures=['forall(0, len(X), 0, len(Y), lambda p, q: z[p, q] == '
                                    'S2(X[p], Y[q], kts1, deg1, kts2, deg2, coeffs, der1, der2))',
                                    'forall(0, shape(z)[0], 0, shape(z)[1], lambda p, q: implies(p >= len(X) or q >= len(Y), z[p, q] == old(z)[p, q]))']),
}

FEQ = 'f_eq({r}, {v}, CN0, kN0, deltaRN0, rp, CTi, kTi, deltaRTi)'
E1 = 'S1({v}, kts, deg, coeffs, 0)'

VPAR_REQ = ['len(f) >= len(vPts)', 'bound == 0 or bound == 1 or bound == 2', 'vMin < vMax',
            'spl1_ok(kts, deg, coeffs)', 'vMin == spl1_lo(kts, deg)', 'vMax == spl1_hi(kts, deg)']

# statement of C11: interpolant at the foot; feet outside [vMin,vMax] take f_eq(r, foot) / 0 / the periodic image
VPAR_RULE = ('(({feq} if ({v} < vMin or {v} > vMax) else {e}) if bound == 0 else '
             '((0.0 if ({v} < vMin or {v} > vMax) else {e}) if bound == 1 else {ew}))')


def vpar_rule(v):
    return VPAR_RULE.format(v=v, feq=FEQ.format(r='rPos', v=v), e=E1.format(v=v), ew=E1.format(v='pwrap(%s, vMin, vMax)' % v))


VPAR_ENS = ['forall(0, len(vPts), lambda i: f[i] == %s)' % vpar_rule('vPts[i]'),
            'forall(len(vPts), len(f), lambda i: f[i] == old(f)[i])']
VPAR_DONE = ['forall(0, i, lambda p: f[p] == %s)' % vpar_rule('vPts[p]'),
             'forall(len(vPts), len(f), lambda p: f[p] == old(f)[p])']

CONTRACTS = dict(SPL_CONTRACTS)
CONTRACTS.update(ABSTRACT)
CONTRACTS.update({
    FI + '::f_eq': dict(pure=True, returns='float', requires=[], ensures=[], modifies=[]),
    F + '::general_v_parallel_advection_eval_step': dict(
        funparams={'eval_spline_1d_scalar': 'spline1d_scalar'},
        requires=VPAR_REQ, modifies=['f'], ensures=VPAR_ENS,
        loops={
            'for (i, v) in enumerate(vPts)': dict(inv=VPAR_DONE),
            'for (i, v) in enumerate(vPts) #2': dict(inv=VPAR_DONE),
            'for (i, v) in enumerate(vPts) #3': dict(inv=VPAR_DONE),
            'while v < vMin': dict(
                inv=VPAR_DONE + ['pwrap(v, vMin, vMax) == pwrap(vPts[i], vMin, vMax)'],
                decreases_by=('vMin - v', 'vDiff')),
            'while v > vMax': dict(
                inv=VPAR_DONE + ['pwrap(v, vMin, vMax) == pwrap(vPts[i], vMin, vMax)', 'v >= vMin'],
                decreases_by=('v - vMax', 'vDiff')),
        },
    ),
    F + '::v_parallel_advection_eval_step': dict(
        requires=VPAR_REQ, modifies=['f'],
        ensures=VPAR_ENS,
    ),
})

# ---------------------------------------------------------------------------
# flux-surface advection kernels (C10)
# ---------------------------------------------------------------------------

FLUX_DONE_J = 'forall(0, j, 0, nr, lambda a, b: f[a, b] == sum_(0, len(coeffs), lambda k: coeffs[k] * vals[b, a, k]))'
FLUX_DONE_I = 'forall(0, i, lambda b: f[j, b] == sum_(0, len(coeffs), lambda k: coeffs[k] * vals[b, j, k]))'
FLUX_FRAME = 'forall(0, shape(f)[0], 0, shape(f)[1], lambda a, b: implies(a >= nq or b >= nr, f[a, b] == old(f)[a, b]))'

TH = '(qVals[{k}] + thetaShifts[{j}]) % (2 * pi)'
LG_VAL = 'vals[(i - shifts[{j}]) % nz, {k}, {j}] == S1(' + TH + ', kts, deg, coeffs, 0)'
LG_FRAME = ('forall(0, shape(vals)[0], 0, shape(vals)[1], 0, shape(vals)[2], lambda a, b, c: implies('
            'c >= {jhi} or b >= len(qVals) or a != (i - shifts[c]) % shape(vals)[0], vals[a, b, c] == old(vals)[a, b, c]))')
LG_REQ = ['shape(vals)[0] >= 1', 'len(thetaShifts) >= len(shifts)', 'shape(vals)[1] >= len(qVals)',
          'shape(vals)[2] >= len(shifts)', 'spl1_ok(kts, deg, coeffs)', 'spl1_lo(kts, deg) <= 0', '2 * pi <= spl1_hi(kts, deg)']
LG_ENS = ['forall(0, len(shifts), 0, len(qVals), lambda j, k: %s)' % LG_VAL.format(j='j', k='k').replace('% nz', '% shape(vals)[0]'),
          LG_FRAME.format(jhi='len(shifts)')]

CONTRACTS.update({
    F + '::flux_advection': dict(
        requires=['nq >= 0', 'nr >= 0', 'shape(f)[0] >= nq', 'shape(f)[1] >= nr', 'len(coeffs) >= 1',
                  'shape(vals)[0] >= nr', 'shape(vals)[1] >= nq', 'shape(vals)[2] >= len(coeffs)'],
        modifies=['f'],
        # f[theta, z] = sum_k w_k * vals[z, theta, k]
        ensures=['forall(0, nq, 0, nr, lambda a, b: f[a, b] == sum_(0, len(coeffs), lambda k: coeffs[k] * vals[b, a, k]))',
                 FLUX_FRAME],
        loops={
            'for j in range(nq)': dict(inv=[FLUX_DONE_J, FLUX_FRAME]),
            'for i in range(nr)': dict(inv=[FLUX_DONE_J, FLUX_DONE_I, FLUX_FRAME]),
            'for k in range(1, len(coeffs))': dict(inv=[FLUX_DONE_J, FLUX_DONE_I, FLUX_FRAME,
                                                        'f[j, i] == sum_(0, k, lambda m: coeffs[m] * vals[i, j, m])']),
        },
    ),
    F + '::general_get_lagrange_vals': dict(
        funparams={'eval_spline_1d_vector': 'spline1d_vector', 'eval_spline_1d_scalar': 'spline1d_scalar'},
        requires=LG_REQ, modifies=['vals'], ensures=LG_ENS,
        loops={
            'for (j, s) in enumerate(shifts)': dict(
                inv=['forall(0, j, 0, len(qVals), lambda c, b: %s)' % LG_VAL.format(j='c', k='b'),
                     LG_FRAME.format(jhi='j')]),
            'for (k, q) in enumerate(new_q)': dict(
                inv=['forall(0, j, 0, len(qVals), lambda c, b: %s)' % LG_VAL.format(j='c', k='b'),
                     'forall(0, k, lambda b: %s)' % LG_VAL.format(j='j', k='b'),
                     'forall(0, shape(vals)[0], 0, shape(vals)[1], 0, shape(vals)[2], lambda a, b, c: implies('
                     'c > j or (c == j and (b >= k or a != idx)) or b >= len(qVals) or (c < j and a != (i - shifts[c]) % nz), '
                     'vals[a, b, c] == old(vals)[a, b, c]))',
                     'forall(0, len(qVals), lambda b: new_q[b] == %s and 0 <= new_q[b] and new_q[b] < 2 * pi)' % TH.format(k='b', j='j')]),
        },
    ),
    F + '::get_lagrange_vals': dict(requires=LG_REQ, modifies=['vals'], ensures=LG_ENS),
})


# ---------------------------------------------------------------------------
# poloidal advection kernels (C12)
# ---------------------------------------------------------------------------

PHI = 'kts1Phi, deg1Phi, kts2Phi, deg2Phi, coeffsPhi'
POL = 'kts1Pol, deg1Pol, kts2Pol, deg2Pol, coeffsPol'
FEQ2 = 'f_eq({r}, v, CN0, kN0, deltaRN0, rp, CTi, kTi, deltaRTi)'
RMAX = 'rPts[len(rPts) - 1]'


def heun(a, b, body):
    """Bind, for node (theta_a, r_b), the quantities of the property statement:
    a0 = d_r phi / r, b0 = d_theta phi / r at the node; (q1, r1) the Euler foot; a1, b1 the drift there (0 outside the
    radial domain); (q2, r2) the trapezoidal (Heun) foot.  body may use a0,b0,q1,r1,a1,b1,q2,r2."""
    return (
        'let(S2(qPts[{a}], rPts[{b}], {P}, 0, 1) / rPts[{b}], lambda a0: '
        'let(S2(qPts[{a}], rPts[{b}], {P}, 1, 0) / rPts[{b}], lambda b0: '
        'let((qPts[{a}] - a0 * (dt / B0)) % (2 * pi), lambda q1: '
        'let(rPts[{b}] + b0 * (dt / B0), lambda r1: '
        'let((S2(q1, r1, {P}, 0, 1) / r1) if (not (r1 < rPts[0] or r1 > {RM})) else 0.0, lambda a1: '
        'let((S2(q1, r1, {P}, 1, 0) / r1) if (not (r1 < rPts[0] or r1 > {RM})) else 0.0, lambda b1: '
        'let((qPts[{a}] - (a0 + a1) * (0.5 * (dt / B0))) % (2 * pi), lambda q2: '
        'let(rPts[{b}] + (b0 + b1) * (0.5 * (dt / B0)), lambda r2: {body}))))))))'
    ).format(a=a, b=b, P=PHI, RM=RMAX, body=body)


def final_value(q2, r2):
    """Value the step assigns for a foot (q2, r2): boundary value outside the radial domain, else the 2-D spline of f."""
    inner = 'S2(%s %% (2 * pi), %s, %s, 0, 0)' % (q2, r2, POL)
    return ('((0.0 if ({r} < rPts[0] or {r} > {RM}) else {S}) if nulBound else '
            '({F0} if {r} < rPts[0] else ({F1} if {r} > {RM} else {S})))').format(
        r=r2, RM=RMAX, S=inner, F0=FEQ2.format(r='rPts[0]'), F1=FEQ2.format(r=r2))


WORK = ['drPhi_0', 'dthetaPhi_0', 'drPhi_k', 'dthetaPhi_k', 'endPts_k1_q', 'endPts_k1_r', 'endPts_k2_q', 'endPts_k2_r']
POL_REQ = (['len(rPts) >= 1', 'B0 != 0', 'forall(0, len(rPts), lambda b: rPts[b] > 0)',
            'spl2_ok(%s)' % PHI, 'spl2_ok(%s)' % POL, 'shape(f)[0] >= len(qPts)', 'shape(f)[1] >= len(rPts)']
           + ['shape(%s)[0] >= len(qPts) and shape(%s)[1] >= len(rPts)' % (w, w) for w in WORK])

NQ, NR = 'len(qPts)', 'len(rPts)'
K2_OK = 'endPts_k2_q[{a}, {b}] == q2 and endPts_k2_r[{a}, {b}] == r2'
RAW = ('drPhi_0[{a}, {b}] == S2(qPts[{a}], rPts[{b}], %s, 0, 1) and dthetaPhi_0[{a}, {b}] == S2(qPts[{a}], rPts[{b}], %s, 1, 0)' % (PHI, PHI))


def k2_ok(a, b):
    return heun(a, b, K2_OK.format(a=a, b=b))


def f_ok(a, b):
    return heun(a, b, 'f[%s, %s] == %s' % (a, b, final_value('q2', 'r2')))


EXPL_LOOPS = {
    # phase 1: feet
    'for i in range(nPts_q)': dict(inv=[
        'forall(0, i, 0, %s, lambda a, b: %s)' % (NR, k2_ok('a', 'b')),
        'forall(i, %s, 0, %s, lambda a, b: %s)' % (NQ, NR, RAW.format(a='a', b='b'))]),
    'for j in range(nPts_r)': dict(inv=[
        'forall(0, i, 0, %s, lambda a, b: %s)' % (NR, k2_ok('a', 'b')),
        'forall(0, j, lambda b: %s)' % k2_ok('i', 'b'),
        'forall(i + 1, %s, 0, %s, lambda a, b: %s)' % (NQ, NR, RAW.format(a='a', b='b')),
        'forall(j, %s, lambda b: %s)' % (NR, RAW.format(a='i', b='b'))]),
}
for sfx in (' #2', ' #3'):
    # phase 2: values (one pair of loops per boundary mode)
    EXPL_LOOPS['for i in range(nPts_q)' + sfx] = dict(inv=[
        'forall(0, i, 0, %s, lambda a, b: %s)' % (NR, f_ok('a', 'b')),
        'forall(i, %s, 0, %s, lambda a, b: %s)' % (NQ, NR, k2_ok('a', 'b'))])
    EXPL_LOOPS['for j in range(nPts_r)' + sfx] = dict(inv=[
        'forall(0, i, 0, %s, lambda a, b: %s)' % (NR, f_ok('a', 'b')),
        'forall(0, j, lambda b: %s)' % f_ok('i', 'b'),
        'forall(i + 1, %s, 0, %s, lambda a, b: %s)' % (NQ, NR, k2_ok('a', 'b')),
        'forall(j, %s, lambda b: %s)' % (NR, k2_ok('i', 'b'))])

POL_FUNPARAMS = {'eval_spline_2d_cross': 'spline2d_cross', 'eval_spline_2d_scalar': 'spline2d_scalar'}
EXPL_ENS = ['forall(0, %s, 0, %s, lambda a, b: %s)' % (NQ, NR, f_ok('a', 'b'))]

CONTRACTS.update({
    F + '::general_poloidal_advection_step_expl': dict(
        funparams=POL_FUNPARAMS, requires=POL_REQ, modifies=['f'] + WORK, ensures=EXPL_ENS, loops=EXPL_LOOPS),
    F + '::poloidal_advection_step_expl': dict(requires=POL_REQ, modifies=['f'] + WORK, ensures=EXPL_ENS),
})


# ---- implicit trapezoidal variant ---------------------------------------------------------------

def impl_node(a, b, q1, r1, body):
    """One implicit-trapezoid update of node (a, b) from the previous iterate (q1, r1) (q1 taken modulo 2*pi):
    A, B = drift at the previous iterate (0 outside the radial domain); (Q2, R2) = new iterate, R2 clipped to the radial
    domain; dq, dr = distance between the iterates (theta distance wrapped). body may use a0,b0,Q1,A,B,Q2,R2,dq,dr."""
    return (
        'let(S2(qPts[{a}], rPts[{b}], {P}, 0, 1) / rPts[{b}], lambda a0: '
        'let(S2(qPts[{a}], rPts[{b}], {P}, 1, 0) / rPts[{b}], lambda b0: '
        'let({q1} % (2 * pi), lambda Q1: '
        'let((S2(Q1, {r1}, {P}, 0, 1) / {r1}) if (not ({r1} < rPts[0] or {r1} > {RM})) else 0.0, lambda A: '
        'let((S2(Q1, {r1}, {P}, 1, 0) / {r1}) if (not ({r1} < rPts[0] or {r1} > {RM})) else 0.0, lambda B: '
        'let((qPts[{a}] - (a0 + A) * ((dt / B0) * 0.5)) % (2 * pi), lambda Q2: '
        'let(rPts[{b}] + (b0 + B) * ((dt / B0) * 0.5), lambda R2u: '
        'let(rPts[0] if R2u < rPts[0] else ({RM} if R2u > {RM} else R2u), lambda R2: '
        'let(abs(Q2 - Q1), lambda d0: let((2 * pi - d0) if d0 > pi else d0, lambda dq: '
        'let(abs(R2 - {r1}), lambda dr: {body})))))))))))'
    ).format(a=a, b=b, q1=q1, r1=r1, P=PHI, RM=RMAX, body=body)


def conv(a, b, bound, q2='endPts_k2_q', r2='endPts_k2_r'):
    return impl_node(a, b, 'pq[%s, %s]' % (a, b), 'pr[%s, %s]' % (a, b),
                     '{q2}[{a}, {b}] == Q2 and {r2}[{a}, {b}] == R2 and dq <= {bd} and dr <= {bd}'.format(
                         a=a, b=b, bd=bound, q2=q2, r2=r2))


DIV0 = ('drPhi_0[{a}, {b}] == S2(qPts[{a}], rPts[{b}], %s, 0, 1) / rPts[{b}] and '
        'dthetaPhi_0[{a}, {b}] == S2(qPts[{a}], rPts[{b}], %s, 1, 0) / rPts[{b}]' % (PHI, PHI))
ALL_DIV0 = 'forall(0, %s, 0, %s, lambda a, b: %s)' % (NQ, NR, DIV0.format(a='a', b='b'))


def fin(a, b):
    return 'f[%s, %s] == %s' % (a, b, final_value('q2g[%s, %s]' % (a, b), 'r2g[%s, %s]' % (a, b)))


K2G = 'endPts_k2_q[{a}, {b}] == q2g[{a}, {b}] and endPts_k2_r[{a}, {b}] == r2g[{a}, {b}]'
K1P = 'endPts_k1_q[{a}, {b}] == pq[{a}, {b}] and endPts_k1_r[{a}, {b}] == pr[{a}, {b}]'
CONV_ALL_TOL = 'forall(0, %s, 0, %s, lambda a, b: %s)' % (NQ, NR, conv('a', 'b', 'tol', 'q2g', 'r2g'))

IMPL_LOOPS = {
    'for i in range(nPts_q)': dict(inv=[
        'forall(0, i, 0, %s, lambda a, b: %s)' % (NR, DIV0.format(a='a', b='b')),
        'forall(i, %s, 0, %s, lambda a, b: %s)' % (NQ, NR, RAW.format(a='a', b='b'))]),
    'for j in range(nPts_r)': dict(inv=[
        'forall(0, i, 0, %s, lambda a, b: %s)' % (NR, DIV0.format(a='a', b='b')),
        'forall(0, j, lambda b: %s)' % DIV0.format(a='i', b='b'),
        'forall(i + 1, %s, 0, %s, lambda a, b: %s)' % (NQ, NR, RAW.format(a='a', b='b')),
        'forall(j, %s, lambda b: %s)' % (NR, RAW.format(a='i', b='b'))]),
    'while norm > tol': dict(
        ghost={'pq': 'endPts_k1_q', 'pr': 'endPts_k1_r'}, ghost_iter={'pq': 'endPts_k1_q', 'pr': 'endPts_k1_r'},
        inv=['implies(norm <= tol, forall(0, %s, 0, %s, lambda a, b: %s))' % (NQ, NR, conv('a', 'b', 'norm'))]),
    'for i in range(nPts_q) #2': dict(inv=[
        'norm >= 0',
        'forall(0, i, 0, %s, lambda a, b: %s)' % (NR, conv('a', 'b', 'norm')),
        'forall(i, %s, 0, %s, lambda a, b: %s)' % (NQ, NR, K1P.format(a='a', b='b'))]),
    'for j in range(nPts_r) #2': dict(inv=[
        'norm >= 0',
        'forall(0, i, 0, %s, lambda a, b: %s)' % (NR, conv('a', 'b', 'norm')),
        'forall(0, j, lambda b: %s)' % conv('i', 'b', 'norm'),
        'forall(i + 1, %s, 0, %s, lambda a, b: %s)' % (NQ, NR, K1P.format(a='a', b='b')),
        'forall(j, %s, lambda b: %s)' % (NR, K1P.format(a='i', b='b'))]),
}
for n_ in (3, 4):
    sfx = ' #%d' % n_
    IMPL_LOOPS['for i in range(nPts_q)' + sfx] = dict(
        ghost={'q2g': 'endPts_k2_q', 'r2g': 'endPts_k2_r'},
        inv=['forall(0, i, 0, %s, lambda a, b: %s)' % (NR, fin('a', 'b')),
             'forall(i, %s, 0, %s, lambda a, b: %s)' % (NQ, NR, K2G.format(a='a', b='b'))])
    IMPL_LOOPS['for j in range(nPts_r)' + sfx] = dict(inv=[
        'forall(0, i, 0, %s, lambda a, b: %s)' % (NR, fin('a', 'b')),
        'forall(0, j, lambda b: %s)' % fin('i', 'b'),
        'forall(i + 1, %s, 0, %s, lambda a, b: %s)' % (NQ, NR, K2G.format(a='a', b='b')),
        'forall(j, %s, lambda b: %s)' % (NR, K2G.format(a='i', b='b'))])

GHOST_OUT = {'pq': (2, ['len(qPts)', 'len(rPts)']), 'pr': (2, ['len(qPts)', 'len(rPts)']),
             'q2g': (2, ['len(qPts)', 'len(rPts)']), 'r2g': (2, ['len(qPts)', 'len(rPts)'])}
# partial correctness: IF the iteration stops, the feet (q2g, r2g) are one trapezoid update of a previous iterate (pq, pr)
# from which they differ by at most tol (a tol-approximate fixed point of the implicit trapezoidal rule), theta modulo 2*pi,
# r clipped to the radial domain, and f is the boundary value / the 2-D spline of f there.  Termination is NOT decided.
IMPL_ENS = [CONV_ALL_TOL, 'forall(0, %s, 0, %s, lambda a, b: %s)' % (NQ, NR, fin('a', 'b'))]

CONTRACTS.update({
    F + '::general_poloidal_advection_step_impl': dict(
        funparams=POL_FUNPARAMS, requires=POL_REQ + ['tol >= 0'], modifies=['f'] + WORK, ensures=IMPL_ENS, loops=IMPL_LOOPS,
        ghost_out=GHOST_OUT),
    F + '::poloidal_advection_step_impl': dict(requires=POL_REQ + ['tol >= 0'], modifies=['f'] + WORK, ensures=IMPL_ENS,
                                               ghost_out=GHOST_OUT),
})
