"""Contracts for pygyro/advection/accelerated_advection_steps.py (properties C10, C11, C12).

The spline evaluators arrive as function-valued parameters.  S1 / S2 name the value of the evaluator
that was passed in (an uninterpreted function of its arguments); that the two evaluators that are ever
passed (general / uniform cubic) compute the B-spline value is property C07.  spl1_ok / spl2_ok are the
evaluators' own preconditions on (knots, degree, coeffs) -- a class invariant of BSplines/Spline1D that the
Python-level callers establish (see C08 / advection.py contracts).
"""
from .cusplines import CONTRACTS as SPL_CONTRACTS, SPECS as SPL_SPECS

F = 'pygyro/advection/accelerated_advection_steps.py'
FI = 'pygyro/initialisation/initialiser_funcs.py'

A1 = [('x', 'real'), ('knots', 'arr1'), ('degree', 'int'), ('coeffs', 'arr1'), ('der', 'int')]
A2 = [('x', 'real'), ('y', 'real'), ('kts1', 'arr1'), ('deg1', 'int'), ('kts2', 'arr1'), ('deg2', 'int'),
      ('coeffs', 'arr2'), ('der1', 'int'), ('der2', 'int')]

SPECS = SPL_SPECS + [
    ('S1', A1, 'real', None),
    ('S2', A2, 'real', None),
    ('spl1_ok', [('knots', 'arr1'), ('degree', 'int'), ('coeffs', 'arr1')], 'bool', None),
    ('spl1_lo', [('knots', 'arr1'), ('degree', 'int')], 'real', None),
    ('spl1_hi', [('knots', 'arr1'), ('degree', 'int')], 'real', None),
    ('spl2_ok', [('kts1', 'arr1'), ('deg1', 'int'), ('kts2', 'arr1'), ('deg2', 'int'), ('coeffs', 'arr2')], 'bool', None),
    # periodic image of v in [vMin, vMax]: defined along the orbit v + m*(vMax - vMin) (well founded for vMax > vMin)
    ('pwrap', [('v', 'real'), ('vMin', 'real'), ('vMax', 'real')], 'real',
     'pwrap(v + (vMax - vMin), vMin, vMax) if v < vMin else (pwrap(v - (vMax - vMin), vMin, vMax) if v > vMax else v)'),
]

IN1 = ['spl1_ok(knots, degree, coeffs)', 'spl1_lo(knots, degree) <= x', 'x <= spl1_hi(knots, degree)']

ABSTRACT = {
    'spline1d_scalar': dict(abstract=True, pure=True, returns='float', params_order=[p for p, _ in A1],
                            requires=IN1 + ['der == 0 or der == 1'], modifies=[],
                            ensures=['result == S1(x, knots, degree, coeffs, der)']),
    'spline1d_vector': dict(abstract=True, params_order=['x', 'knots', 'degree', 'coeffs', 'y', 'der'],
                            requires=['spl1_ok(knots, degree, coeffs)', 'len(y) >= len(x)',
                                      'forall(0, len(x), lambda i: spl1_lo(knots, degree) <= x[i] and x[i] <= spl1_hi(knots, degree))'],
                            modifies=['y'],
                            ensures=['forall(0, len(x), lambda i: y[i] == S1(x[i], knots, degree, coeffs, der))']),
    'spline2d_scalar': dict(abstract=True, pure=True, returns='float', params_order=[p for p, _ in A2],
                            requires=['spl2_ok(kts1, deg1, kts2, deg2, coeffs)'], modifies=[],
                            ensures=['result == S2(x, y, kts1, deg1, kts2, deg2, coeffs, der1, der2)']),
    'spline2d_cross': dict(abstract=True, params_order=['X', 'Y', 'kts1', 'deg1', 'kts2', 'deg2', 'coeffs', 'z', 'der1', 'der2'],
                           requires=['spl2_ok(kts1, deg1, kts2, deg2, coeffs)', 'shape(z)[0] >= len(X)', 'shape(z)[1] >= len(Y)'],
                           modifies=['z'],
                           ensures=['forall(0, len(X), 0, len(Y), lambda p, q: z[p, q] == '
                                    'S2(X[p], Y[q], kts1, deg1, kts2, deg2, coeffs, der1, der2))',
                                    'forall(0, shape(z)[0], 0, shape(z)[1], lambda p, q: implies(p >= len(X) or q >= len(Y), z[p, q] == old(z)[p, q]))']),
}

FEQ = 'f_eq({r}, {v}, CN0, kN0, deltaRN0, rp, CTi, kTi, deltaRTi)'
E1 = 'S1({v}, kts, deg, coeffs, 0)'

VPAR_REQ = ['len(f) >= len(vPts)', 'bound == 0 or bound == 1 or bound == 2', 'vMin < vMax',
            'spl1_ok(kts, deg, coeffs)', 'vMin == spl1_lo(kts, deg)', 'vMax == spl1_hi(kts, deg)']

# statement of C11: interpolant at the foot; feet outside [vMin,vMax] take f_eq(r, foot) / 0 / the periodic image
VPAR_RULE = ('(({feq} if ({v} < vMin or {v} > vMax) else {e}) if bound == 0 else '
             '((0.0 if ({v} < vMin or {v} > vMax) else {e}) if bound == 1 else {ew}))')


def vpar_rule(v):
    return VPAR_RULE.format(v=v, feq=FEQ.format(r='rPos', v=v), e=E1.format(v=v), ew=E1.format(v='pwrap(%s, vMin, vMax)' % v))


VPAR_ENS = ['forall(0, len(vPts), lambda i: f[i] == %s)' % vpar_rule('vPts[i]'),
            'forall(len(vPts), len(f), lambda i: f[i] == old(f)[i])']
VPAR_DONE = ['forall(0, i, lambda p: f[p] == %s)' % vpar_rule('vPts[p]'),
             'forall(len(vPts), len(f), lambda p: f[p] == old(f)[p])']

CONTRACTS = dict(SPL_CONTRACTS)
CONTRACTS.update(ABSTRACT)
CONTRACTS.update({
    FI + '::f_eq': dict(pure=True, returns='float', requires=[], ensures=[], modifies=[]),
    F + '::general_v_parallel_advection_eval_step': dict(
        funparams={'eval_spline_1d_scalar': 'spline1d_scalar'},
        requires=VPAR_REQ, modifies=['f'], ensures=VPAR_ENS,
        loops={
            'for (i, v) in enumerate(vPts)': dict(inv=VPAR_DONE),
            'for (i, v) in enumerate(vPts) #2': dict(inv=VPAR_DONE),
            'for (i, v) in enumerate(vPts) #3': dict(inv=VPAR_DONE),
            'while v < vMin': dict(
                inv=VPAR_DONE + ['pwrap(v, vMin, vMax) == pwrap(vPts[i], vMin, vMax)'],
                decreases_by=('vMin - v', 'vDiff')),
            'while v > vMax': dict(
                inv=VPAR_DONE + ['pwrap(v, vMin, vMax) == pwrap(vPts[i], vMin, vMax)', 'v >= vMin'],
                decreases_by=('v - vMax', 'vDiff')),
        },
    ),
    F + '::v_parallel_advection_eval_step': dict(
        requires=VPAR_REQ, modifies=['f'],
        ensures=VPAR_ENS,
    ),
})

# ---------------------------------------------------------------------------
# flux-surface advection kernels (C10)
# ---------------------------------------------------------------------------

FLUX_DONE_J = 'forall(0, j, 0, nr, lambda a, b: f[a, b] == sum_(0, len(coeffs), lambda k: coeffs[k] * vals[b, a, k]))'
FLUX_DONE_I = 'forall(0, i, lambda b: f[j, b] == sum_(0, len(coeffs), lambda k: coeffs[k] * vals[b, j, k]))'
FLUX_FRAME = 'forall(0, shape(f)[0], 0, shape(f)[1], lambda a, b: implies(a >= nq or b >= nr, f[a, b] == old(f)[a, b]))'

TH = '(qVals[{k}] + thetaShifts[{j}]) % (2 * pi)'
LG_VAL = 'vals[(i - shifts[{j}]) % nz, {k}, {j}] == S1(' + TH + ', kts, deg, coeffs, 0)'
LG_FRAME = ('forall(0, shape(vals)[0], 0, shape(vals)[1], 0, shape(vals)[2], lambda a, b, c: implies('
            'c >= {jhi} or b >= len(qVals) or a != (i - shifts[c]) % shape(vals)[0], vals[a, b, c] == old(vals)[a, b, c]))')
LG_REQ = ['shape(vals)[0] >= 1', 'len(thetaShifts) >= len(shifts)', 'shape(vals)[1] >= len(qVals)',
          'shape(vals)[2] >= len(shifts)', 'spl1_ok(kts, deg, coeffs)', 'spl1_lo(kts, deg) <= 0', '2 * pi <= spl1_hi(kts, deg)']
LG_ENS = ['forall(0, len(shifts), 0, len(qVals), lambda j, k: %s)' % LG_VAL.format(j='j', k='k').replace('% nz', '% shape(vals)[0]'),
          LG_FRAME.format(jhi='len(shifts)')]

CONTRACTS.update({
    F + '::flux_advection': dict(
        requires=['nq >= 0', 'nr >= 0', 'shape(f)[0] >= nq', 'shape(f)[1] >= nr', 'len(coeffs) >= 1',
                  'shape(vals)[0] >= nr', 'shape(vals)[1] >= nq', 'shape(vals)[2] >= len(coeffs)'],
        modifies=['f'],
        # f[theta, z] = sum_k w_k * vals[z, theta, k]
        ensures=['forall(0, nq, 0, nr, lambda a, b: f[a, b] == sum_(0, len(coeffs), lambda k: coeffs[k] * vals[b, a, k]))',
                 FLUX_FRAME],
        loops={
            'for j in range(nq)': dict(inv=[FLUX_DONE_J, FLUX_FRAME]),
            'for i in range(nr)': dict(inv=[FLUX_DONE_J, FLUX_DONE_I, FLUX_FRAME]),
            'for k in range(1, len(coeffs))': dict(inv=[FLUX_DONE_J, FLUX_DONE_I, FLUX_FRAME,
                                                        'f[j, i] == sum_(0, k, lambda m: coeffs[m] * vals[i, j, m])']),
        },
    ),
    F + '::general_get_lagrange_vals': dict(
        funparams={'eval_spline_1d_vector': 'spline1d_vector', 'eval_spline_1d_scalar': 'spline1d_scalar'},
        requires=LG_REQ, modifies=['vals'], ensures=LG_ENS,
        loops={
            'for (j, s) in enumerate(shifts)': dict(
                inv=['forall(0, j, 0, len(qVals), lambda c, b: %s)' % LG_VAL.format(j='c', k='b'),
                     LG_FRAME.format(jhi='j')]),
            'for (k, q) in enumerate(new_q)': dict(
                inv=['forall(0, j, 0, len(qVals), lambda c, b: %s)' % LG_VAL.format(j='c', k='b'),
                     'forall(0, k, lambda b: %s)' % LG_VAL.format(j='j', k='b'),
                     'forall(0, shape(vals)[0], 0, shape(vals)[1], 0, shape(vals)[2], lambda a, b, c: implies('
                     'c > j or (c == j and (b >= k or a != idx)) or b >= len(qVals) or (c < j and a != (i - shifts[c]) % nz), '
                     'vals[a, b, c] == old(vals)[a, b, c]))',
                     'forall(0, len(qVals), lambda b: new_q[b] == %s and 0 <= new_q[b] and new_q[b] < 2 * pi)' % TH.format(k='b', j='j')]),
        },
    ),
    F + '::get_lagrange_vals': dict(requires=LG_REQ, modifies=['vals'], ensures=LG_ENS),
})
