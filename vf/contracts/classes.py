"""Class-level (wiring) contracts: VParallelAdvection (C11), DensityFinder (C16).

The numerical kernels are used only through their contracts (advection_kernels.py / poisson_tools.py); the spline
interpolator through an assumed contract (solver exactness is an external assumption, see C08):
is_interpolant(knots, degree, coeffs, data) -- "coeffs are the coefficients of the spline of this space that takes
the values data at the interpolation points" -- is an uninterpreted predicate.
"""
from .advection_kernels import CONTRACTS as K_CONTRACTS, SPECS as K_SPECS, vpar_rule
from .poisson_tools import CONTRACTS as P_CONTRACTS

A = 'pygyro/advection/advection.py'
SPL = 'pygyro/splines/splines.py'
SI = 'pygyro/splines/spline_interpolators.py'
PS = 'pygyro/poisson/poisson_solver.py'
GR = 'pygyro/model/grid.py'
LY = 'pygyro/model/layout.py'

SPECS = K_SPECS + [
    ('is_interpolant', [('knots', 'arr1'), ('degree', 'int'), ('coeffs', 'arr1'), ('data', 'arr1')], 'bool', None),
]

CONTRACTS = dict(K_CONTRACTS)
CONTRACTS.update(P_CONTRACTS)

BASIS = {'__class__': SPL + '::BSplines', '_knots': 'arr1', '_degree': 'int', '_cubic_uniform_splines': 'bool'}
SPLINE = {'__class__': SPL + '::Spline1D', '_basis': BASIS, '_coeffs': 'arr1'}
CONSTS = {'__class__': 'pygyro/initialisation/constants.py::Constants', 'CN0': 'float', 'kN0': 'float', 'deltaRN0': 'float',
          'rp': 'float', 'CTi': 'float', 'kTi': 'float', 'deltaRTi': 'float'}

CONTRACTS.update({
    # assumed: banded LU / SuperLU solve the collocation system exactly (external, see DESIGN section 5)
    SI + '::SplineInterpolator1D.compute_interpolant': dict(
        abstract=True, params_order=['self', 'ug', 'spl'],
        requires=['len(ug) == len(spl._coeffs) or len(ug) <= len(spl._coeffs)'],
        modifies=['spl._coeffs'],
        ensures=['is_interpolant(spl._basis._knots, spl._basis._degree, spl._coeffs, old(ug))',
                 'spl1_ok(spl._basis._knots, spl._basis._degree, spl._coeffs)']),
})


def vpar_self(edge):
    return {'__class__': A + '::VParallelAdvection', '_points': 'arr1', '_nPoints': ('expr', '(len(self._points),)'),
            '_interpolator': {'__class__': SI + '::SplineInterpolator1D'}, '_spline': SPLINE, '_constants': CONSTS,
            '_edgeType': ('const', edge)}


KN, DG, CF = 'self._spline._basis._knots', 'self._spline._basis._degree', 'self._spline._coeffs'
RULE = (vpar_rule('(self._points[i] - c * dt)')
        .replace('rPos', 'r').replace('vMin', 'self._points[0]').replace('vMax', 'self._points[len(self._points) - 1]')
        .replace('kts, deg, coeffs', '%s, %s, %s' % (KN, DG, CF)).replace('bound ==', 'self._edgeType =='))
for k in ('CN0', 'kN0', 'deltaRN0', 'rp', 'CTi', 'kTi', 'deltaRTi'):
    RULE = RULE.replace(', %s' % k, ', self._constants.%s' % k)


def vpar_cases():
    out = []
    for edge in (0, 1, 2):
        C = dict(CONTRACTS)
        C[A + '::VParallelAdvection.step'] = dict(
            params={'self': vpar_self(edge), 'f': 'arr1', 'dt': 'float', 'c': 'float', 'r': 'float'},
            requires=['len(f) == len(self._points)', 'len(self._points) >= 2', 'len(self._spline._coeffs) == len(self._points)', 'self._points[0] < self._points[len(self._points) - 1]',
                      # the velocity grid spans the spline domain (class invariant established by the constructor from eta_vals[3])
                      'self._points[0] == spl1_lo(%s, %s)' % (KN, DG),
                      'self._points[len(self._points) - 1] == spl1_hi(%s, %s)' % (KN, DG)],
            modifies=['f', CF],
            # C11: every nodal value becomes the interpolant of the OLD nodal values at the foot v_i - c*dt (boundary rule outside)
            ensures=['is_interpolant(%s, %s, %s, old(f))' % (KN, DG, CF),
                     'forall(0, len(f), lambda i: f[i] == %s)' % RULE])
        out.append(dict(label='VParallelAdvection.step edge=%d' % edge, struct=None, key=A + '::VParallelAdvection.step', contracts=C))
    return out


GRID4 = {'__class__': GR + '::Grid', '_f': 'arr4', '_current_layout_name': ('const', 'v_parallel'),
         '_layout': {'__class__': LY + '::Layout', '_dims_order': ('const', (0, 2, 1, 3)), '_starts': 'iarr1', '_ends': 'iarr1'}}
GRID3 = {'__class__': GR + '::Grid', '_f': 'arr3', '_current_layout_name': ('const', 'v_parallel_2d'),
         '_layout': {'__class__': LY + '::Layout', '_dims_order': ('const', (0, 2, 1)), '_starts': 'iarr1', '_ends': 'iarr1'}}
DENS_SELF = {'__class__': PS + '::DensityFinder', '_quad_coeffs': 'arr1', '_fEq': 'arr2'}
DENS_REQ = ['len(grid._layout._starts) == 4 and len(grid._layout._ends) == 4',
            '0 <= grid._layout._starts[0] and grid._layout._starts[0] <= grid._layout._ends[0]',
            'grid._layout._ends[0] <= shape(self._fEq)[0]',
            # the local block of the distribution function has the advertised shape; rho is distributed like f in (r, z, theta)
            'shape(grid._f)[0] == grid._layout._ends[0] - grid._layout._starts[0]',
            'shape(rho._f)[0] == shape(grid._f)[0] and shape(rho._f)[1] == shape(grid._f)[1] and shape(rho._f)[2] == shape(grid._f)[2]',
            'shape(grid._f)[3] == len(self._quad_coeffs)', 'shape(self._fEq)[1] == len(self._quad_coeffs)']
GETLAYOUT = dict(params_order=['self', 'name'], returns='expr:self._layout', requires=['name == self._current_layout_name'],
                 ensures=[], modifies=[])


def dens_cases():
    C = dict(CONTRACTS)
    C[GR + '::Grid.getLayout'] = GETLAYOUT
    C[PS + '::DensityFinder.getPerturbedRho'] = dict(
        params={'self': DENS_SELF, 'grid': GRID4, 'rho': GRID3}, requires=DENS_REQ, modifies=['rho._f'],
        # C16: minus the equilibrium at the point's OWN (global) radius: row starts_r + a of the table built for all radii
        ensures=['forall(0, shape(rho._f)[0], 0, shape(rho._f)[1], 0, shape(rho._f)[2], lambda a, b, c: rho._f[a, b, c] == '
                 'sum_(0, len(self._quad_coeffs), lambda l: self._quad_coeffs[l] * '
                 '(grid._f[a, b, c, l] - self._fEq[grid._layout._starts[0] + a, l])))'])
    C[PS + '::DensityFinder.getRho'] = dict(
        params={'self': DENS_SELF, 'grid': GRID4, 'rho': GRID3}, requires=DENS_REQ, modifies=['rho._f'],
        ensures=['forall(0, shape(rho._f)[0], 0, shape(rho._f)[1], 0, shape(rho._f)[2], lambda a, b, c: rho._f[a, b, c] == '
                 'sum_(0, len(self._quad_coeffs), lambda l: self._quad_coeffs[l] * grid._f[a, b, c, l]))'])
    return [dict(label='DensityFinder.getPerturbedRho', struct=None, key=PS + '::DensityFinder.getPerturbedRho', contracts=C),
            dict(label='DensityFinder.getRho', struct=None, key=PS + '::DensityFinder.getRho', contracts=C)]


def vpar_init_cases():
    """VParallelAdvection.__init__: the class invariant step() starts from.  The velocity nodes are the caller's eta_vals[3], the
    interpolator and the spline are built on the spline space given, and the boundary rule named by the string becomes the
    edge code the kernel contract of C11 is stated with (fEq -> 0: equilibrium outside, null -> 1: zero outside, periodic -> 2);
    any other string is refused."""
    out = []
    for edge, code in (('fEq', 0), ('null', 1), ('periodic', 2), ('reflect', None)):
        C = dict(CONTRACTS)
        C[SI + '::SplineInterpolator1D.__init__'] = dict(abstract=True, params_order=['self', 'basis'], requires=[], ensures=[],
                                                         modifies=[], creates={'_basis': ('expr', 'basis')})
        C[SPL + '::Spline1D.__init__'] = dict(abstract=True, params_order=['self', 'basis'], requires=[], ensures=[], modifies=[],
                                              creates={'_basis': ('expr', 'basis')})
        d = dict(params={'self': {'__class__': A + '::VParallelAdvection'}, 'eta_vals': 'list4arr1',
                         'splines': {'__class__': SPL + '::BSplines'}, 'constants': CONSTS, 'edge': ('const', edge)},
                 requires=['len(eta_vals[3]) >= 2'], modifies=[])
        if code is None:
            d['raises'] = [('RuntimeError', 'True')]
            d['ensures'] = ['False']
        else:
            d['ensures'] = ['self._edgeType == %d' % code, 'self._points is eta_vals[3]',
                            'len(self._nPoints) == 1 and self._nPoints[0] == len(eta_vals[3])',
                            'self._interpolator._basis is splines and self._spline._basis is splines',
                            'self._constants is constants']
        C[A + '::VParallelAdvection.__init__'] = d
        out.append(dict(label='VParallelAdvection.__init__ edge=%s' % edge, struct=None, key=A + '::VParallelAdvection.__init__',
                        contracts=C))
    return out


def cases(tier, rng=None):
    return vpar_cases() + vpar_init_cases()
