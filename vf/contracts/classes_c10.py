"""Class-level wiring contract of FluxSurfaceAdvection.step (C10): for every z-column i the method interpolates column i of the
slice it was given and calls get_lagrange_vals with i, the rows (rIdx, cIdx) of its shift / theta-shift tables, its own theta
points and work array and the spline just computed; then flux_advection with its own point counts, the slice, the row (rIdx,
cIdx) of the Lagrange coefficients and the same work array.  The relation is the PRECONDITION of the two kernels here (their
numerical contracts are proved separately in C10's kernel part), so every call site is one obligation.
"""
A = 'pygyro/advection/advection.py'
K = 'pygyro/advection/accelerated_advection_steps.py'
SPL = 'pygyro/splines/splines.py'
SI = 'pygyro/splines/spline_interpolators.py'
SPECS = []
CONTRACTS = {}

BASIS = {'__class__': SPL + '::BSplines', '_knots': 'arr1', '_degree': 'int', '_cubic_uniform_splines': 'bool'}
SPLINE = {'__class__': SPL + '::Spline1D', '_basis': BASIS, '_coeffs': 'arr1'}


def cases(tier, rng=None):
    selfspec = {'__class__': A + '::FluxSurfaceAdvection', '_points': ('list', ['arr1', 'arr1']),
                '_nPoints': ('expr', '(len(self._points[0]), len(self._points[1]))'),
                '_interpolator': {'__class__': SI + '::SplineInterpolator1D'}, '_thetaSpline': SPLINE,
                '_shifts': 'iarr3', '_thetaShifts': 'arr3', '_lagrangeCoeffs': 'arr3', '_LagrangeVals': 'arr3'}
    C = {
        SI + '::SplineInterpolator1D.compute_interpolant': dict(
            abstract=True, params_order=['self', 'ug', 'spl'],
            # column i of the slice, into the object's own theta spline
            requires=["view_of(ug, caller('f'))", "view_fixed(ug, 1) == caller('i')", "spl is caller('self')._thetaSpline"],
            modifies=['spl._coeffs'], ensures=[]),
        K + '::get_lagrange_vals': dict(
            abstract=True, params_order=['i', 'shifts', 'vals', 'qVals', 'thetaShifts', 'kts', 'deg', 'coeffs', 'cubic_uniform_splines'],
            requires=["i == caller('i')",
                      "view_of(shifts, caller('self')._shifts) and view_fixed(shifts, 0) == caller('rIdx') and view_fixed(shifts, 1) == caller('cIdx')",
                      "view_of(thetaShifts, caller('self')._thetaShifts) and view_fixed(thetaShifts, 0) == caller('rIdx') and "
                      "view_fixed(thetaShifts, 1) == caller('cIdx')",
                      "vals is caller('self')._LagrangeVals", "qVals is caller('self')._points[0]",
                      "kts is caller('self')._thetaSpline._basis._knots", "deg == caller('self')._thetaSpline._basis._degree",
                      "coeffs is caller('self')._thetaSpline._coeffs",
                      "cubic_uniform_splines == caller('self')._thetaSpline._basis._cubic_uniform_splines"],
            modifies=['vals'], ensures=[]),
        K + '::flux_advection': dict(
            abstract=True, params_order=['nq', 'nr', 'f', 'coeffs', 'vals'],
            requires=["nq == len(caller('self')._points[0]) and nr == len(caller('self')._points[1])", "f is caller('f')",
                      "view_of(coeffs, caller('self')._lagrangeCoeffs) and view_fixed(coeffs, 0) == caller('rIdx') and "
                      "view_fixed(coeffs, 1) == caller('cIdx')", "vals is caller('self')._LagrangeVals"],
            modifies=['f'], ensures=[]),
        A + '::FluxSurfaceAdvection.step': dict(
            params={'self': selfspec, 'f': 'arr2', 'cIdx': 'int', 'rIdx': 'int'},
            requires=['shape(f)[0] == len(self._points[0]) and shape(f)[1] == len(self._points[1])',
                      '0 <= rIdx and rIdx < shape(self._shifts)[0] and 0 <= cIdx and cIdx < shape(self._shifts)[1]',
                      'shape(self._thetaShifts)[0] == shape(self._shifts)[0] and shape(self._thetaShifts)[1] == shape(self._shifts)[1]',
                      'shape(self._lagrangeCoeffs)[0] == shape(self._shifts)[0] and shape(self._lagrangeCoeffs)[1] == shape(self._shifts)[1]'],
            modifies=['f', 'self._LagrangeVals', 'self._thetaSpline._coeffs'], ensures=[], loops={'*': dict(inv=[])}),
    }
    return [dict(label='FluxSurfaceAdvection.step', struct=None, key=A + '::FluxSurfaceAdvection.step', contracts=C)]
