"""Class-level wiring contract of FluxSurfaceAdvection.step (C10): for every z-column i the method interpolates column i of the
slice it was given and calls get_lagrange_vals with i, the rows (rIdx, cIdx) of its shift / theta-shift tables, its own theta
points and work array and the spline just computed; then flux_advection with its own point counts, the slice, the row (rIdx,
cIdx) of the Lagrange coefficients and the same work array.  The relation is the PRECONDITION of the two kernels here (their
numerical contracts are proved separately in C10's kernel part), so every call site is one obligation.
"""
A = 'pygyro/advection/advection.py'
K = 'pygyro/advection/accelerated_advection_steps.py'
SPL = 'pygyro/splines/splines.py'
SI = 'pygyro/splines/spline_interpolators.py'
SPECS = []
CONTRACTS = {}

BASIS = {'__class__': SPL + '::BSplines', '_knots': 'arr1', '_degree': 'int', '_cubic_uniform_splines': 'bool'}
SPLINE = {'__class__': SPL + '::Spline1D', '_basis': BASIS, '_coeffs': 'arr1'}


def cases(tier, rng=None):
    selfspec = {'__class__': A + '::FluxSurfaceAdvection', '_points': ('list', ['arr1', 'arr1']),
                '_nPoints': ('expr', '(len(self._points[0]), len(self._points[1]))'),
                '_interpolator': {'__class__': SI + '::SplineInterpolator1D'}, '_thetaSpline': SPLINE,
                '_shifts': 'iarr3', '_thetaShifts': 'arr3', '_lagrangeCoeffs': 'arr3', '_LagrangeVals': 'arr3'}
    C = {
        SI + '::SplineInterpolator1D.compute_interpolant': dict(
            abstract=True, params_order=['self', 'ug', 'spl'],
            # column i of the slice, into the object's own theta spline
            requires=["view_of(ug, caller('f'))", "view_fixed(ug, 1) == caller('i')", "spl is caller('self')._thetaSpline"],
            modifies=['spl._coeffs'], ensures=[]),
        K + '::get_lagrange_vals': dict(
            abstract=True, params_order=['i', 'shifts', 'vals', 'qVals', 'thetaShifts', 'kts', 'deg', 'coeffs', 'cubic_uniform_splines'],
            requires=["i == caller('i')",
                      "view_of(shifts, caller('self')._shifts) and view_fixed(shifts, 0) == caller('rIdx') and view_fixed(shifts, 1) == caller('cIdx')",
                      "view_of(thetaShifts, caller('self')._thetaShifts) and view_fixed(thetaShifts, 0) == caller('rIdx') and "
                      "view_fixed(thetaShifts, 1) == caller('cIdx')",
                      "vals is caller('self')._LagrangeVals", "qVals is caller('self')._points[0]",
                      "kts is caller('self')._thetaSpline._basis._knots", "deg == caller('self')._thetaSpline._basis._degree",
                      "coeffs is caller('self')._thetaSpline._coeffs",
                      "cubic_uniform_splines == caller('self')._thetaSpline._basis._cubic_uniform_splines"],
            modifies=['vals'], ensures=[]),
        K + '::flux_advection': dict(
            abstract=True, params_order=['nq', 'nr', 'f', 'coeffs', 'vals'],
            requires=["nq == len(caller('self')._points[0]) and nr == len(caller('self')._points[1])", "f is caller('f')",
                      "view_of(coeffs, caller('self')._lagrangeCoeffs) and view_fixed(coeffs, 0) == caller('rIdx') and "
                      "view_fixed(coeffs, 1) == caller('cIdx')", "vals is caller('self')._LagrangeVals"],
            modifies=['f'], ensures=[]),
        A + '::FluxSurfaceAdvection.step': dict(
            params={'self': selfspec, 'f': 'arr2', 'cIdx': 'int', 'rIdx': 'int'},
            requires=['shape(f)[0] == len(self._points[0]) and shape(f)[1] == len(self._points[1])',
                      '0 <= rIdx and rIdx < shape(self._shifts)[0] and 0 <= cIdx and cIdx < shape(self._shifts)[1]',
                      'shape(self._thetaShifts)[0] == shape(self._shifts)[0] and shape(self._thetaShifts)[1] == shape(self._shifts)[1]',
                      'shape(self._lagrangeCoeffs)[0] == shape(self._shifts)[0] and shape(self._lagrangeCoeffs)[1] == shape(self._shifts)[1]'],
            modifies=['f', 'self._LagrangeVals', 'self._thetaSpline._coeffs'], ensures=[], loops={'*': dict(inv=[])}),
    }
    return [dict(label='FluxSurfaceAdvection.step', struct=None, key=A + '::FluxSurfaceAdvection.step', contracts=C)]


# ---------------------------------------------------------------------------------------------------------------------
# FluxSurfaceAdvection._getLagrangePts: the tables the kernels read.  C10 "field-aligned shift": for the local radius a and
# local velocity b the stencil consists of the zLagrangePts consecutive z-cells around the foot
#     shifts[a, b, k] = floor(-v_b * b_z(r_a) * dt / dz) + (k + (-n)//2 + 1),     b_z(r) = 1/sqrt(1 + (r iota(r)/R0)^2),
# and every stencil point is displaced in theta by EXACTLY iota(r_a) * dz * shift / R0 - the field line through it, with
# no reduction of the shift modulo the z period (iota is not an integer in general) - where r_a, v_b are the coordinates
# of the process's OWN global indices (starts + a, starts + b).
# The tail of the function (barycentric Lagrange weights: np.prod over an axis, np.eye, np.where under np.errstate) is
# outside the executor's subset; the function is verified on its mechanical backward slice on the two tables
# (vf/func_slice.py: the dropped statements are rebinding assignments of numpy expressions and cannot change the tables;
# their line numbers are in the evidence).  The Lagrange weights themselves stay with the bounded class-level check.
# ---------------------------------------------------------------------------------------------------------------------
ASL = A + '#slice:FluxSurfaceAdvection._getLagrangePts:self._shifts,self._thetaShifts'
LY = 'pygyro/model/layout.py'


def lagrange_pts_case(order, npts):
    ir = list(order).index(0)
    iv = list(order).index(3)
    lay = {'__class__': LY + '::Layout', '_name': ('const', 'lay'), '_dims_order': ('const', tuple(order)),
           '_inv_dims_order': ('const', tuple(list(order).index(d) for d in range(4))), '_ndims': ('const', 4),
           '_starts': 'tuple4int', '_ends': 'tuple4int', '_shape': 'tuple4int'}
    RS, RE, VS, VE = ('layout._starts[%d]' % ir, 'layout._ends[%d]' % ir, 'layout._starts[%d]' % iv, 'layout._ends[%d]' % iv)
    r_a = 'eta_grid[0][%s + a]' % RS
    v_b = 'eta_grid[3][%s + b]' % VS
    dz = '(eta_grid[2][2] - eta_grid[2][1])'
    bz = '(1 / sqrt(1 + ({r} * iota({r}) / R0) ** 2))'.format(r=r_a)
    n = 'self._zLagrangePts'
    box = '0, {re} - {rs}, 0, {ve} - {vs}, 0, {n}'.format(re=RE, rs=RS, ve=VE, vs=VS, n=n)
    C = {'iota_fn': dict(abstract=True, pure=True, elementwise=True, returns='float', params_order=['r'], requires=[], ensures=[],
                         modifies=[]),
         ASL + '::FluxSurfaceAdvection._getLagrangePts': dict(
             params={'self': {'__class__': ASL + '::FluxSurfaceAdvection', '_zLagrangePts': npts},
                     'eta_grid': 'list4arr1', 'layout': lay, 'dt': 'float', 'R0': 'float'},
             funparams={'iota': 'iota_fn'},
             requires=['len(eta_grid[2]) >= 3', dz + ' > 0', 'R0 != 0', n + ' >= 1',
                       '0 <= {s} and {s} <= {e} and {e} <= len(eta_grid[0])'.format(s=RS, e=RE),
                       '0 <= {s} and {s} <= {e} and {e} <= len(eta_grid[3])'.format(s=VS, e=VE),
                       # C02 invariant of the layout object
                       'layout._shape[%d] == %s - %s and layout._shape[%d] == %s - %s' % (ir, RE, RS, iv, VE, VS)],
             modifies=[],
             creates={'_shifts': 'iarr3', '_thetaShifts': 'arr3'},
             ensures=['shape(self._shifts)[0] == {re} - {rs} and shape(self._shifts)[1] == {ve} - {vs} and shape(self._shifts)[2] == {n}'
                      .format(re=RE, rs=RS, ve=VE, vs=VS, n=n),
                      'shape(self._thetaShifts)[0] == {re} - {rs} and shape(self._thetaShifts)[1] == {ve} - {vs} and '
                      'shape(self._thetaShifts)[2] == {n}'.format(re=RE, rs=RS, ve=VE, vs=VS, n=n),
                      # stencil cells: consecutive, around the foot of the characteristic of the OWN (r, v)
                      'forall(%s, lambda a, b, k: self._shifts[a, b, k] == floor(-%s * %s * dt / %s) + (k + (-%s) // 2 + 1))'
                      % (box, v_b, bz, dz, n),
                      # field alignment: theta displacement = iota(r) * dz * shift / R0, shift NOT reduced modulo the period
                      'forall(%s, lambda a, b, k: self._thetaShifts[a, b, k] == (%s * iota(%s) / R0) * self._shifts[a, b, k])'
                      % (box, dz, r_a)]),
         }
    return dict(label='_getLagrangePts order=%s n=%s' % (''.join(map(str, order)), npts), struct=None,
                key=ASL + '::FluxSurfaceAdvection._getLagrangePts', contracts=C)


_step_cases = cases


def cases(tier, rng=None):
    out = _step_cases(tier, rng)
    # flux_surface ordering of the driver (r, v, theta, z) and one with v first; default stencil (6 points) and a symbolic one
    out.append(lagrange_pts_case((0, 3, 1, 2), ('const', 6)))
    out.append(lagrange_pts_case((0, 3, 1, 2), 'int'))
    if tier != 'quick':
        out.append(lagrange_pts_case((3, 0, 1, 2), 'int'))
        out.append(lagrange_pts_case((1, 3, 2, 0), ('const', 4)))
    return out


# ---------------------------------------------------------------------------------------------------------------------
# FluxSurfaceAdvection.__init__: establishes what step() and the kernels rely on (class invariant): the theta / z point
# arrays are the caller's eta_grid[1] / eta_grid[2], the work array is [n_z, n_theta, zDegree+1], the tables are built by
# _getLagrangePts from the SAME eta_grid, layout and dt and from the constants' own iota and R0 (callee precondition; the
# table contents are the contract of _getLagrangePts proved above on its slice).
# ---------------------------------------------------------------------------------------------------------------------
CONSTS = 'pygyro/initialisation/constants.py'


def init_case():
    lay = {'__class__': LY + '::Layout', '_name': ('const', 'lay'), '_dims_order': ('const', (0, 3, 1, 2)),
           '_inv_dims_order': ('const', (0, 2, 3, 1)), '_ndims': ('const', 4), '_starts': 'tuple4int', '_ends': 'tuple4int',
           '_shape': 'tuple4int'}
    cst = {'__class__': CONSTS + '::Constants', 'iotaVal': 'float', 'R0': 'float'}
    nR, nV = 'layout._shape[0]', 'layout._shape[1]'
    C = {
        'iota_fn': dict(abstract=True, pure=True, elementwise=True, returns='float', params_order=['r'], requires=[], ensures=[],
                        modifies=[]),
        CONSTS + '::Constants.iota': dict(inline=True, implements=['iota_fn']),
        SI + '::SplineInterpolator1D.__init__': dict(abstract=True, params_order=['self', 'basis'], requires=[], ensures=[], modifies=[],
                                                     creates={'_basis': ('expr', 'basis')}),
        SPL + '::Spline1D.__init__': dict(abstract=True, params_order=['self', 'basis'], requires=[], ensures=[], modifies=[],
                                          creates={'_basis': ('expr', 'basis')}),
        A + '::FluxSurfaceAdvection._getLagrangePts': dict(
            abstract=True, params_order=['self', 'eta_grid', 'layout', 'dt', 'iota', 'R0'], funparams={'iota': 'iota_fn'},
            requires=["self is caller('self')", "len(eta_grid) == 4 and eta_grid[0] is caller('eta_grid')[0] and eta_grid[1] is caller('eta_grid')[1] and "
                      "eta_grid[2] is caller('eta_grid')[2] and eta_grid[3] is caller('eta_grid')[3]", "layout is caller('layout')", "dt == caller('dt')",
                      "R0 == caller('constants').R0",
                      # the stencil size must be known to the table builder: set before the call
                      "self._zLagrangePts == caller('zDegree') + 1"],
            modifies=[],
            creates={'_shifts': 'iarr3', '_thetaShifts': 'arr3', '_lagrangeCoeffs': 'arr3'},
            ensures=['shape(self.%s)[0] == %s and shape(self.%s)[1] == %s and shape(self.%s)[2] == self._zLagrangePts' % (t, nR, t, nV, t)
                     for t in ('_shifts', '_thetaShifts', '_lagrangeCoeffs')]),
        A + '::FluxSurfaceAdvection.__init__': dict(
            params={'self': {'__class__': A + '::FluxSurfaceAdvection'}, 'eta_grid': 'list4arr1',
                    'splines': ('list', [{'__class__': SPL + '::BSplines'}, {'__class__': SPL + '::BSplines'}]),
                    'layout': lay, 'dt': 'float', 'constants': cst, 'zDegree': 'int'},
            requires=['zDegree >= 0'], modifies=[],
            ensures=['self._zLagrangePts == zDegree + 1',
                     'len(self._points) == 2 and self._points[0] is eta_grid[1] and self._points[1] is eta_grid[2]',
                     'self._nPoints[0] == len(eta_grid[1]) and self._nPoints[1] == len(eta_grid[2])',
                     'self._interpolator._basis is splines[0] and self._thetaSpline._basis is splines[0]',
                     # work array of the kernels: [n_z, n_theta, stencil]
                     'shape(self._LagrangeVals)[0] == len(eta_grid[2]) and shape(self._LagrangeVals)[1] == len(eta_grid[1]) and '
                     'shape(self._LagrangeVals)[2] == zDegree + 1',
                     # the three tables agree in their (r, v) extents: precondition of step()
                     'shape(self._thetaShifts)[0] == shape(self._shifts)[0] and shape(self._thetaShifts)[1] == shape(self._shifts)[1]',
                     'shape(self._lagrangeCoeffs)[0] == shape(self._shifts)[0] and shape(self._lagrangeCoeffs)[1] == shape(self._shifts)[1]']),
    }
    return dict(label='FluxSurfaceAdvection.__init__', struct=None, key=A + '::FluxSurfaceAdvection.__init__', contracts=C)


_cases2 = cases


def cases(tier, rng=None):
    return _cases2(tier, rng) + [init_case()]
