"""Class-level (wiring) contract of PoloidalAdvection.step (C12): the method interpolates the slice it is given and hands the
kernel - through 33/34 positional arguments - its own grid points, work arrays, the potential spline, the freshly computed
spline of f, the constants and the flags.  The postcondition is the kernel's own postcondition (the statement of C12: Heun /
implicit-trapezoid feet and boundary values) rewritten over the object's attributes, so a swapped or wrong argument makes it
unprovable.  The 2-D interpolator is used through an assumed contract (solver exactness is external, see C08):
is_interpolant2(bases, coeffs, data) is an uninterpreted predicate, and the evaluators' precondition spl2_ok is re-established.
"""
import re

from .advection_kernels import CONTRACTS as K_CONTRACTS, SPECS as K_SPECS, POL_REQ, EXPL_ENS, IMPL_ENS, WORK, GHOST_OUT

A = 'pygyro/advection/advection.py'
SPL = 'pygyro/splines/splines.py'
SI = 'pygyro/splines/spline_interpolators.py'

SPECS = K_SPECS + [
    ('is_interpolant2', [('kts1', 'arr1'), ('deg1', 'int'), ('kts2', 'arr1'), ('deg2', 'int'), ('coeffs', 'arr2'), ('data', 'arr2')],
     'bool', None),
]
CONTRACTS = {}

BASIS = {'__class__': SPL + '::BSplines', '_knots': 'arr1', '_degree': 'int', '_cubic_uniform_splines': 'bool'}
SPLINE2 = {'__class__': SPL + '::Spline2D', '_basis1': BASIS, '_basis2': BASIS, '_coeffs': 'arr2'}
CONSTS = {'__class__': 'pygyro/initialisation/constants.py::Constants', 'CN0': 'float', 'kN0': 'float', 'deltaRN0': 'float',
          'rp': 'float', 'CTi': 'float', 'kTi': 'float', 'deltaRTi': 'float', 'B0': 'float'}
SUB = {'rPts': 'self._points[1]', 'qPts': 'self._points[0]',
       'drPhi_0': 'self._drPhi_0', 'dthetaPhi_0': 'self._dqPhi_0', 'drPhi_k': 'self._drPhi_k', 'dthetaPhi_k': 'self._dqPhi_k',
       'endPts_k1_q': 'self._endPts_k1_q', 'endPts_k1_r': 'self._endPts_k1_r', 'endPts_k2_q': 'self._endPts_k2_q',
       'endPts_k2_r': 'self._endPts_k2_r',
       'kts1Phi': 'phi._basis1._knots', 'kts2Phi': 'phi._basis2._knots', 'coeffsPhi': 'phi._coeffs',
       'deg1Phi': 'phi._basis1._degree', 'deg2Phi': 'phi._basis2._degree',
       'kts1Pol': 'self._spline._basis1._knots', 'kts2Pol': 'self._spline._basis2._knots', 'coeffsPol': 'self._spline._coeffs',
       'deg1Pol': 'self._spline._basis1._degree', 'deg2Pol': 'self._spline._basis2._degree',
       'CN0': 'self._constants.CN0', 'kN0': 'self._constants.kN0', 'deltaRN0': 'self._constants.deltaRN0', 'rp': 'self._constants.rp',
       'CTi': 'self._constants.CTi', 'kTi': 'self._constants.kTi', 'deltaRTi': 'self._constants.deltaRTi', 'B0': 'self._constants.B0',
       'nulBound': 'self._nulEdge', 'tol': 'self._TOL'}


def sub(text):
    def rep(m):
        w = m.group(0)
        return SUB.get(w, w)
    # whole identifiers only, and not attribute names (preceded by a dot)
    return re.sub(r'(?<![\w.])[A-Za-z_]\w*', rep, text)


POLB = 'self._spline._basis1._knots, self._spline._basis1._degree, self._spline._basis2._knots, self._spline._basis2._degree'


def self_spec(explicit):
    d = {'__class__': A + '::PoloidalAdvection', '_points': ('list', ['arr1', 'arr1']),
         '_nPoints': ('expr', '(len(self._points[0]), len(self._points[1]))'),
         '_interpolator': {'__class__': SI + '::SplineInterpolator2D'}, '_spline': SPLINE2, '_constants': CONSTS,
         '_explicit': ('const', explicit), '_TOL': 'float', '_nulEdge': 'bool'}
    for w in ('_drPhi_0', '_dqPhi_0', '_drPhi_k', '_dqPhi_k', '_endPts_k1_q', '_endPts_k1_r', '_endPts_k2_q', '_endPts_k2_r'):
        d[w] = 'arr2'
    return d


def cases(tier, rng=None):
    out = []
    for explicit in (True, False):
        C = dict(K_CONTRACTS)
        C[SI + '::SplineInterpolator2D.compute_interpolant'] = dict(
            abstract=True, params_order=['self', 'ug', 'spl'], requires=[], modifies=['spl._coeffs'],
            ensures=['is_interpolant2(spl._basis1._knots, spl._basis1._degree, spl._basis2._knots, spl._basis2._degree, spl._coeffs, old(ug))',
                     'implies(old(spl2_ok(spl._basis1._knots, spl._basis1._degree, spl._basis2._knots, spl._basis2._degree, spl._coeffs)), '
                     'spl2_ok(spl._basis1._knots, spl._basis1._degree, spl._basis2._knots, spl._basis2._degree, spl._coeffs))'])
        req = [sub(c) for c in POL_REQ if 'shape(f)' not in c] + (['self._TOL >= 0'] if not explicit else [])
        req += ['shape(f)[0] == len(self._points[0]) and shape(f)[1] == len(self._points[1])']
        ens = [sub(c) for c in (EXPL_ENS if explicit else IMPL_ENS)]
        ens.append('is_interpolant2(%s, self._spline._coeffs, old(f))' % POLB)
        mods = ['f', 'self._spline._coeffs'] + [sub(w) for w in WORK]
        C[A + '::PoloidalAdvection.step'] = dict(
            params={'self': self_spec(explicit), 'f': 'arr2', 'dt': 'float', 'phi': SPLINE2, 'v': 'float'},
            requires=req, modifies=mods, ensures=ens)
        if not explicit:
            # the ghost arrays of the kernel contract (previous iterate and final feet) are ghost outputs here too
            C[A + '::PoloidalAdvection.step']['ghost_out'] = {k: (r, [sub(x) for x in shp]) for k, (r, shp) in GHOST_OUT.items()}
        out.append(dict(label='PoloidalAdvection.step %s' % ('explicit' if explicit else 'implicit'), struct=None,
                        key=A + '::PoloidalAdvection.step', contracts=C))
    return out


# ---------------------------------------------------------------------------------------------------------------------
# PoloidalAdvection.__init__: the state step() starts from.  Points = [theta nodes, r nodes] of the caller's grid, eight work
# arrays of shape (n_theta, n_r), interpolator and spline on the (theta, r) spline spaces given, scheme / tolerance / boundary
# flags and the constants object as passed.  Verified on the mechanical backward slice on those attributes
# (vf/func_slice.py): the dropped statements build _shapedQ, _max_loops and the per-z potential splines _phiSplines (a list
# comprehension of Spline2D(...) of symbolic length); Spline2D's constructor is ASSUMED not to change its arguments.
# ---------------------------------------------------------------------------------------------------------------------
WORKA = ['_drPhi_0', '_dqPhi_0', '_drPhi_k', '_dqPhi_k', '_endPts_k1_q', '_endPts_k1_r', '_endPts_k2_q', '_endPts_k2_r']
ATTRS = ['_points', '_nPoints', '_interpolator', '_spline', '_constants', '_explicit', '_TOL', '_nulEdge'] + WORKA
ASL = A + '#slice:PoloidalAdvection.__init__:' + ','.join('self.' + a for a in ATTRS) + ':Spline2D'


def init_case():
    two = dict(abstract=True, params_order=['self', 'basis1', 'basis2'], requires=[], ensures=[], modifies=[],
               creates={'_basis1': ('expr', 'basis1'), '_basis2': ('expr', 'basis2')})
    C = {SI + '::SplineInterpolator2D.__init__': two, SPL + '::Spline2D.__init__': two}
    ens = ['len(self._points) == 2 and self._points[0] is eta_vals[1] and self._points[1] is eta_vals[0]',
           'self._nPoints[0] == len(eta_vals[1]) and self._nPoints[1] == len(eta_vals[0])',
           'self._interpolator._basis1 is splines[0] and self._interpolator._basis2 is splines[1]',
           'self._spline._basis1 is splines[0] and self._spline._basis2 is splines[1]',
           'self._constants is constants and self._explicit == explicitTrap and self._TOL == tol and self._nulEdge == nulEdge']
    ens += ['shape(self.%s)[0] == len(eta_vals[1]) and shape(self.%s)[1] == len(eta_vals[0])' % (w, w) for w in WORKA]
    # the work arrays are eight different arrays (the kernels write them independently)
    ens += ['self.%s is not self.%s' % (WORKA[i], WORKA[j]) for i in range(8) for j in range(i + 1, 8)]
    C[ASL + '::PoloidalAdvection.__init__'] = dict(
        params={'self': {'__class__': ASL + '::PoloidalAdvection'}, 'eta_vals': 'list4arr1',
                'splines': ('list', [{'__class__': SPL + '::BSplines'}, {'__class__': SPL + '::BSplines'}]),
                'constants': CONSTS, 'nulEdge': 'bool', 'explicitTrap': 'bool', 'tol': 'float'},
        requires=[], modifies=[], ensures=ens)
    return dict(label='PoloidalAdvection.__init__', struct=None, key=ASL + '::PoloidalAdvection.__init__', contracts=C)


_step_cases = cases


def cases(tier, rng=None):
    return _step_cases(tier, rng) + [init_case()]
