from .classes import dens_cases, SPECS, CONTRACTS  # noqa


def cases(tier, rng=None):
    return dens_cases()


# ---------------------------------------------------------------------------------------------------------------------
# DensityFinder.__init__ and feq_vector: the equilibrium table that getPerturbedRho subtracts.  C16 "density of f - f_eq":
# the table holds f_eq(r_a, v_l) for EVERY global radius index a and every velocity node l (so the row `starts_r + a` read by
# getPerturbedRho - proved in the class-level case above - is the equilibrium at the point's own radius), built with the
# constants of the object given; the quadrature weights come from an interpolator on the velocity spline space given.
# ---------------------------------------------------------------------------------------------------------------------
PS = 'pygyro/poisson/poisson_solver.py'
FI = 'pygyro/initialisation/initialiser_funcs.py'
SI = 'pygyro/splines/spline_interpolators.py'
SPL = 'pygyro/splines/splines.py'
K7 = ['CN0', 'kN0', 'deltaRN0', 'rp', 'CTi', 'kTi', 'deltaRTi']
FEQV = 'f_eq(r_vec[{a}], vPar[{b}], CN0, kN0, deltaRN0, rp, Cti, kti, deltaRti)'


def table_cases():
    C = dict(CONTRACTS)
    rows = 'forall(0, {hi}, 0, len(vPar), lambda a, b: surface[a, b] == %s)' % FEQV.format(a='a', b='b')
    C[FI + '::feq_vector'] = dict(
        requires=['shape(surface)[0] == len(r_vec) and shape(surface)[1] == len(vPar)'],
        modifies=['surface'],
        ensures=[rows.format(hi='len(r_vec)')],
        loops={'for (i, r) in enumerate(r_vec)': dict(inv=[rows.format(hi='i')]),
               'for (j, v) in enumerate(vPar)': dict(inv=[rows.format(hi='i'),
                                                          'forall(0, j, lambda b: surface[i, b] == %s)' % FEQV.format(a='i', b='b')])})
    C[SI + '::SplineInterpolator1D.__init__'] = dict(abstract=True, params_order=['self', 'basis'], requires=[], ensures=[],
                                                     modifies=[], creates={'_basis': ('expr', 'basis')})
    C[SI + '::SplineInterpolator1D.get_quadrature_coefficients'] = dict(
        abstract=True, params_order=['self'], returns='arr1', modifies=[],
        # the weights are those of the velocity spline space handed to the constructor (their values: C09)
        requires=["self._basis is caller('bspline')"], ensures=[])
    cst = dict({'__class__': 'pygyro/initialisation/constants.py::Constants'}, **{k: 'float' for k in K7})
    feq = 'f_eq(eta_grid[0][a], eta_grid[3][b], %s)' % ', '.join('constants.' + k for k in K7)
    C[PS + '::DensityFinder.__init__'] = dict(
        params={'self': {'__class__': PS + '::DensityFinder'}, 'degree': 'int', 'bspline': {'__class__': SPL + '::BSplines'},
                'eta_grid': 'list4arr1', 'constants': cst},
        requires=[], modifies=[],
        ensures=['shape(self._fEq)[0] == len(eta_grid[0]) and shape(self._fEq)[1] == len(eta_grid[3])',
                 'forall(0, len(eta_grid[0]), 0, len(eta_grid[3]), lambda a, b: self._fEq[a, b] == %s)' % feq])
    return [dict(label='feq_vector', struct=None, key=FI + '::feq_vector', contracts=C),
            dict(label='DensityFinder.__init__', struct=None, key=PS + '::DensityFinder.__init__', contracts=C)]


_dens = cases


def cases(tier, rng=None):
    return _dens(tier, rng) + table_cases()
