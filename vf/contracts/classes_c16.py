from .classes import dens_cases, SPECS, CONTRACTS  # noqa


def cases(tier, rng=None):
    return dens_cases()
