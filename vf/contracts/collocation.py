"""Contract for SplineInterpolator1D.collocation_matrix (C08, the "collocation" clause): row i of the matrix that the
interpolator factorises holds the values at the interpolation point x_i of the degree+1 B-splines that do not vanish on its
span (Cox-de Boor spec N of C07) in the columns of those B-splines, and zeros elsewhere.  With the proved evaluation kernels of
C07 (value = sum over the same window of coeffs * N) this makes (A c)_i the value of the spline at x_i, so that an exact
solve A c = u (assumed: LAPACK / SuperLU, see DESIGN section 5) gives S(x_i) = u_i.

Covered here: clamped (non-periodic) splines on general knots, symbolic degree, any number of points.  The periodic branch
(column indices through a Python list comprehension / fancy indexing) and the uniform-cubic branch stay with the bounded part.
"""
from .splines import CONTRACTS as NU_CONTRACTS, SPECS as NU_SPECS, SORTED
from .cusplines import CONTRACTS as CU_CONTRACTS, SPECS as CU_SPECS

SI = 'pygyro/splines/spline_interpolators.py'
SPECS = list(CU_SPECS)
CONTRACTS = {}


def cases(tier, rng=None):
    C = dict(NU_CONTRACTS)
    key = SI + '::SplineInterpolator1D.collocation_matrix'
    span = 'nu_find_span(knots, degree, xgrid[i])'
    row = ('forall(0, degree + 1, lambda r: {M}[{i}, {sp} - degree + r] == N(knots, {sp}, xgrid[{i}], {sp} - degree + r, degree)) and '
           'forall(0, nb, lambda j: implies(j < {sp} - degree or j > {sp}, {M}[{i}, j] == 0))')
    C[key] = dict(
        params={'nb': 'int', 'knots': 'arr1', 'degree': 'int', 'xgrid': 'arr1', 'periodic': ('const', False),
                'cubic_uniform_splines': ('const', False)},
        requires=['degree >= 0', 'len(knots) >= 2 * degree + 2', SORTED,
                  'forall(degree, len(knots) - degree - 1, lambda a: knots[a] < knots[a + 1])',
                  # clamped space: nb = len(knots) - degree - 1 basis functions
                  'nb == len(knots) - degree - 1'],
        returns='arr2', modifies=[],
        ensures=['shape(result)[0] == len(xgrid) and shape(result)[1] == nb',
                 'forall(0, len(xgrid), lambda i: %s)' % row.format(i='i', sp=span, M='result')],
        loops={'for (i, x) in enumerate(xgrid)': dict(inv=[
            'forall(0, i, lambda a: %s)' % row.format(i='a', sp=span.replace('xgrid[i]', 'xgrid[a]'), M='mat'),
            'forall(i, len(xgrid), 0, nb, lambda a, j: mat[a, j] == 0)'])})
    out = [dict(label='collocation_matrix clamped general', struct=None, key=key, contracts=C)]
    # uniform cubic splines (knots = [xmin, xmax, dx, ncells]): the four cardinal pieces Mcu at the offset of x_i in its cell
    C2 = dict(CU_CONTRACTS)
    cs = 'cu_find_span(knots[0], knots[1], knots[2], xgrid[{i}], int(knots[3]))'
    row2 = ('forall(0, 4, lambda r: {M}[{i}, {sp}[0] - 3 + r] == Mcu(r, {sp}[1])) and '
            'forall(0, nb, lambda j: implies(j < {sp}[0] - 3 or j > {sp}[0], {M}[{i}, j] == 0))')
    C2[key] = dict(
        params={'nb': 'int', 'knots': 'arr1:4', 'degree': ('const', 3), 'xgrid': 'arr1', 'periodic': ('const', False),
                'cubic_uniform_splines': ('const', True)},
        requires=['knots[2] > 0', 'knots[3] == real(int(knots[3]))', 'int(knots[3]) >= 1', 'knots[1] == knots[0] + knots[3] * knots[2]',
                  'nb == int(knots[3]) + 3', 'forall(0, len(xgrid), lambda i: knots[0] <= xgrid[i] and xgrid[i] <= knots[1])'],
        returns='arr2', modifies=[],
        ensures=['shape(result)[0] == len(xgrid) and shape(result)[1] == nb',
                 'forall(0, len(xgrid), lambda i: %s)' % row2.format(i='i', sp=cs.format(i='i'), M='result')],
        loops={'for (i, x) in enumerate(xgrid)': dict(inv=[
            'forall(0, i, lambda a: %s)' % row2.format(i='a', sp=cs.format(i='a'), M='mat'),
            'forall(i, len(xgrid), 0, nb, lambda a, j: mat[a, j] == 0)'])})
    out.append(dict(label='collocation_matrix clamped uniform cubic', struct=None, key=key, contracts=C2))
    return out
