"""Contracts for the uniform-cubic fast path (property C07).

Primary spec: the cardinal cubic B-spline pieces Mcu / Dcu (closed form).  The lemma cu_is_coxdeboor ties
them to the same Cox-de Boor spec function N / dN used for the general path, on the uniform knot function
T(i) = xmin + (i-3)*dx that this path really uses: "fast path and general path give the same function".
"""
from .splines import SPECS as NU_SPECS, CONTRACTS as NU_CONTRACTS

F = 'pygyro/splines/cubic_uniform_spline_eval_funcs.py'

SPECS = NU_SPECS + [
    ('Mcu', [('r', 'int'), ('o', 'real')], 'real',
     '(1 - o)**3 / 6 if r == 0 else ((3 * o**3 - 6 * o**2 + 4) / 6 if r == 1 else '
     '((-3 * o**3 + 3 * o**2 + 3 * o + 1) / 6 if r == 2 else o**3 / 6))'),
    ('Dcu', [('r', 'int'), ('o', 'real'), ('dx', 'real')], 'real',
     '-(1 - o)**2 / (2 * dx) if r == 0 else ((3 * o**2 - 4 * o) / (2 * dx) if r == 1 else '
     '((-3 * o**2 + 2 * o + 1) / (2 * dx) if r == 2 else o**2 / (2 * dx)))'),
]

LEMMAS = [
    dict(name='cu_is_coxdeboor', rounds=5,
         vars=[('xmin', 'real'), ('dx', 'real'), ('span', 'int'), ('o', 'real')],
         requires=['dx > 0', '0 <= o', 'o <= 1'],
         ensures=['Mcu(%d, o) == N(uknots(xmin, dx), span, xmin + (span - 3 + o) * dx, span - 3 + %d, 3)' % (r, r) for r in range(4)]
         + ['Dcu(%d, o, dx) == dN(uknots(xmin, dx), span, xmin + (span - 3 + o) * dx, span - 3 + %d, 3)' % (r, r) for r in range(4)]),
    dict(name='cu_partition_of_unity', rounds=2,
         vars=[('o', 'real'), ('dx', 'real')],
         requires=['0 <= o', 'o <= 1', 'dx > 0'],
         ensures=['Mcu(0, o) + Mcu(1, o) + Mcu(2, o) + Mcu(3, o) == 1',
                  'Mcu(0, o) >= 0 and Mcu(1, o) >= 0 and Mcu(2, o) >= 0 and Mcu(3, o) >= 0',
                  'Dcu(0, o, dx) + Dcu(1, o, dx) + Dcu(2, o, dx) + Dcu(3, o, dx) == 0']),
]

KN = ['len({k}) >= 4', '{k}[2] > 0', '{k}[3] == real(int({k}[3]))', 'int({k}[3]) >= 1',
      '{k}[1] == {k}[0] + {k}[3] * {k}[2]']


def kn(k):
    return [c.format(k=k) for c in KN]


def Bcu(der, j, o, dx):
    return '(Mcu(%s, %s) if %s == 0 else Dcu(%s, %s, %s))' % (j, o, der, j, o, dx)


def spl1(x):
    return ('let(cu_find_span(knots[0], knots[1], knots[2], %s, int(knots[3])), lambda so: '
            'sum_(0, 4, lambda j: coeffs[so[0] - 3 + j] * %s))' % (x, Bcu('der', 'j', 'so[1]', 'knots[2]')))


CONTRACTS = {
    F + '::cu_find_span': dict(
        pure=True, returns='tuple:int,float',
        requires=['dx > 0', 'ncells >= 1', 'xmax == xmin + ncells * dx', 'xmin <= x', 'x <= xmax'],
        ensures=['3 <= result[0]', 'result[0] <= ncells + 2', '0 <= result[1]', 'result[1] <= 1',
                 'x == xmin + (result[0] - 3 + result[1]) * dx',
                 ],
    ),
    F + '::cu_basis_funs': dict(
        requires=['len(values) >= 4'],
        modifies=['values'],
        ensures=['forall(0, 4, lambda r: values[r] == Mcu(r, offset))',
                 'forall(4, len(values), lambda r: values[r] == old(values)[r])'],
    ),
    F + '::cu_basis_funs_1st_der': dict(
        requires=['len(ders) >= 4', 'dx > 0'],
        modifies=['ders'],
        ensures=['forall(0, 4, lambda r: ders[r] == Dcu(r, offset, dx))',
                 'forall(4, len(ders), lambda r: ders[r] == old(ders)[r])'],
    ),
    F + '::cu_eval_spline_1d_scalar': dict(
        pure=True, returns='float', implements=['spline1d_scalar'],
        requires=kn('knots') + ['knots[0] <= x', 'x <= knots[1]', 'der == 0 or der == 1',
                                'len(coeffs) >= int(knots[3]) + 3'],
        ensures=['result == ' + spl1('x')],
    ),
    F + '::cu_eval_spline_1d_vector': dict(
        implements=['spline1d_vector'],
        requires=kn('knots') + ['forall(0, len(x), lambda i: knots[0] <= x[i] and x[i] <= knots[1])',
                                'der == 0 or der == 1', 'len(coeffs) >= int(knots[3]) + 3', 'len(y) >= len(x)'],
        modifies=['y'],
        ensures=['forall(0, len(x), lambda i: y[i] == %s)' % spl1('x[i]'),
                 'forall(len(x), len(y), lambda i: y[i] == old(y)[i])'],
        loops={
            'for (i, xi) in enumerate(x)': dict(
                inv=['forall(0, i, lambda k: y[k] == %s)' % spl1('x[k]'),
                     'forall(len(x), len(y), lambda k: y[k] == old(y)[k])']),
            'for (i, xi) in enumerate(x) #2': dict(
                inv=['forall(0, i, lambda k: y[k] == %s)' % spl1('x[k]'),
                     'forall(len(x), len(y), lambda k: y[k] == old(y)[k])']),
        },
    ),
}


# ---------------------------------------------------------------------------
# 2-D entry points (all inner loops have constant trip counts and are unrolled)
# ---------------------------------------------------------------------------

DOM2 = kn('kts1') + kn('kts2') + ['deg1 == 3', 'deg2 == 3', 'der1 == 0 or der1 == 1', 'der2 == 0 or der2 == 1',
                                  'shape(coeffs)[0] >= int(kts1[3]) + 3', 'shape(coeffs)[1] >= int(kts2[3]) + 3']


def spl2(x, y):
    return ('let(cu_find_span(kts1[0], kts1[1], kts1[2], %s, int(kts1[3])), lambda s1: '
            'let(cu_find_span(kts2[0], kts2[1], kts2[2], %s, int(kts2[3])), lambda s2: '
            'sum_(0, 4, lambda a: sum_(0, 4, lambda b: coeffs[s1[0] - 3 + a, s2[0] - 3 + b] * %s) * %s)))'
            % (x, y, Bcu('der2', 'b', 's2[1]', 'kts2[2]'), Bcu('der1', 'a', 's1[1]', 'kts1[2]')))


def _sfx(n):
    return '' if n == 0 else ' #%d' % (n + 1)


IN1 = 'kts1[0] <= {x} and {x} <= kts1[1]'
IN2 = 'kts2[0] <= {y} and {y} <= kts2[1]'

cross = {}
for n in range(4):
    rows = 'forall(0, i, 0, len(Y), lambda p, q: z[p, q] == %s)' % spl2('X[p]', 'Y[q]')
    cols = 'forall(0, j, lambda q: z[i, q] == %s)' % spl2('X[i]', 'Y[q]')
    cross['for (i, x) in enumerate(X)' + _sfx(n)] = dict(inv=[rows])
    cross['for (j, y) in enumerate(Y)' + _sfx(n)] = dict(inv=[rows, cols])
vec = {}
for n in range(4):
    vec['for (i, xi) in enumerate(x)' + _sfx(n)] = dict(inv=['forall(0, i, lambda p: z[p] == %s)' % spl2('x[p]', 'y[p]')])

CONTRACTS.update({
    F + '::cu_eval_spline_2d_scalar': dict(
        pure=True, returns='float', implements=['spline2d_scalar'],
        requires=DOM2 + [IN1.format(x='x'), IN2.format(y='y')],
        ensures=['result == ' + spl2('x', 'y')],
    ),
    F + '::cu_eval_spline_2d_cross': dict(
        implements=['spline2d_cross'],
        requires=DOM2 + ['forall(0, len(X), lambda p: %s)' % IN1.format(x='X[p]'),
                         'forall(0, len(Y), lambda q: %s)' % IN2.format(y='Y[q]'),
                         'shape(z)[0] >= len(X)', 'shape(z)[1] >= len(Y)'],
        modifies=['z'],
        ensures=['forall(0, len(X), 0, len(Y), lambda p, q: z[p, q] == %s)' % spl2('X[p]', 'Y[q]')],
        loops=cross,
    ),
    F + '::cu_eval_spline_2d_vector': dict(
        requires=DOM2 + ['forall(0, len(x), lambda p: %s)' % IN1.format(x='x[p]'),
                         'forall(0, len(x), lambda p: %s)' % IN2.format(y='y[p]'),
                         'len(y) >= len(x)', 'len(z) >= len(x)'],
        modifies=['z'],
        ensures=['forall(0, len(x), lambda p: z[p] == %s)' % spl2('x[p]', 'y[p]')],
        loops=vec,
    ),
})

CONTRACTS.update(NU_CONTRACTS)
