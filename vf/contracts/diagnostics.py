"""Contracts for the constructors of the integral diagnostics (C17): the local quadrature weight array of every diagnostic is,
entry by entry, the product of the GLOBAL trapezoid weights at the entry's own global r- and v-index (times r, times v^2 for
the kinetic energy), sitting on the layout axes that hold r and v.

With this, the local weighted sum is the part of the global quadrature sum that belongs to the local index box, and since the
boxes of all processes tile the global index set exactly once (C02) the sum over processes is the global quadrature - for every
process grid.  (The summation over ranks itself is MPI_Reduce: assumed; floating-point reassociation not decided.)
"""
N = 'pygyro/diagnostics/norms.py'
E = 'pygyro/diagnostics/energy.py'
L = 'pygyro/model/layout.py'

# trapezoid weight of node k on the (possibly non-uniform) axis x
SPECS = [
    ('TW', [('x', 'arr1'), ('n', 'int'), ('k', 'int')], 'real',
     '((x[1] - x[0]) * 0.5 if k == 0 else ((x[n - 1] - x[n - 2]) * 0.5 if k == n - 1 else '
     '((x[k + 1] - x[k]) + (x[k] - x[k - 1])) * 0.5))'),
]
CONTRACTS = {}


def layout_obj(order):
    R = len(order)
    return {'__class__': L + '::Layout', '_name': ('const', 'lay'), '_dims_order': ('const', tuple(order)),
            '_inv_dims_order': ('const', tuple(list(order).index(d) for d in range(R))), '_ndims': ('const', R),
            '_starts': 'tuple%dint' % R, '_ends': 'tuple%dint' % R}


def ctor_contract(cls, order):
    R = len(order)
    ir = list(order).index(0)
    has_v = R == 4
    iv = list(order).index(3) if has_v else None
    req = ['len(eta_grid[0]) >= 3', 'len(eta_grid[1]) >= 3', 'len(eta_grid[2]) >= 3',
           # the asserts of the constructor: uniform periodic theta grid over 2 pi, increasing theta and z
           '(eta_grid[1][2] - eta_grid[1][1]) * len(eta_grid[1]) - 2 * pi < 0.0000001',
           'eta_grid[1][2] - eta_grid[1][1] > 0', 'eta_grid[2][2] - eta_grid[2][1] > 0',
           '0 <= layout._starts[%d] and layout._starts[%d] <= layout._ends[%d] and layout._ends[%d] <= len(eta_grid[0])' % (ir, ir, ir, ir)]
    if has_v:
        req += ['len(eta_grid[3]) >= 3',
                '0 <= layout._starts[%d] and layout._starts[%d] <= layout._ends[%d] and layout._ends[%d] <= len(eta_grid[3])' % (iv, iv, iv, iv)]
    idx = ['0'] * R
    idx[ir] = 'a'
    gr = 'layout._starts[%d] + a' % ir
    val = 'TW(eta_grid[0], len(eta_grid[0]), %s) * eta_grid[0][%s]' % (gr, gr)
    bounds = '0, layout._ends[%d] - layout._starts[%d]' % (ir, ir)
    lam = 'a'
    if has_v:
        idx[iv] = 'b'
        gv = 'layout._starts[%d] + b' % iv
        wv = 'TW(eta_grid[3], len(eta_grid[3]), %s)' % gv
        if cls == 'KineticEnergy':
            wv = '(%s * eta_grid[3][%s] ** 2)' % (wv, gv)
        val = '(%s) * %s' % (val, wv)
        bounds += ', 0, layout._ends[%d] - layout._starts[%d]' % (iv, iv)
        lam = 'a, b'
    shape = ['1'] * R
    shape[ir] = 'layout._ends[%d] - layout._starts[%d]' % (ir, ir)
    if has_v:
        shape[iv] = 'layout._ends[%d] - layout._starts[%d]' % (iv, iv)
    ens = ['forall(%s, lambda %s: self._factor1[%s] == %s)' % (bounds, lam, ', '.join(idx), val)]
    ens += ['shape(self._factor1)[%d] == %s' % (k, shape[k]) for k in range(R)]
    f2 = '(eta_grid[1][2] - eta_grid[1][1]) * (eta_grid[2][2] - eta_grid[2][1])'
    ens.append('self._factor2 == %s%s' % ('0.5 * ' if cls == 'KineticEnergy' else '', f2))
    ens.append("self._layout == 'lay'")
    rel = E if cls == 'KineticEnergy' else N
    return rel + '::%s.__init__' % cls, dict(
        params={'self': 'obj:%s::%s' % (rel, cls), 'eta_grid': 'list%darr1' % R, 'layout': layout_obj(order)},
        requires=req, ensures=ens, modifies=[])


def cases(tier, rng=None):
    out = []
    four = [(0, 3, 1, 2), (0, 2, 1, 3), (3, 2, 1, 0)]
    three = [(0, 2, 1), (2, 1, 0), (0, 1, 2)]
    for cls in ('l2', 'l1', 'nParticles', 'KineticEnergy'):
        for order in four:
            key, c = ctor_contract(cls, order)
            out.append(dict(label='%s %s' % (cls, ''.join(map(str, order))), struct=None, key=key, contracts={key: c}))
    for order in three:
        key, c = ctor_contract('l2', order)
        out.append(dict(label='l2 %s' % ''.join(map(str, order)), struct=None, key=key, contracts={key: c}))
    return out


# ---------------------------------------------------------------------------------------------------------------------
# DiagnosticCollector.collect: the eight values of one step go to the time slot of that step, nothing else is touched
# ---------------------------------------------------------------------------------------------------------------------
D = 'pygyro/diagnostics/diagnostic_collector.py'
G = 'pygyro/model/grid.py'


def collect_contracts():
    val = dict(abstract=True, returns='float', requires=[], ensures=[], modifies=[])
    C = {N + '::l2.l2NormSquared': dict(val, params_order=['self', 'phi']),
         N + '::l1.l1Norm': dict(val, params_order=['self', 'phi']),
         N + '::nParticles.getN': dict(val, params_order=['self', 'f']),
         E + '::KineticEnergy.getKE': dict(val, params_order=['self', 'grid']),
         G + '::Grid.getMin': dict(val, params_order=['self']),
         G + '::Grid.getMax': dict(val, params_order=['self'])}
    slot = 'int(t / self.dt) % self.saveStep'
    C[D + '::DiagnosticCollector.collect'] = dict(
        params={'self': {'__class__': D + '::DiagnosticCollector', 'saveStep': 'int', 'dt': 'float', 'diagnostics': 'arr2',
                         'l2_phi_class': 'obj:%s::l2' % N, 'l2_grid_class': 'obj:%s::l2' % N, 'l1class': 'obj:%s::l1' % N,
                         'npart': 'obj:%s::nParticles' % N, 'KEclass': 'obj:%s::KineticEnergy' % E},
                'f': 'obj:%s::Grid' % G, 'phi': 'obj:%s::Grid' % G, 't': 'float'},
        # t is the time of a step: a non-negative whole multiple of dt (real arithmetic, assumption A1)
        requires=['self.saveStep >= 1', 'self.dt > 0', 't >= 0', 't / self.dt == real(int(t / self.dt))',
                  'shape(self.diagnostics)[0] == 8 and shape(self.diagnostics)[1] == self.saveStep'],
        modifies=['self.diagnostics'],
        ensures=['self.diagnostics[0, %s] == t' % slot,
                 # only the column of this step changes
                 'forall(0, 8, 0, self.saveStep, lambda r, c: implies(c != %s, self.diagnostics[r, c] == old(self.diagnostics)[r, c]))' % slot])
    return C


_ctor_cases = cases


def cases(tier, rng=None):
    out = _ctor_cases(tier, rng)
    C = collect_contracts()
    out.append(dict(label='DiagnosticCollector.collect', struct=None, key=D + '::DiagnosticCollector.collect', contracts=C))
    return out
