"""Contract on the mechanical counter slice of fullSimulation.main (property C18: a checkpoint exists for the final time,
no division by zero, for every save interval >= 1, fresh and restarted runs, any stop time)."""
KEY = 'fullSimulation.py#counters::driver_counters'
SPECS = []
TRACE_MODE = True
CONTRACTS = {
    KEY: dict(
        params={'t': 'float', 'tEnd': 'float', 'dt': 'float', 'saveStep': 'int', 'loadable': 'bool', 'last_written': 'float'},
        # a restarted run starts from a checkpoint (so one exists for its start time); a fresh run writes one before the loop
        requires=['dt > 0', 'saveStep >= 1', 't >= 0', 'implies(loadable, last_written == t)'],
        # when the driver returns, the last checkpoint written is the one of the final time
        ensures=['result[2] == result[0]'],
        loops={'while ti < tN and timeForLoop': dict(
            inv=['saveStepCut == saveStep - 1', 'nLoops >= 0', 'implies(ti % saveStep == 0, last_written == t)'])},
    ),
}


def cases(tier, rng=None):
    return [dict(label='driver counters', struct={'comm': 'comm'}, key=KEY, contracts=CONTRACTS)]
