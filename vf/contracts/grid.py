"""Contracts for pygyro/model/grid.py (property C04): the buffer-rotation class invariant.

Ghost model = one undistributed array: (gh_G, current layout name, saved: None | (gh_Gs, gh_names)).
Buffers are opaque (vf/bufs.py): content = "holds field G in layout L" or garbage.  The layout manager is used
only through the contract of transpose (C01 / C03).
"""
F = 'pygyro/model/grid.py'
L = 'pygyro/model/layout.py'


def self_spec(save):
    d = {
        '__class__': F + '::Grid',
        'hasSaveMemory': save,
        '_my_data': 'buflist3' if save else 'buflist2',
        '_dataIdx': 'int', '_buffIdx': 'int', '_saveIdx': 'int',
        '_current_layout_name': 'name',
        '_layout_manager': {'__class__': L + '::LayoutHandler', '_buffer_size': 'int'},
        '_layout': {'__class__': L + '::Layout', '_name': 'name', '_size': 'int', '_shape': ('opaque-shape',)},
        '_f': ('expr', 'bufview(self._my_data[self._dataIdx])'),
        'gh_G': 'field',
    }
    if save:
        d.update({'notSaved': 'bool', '_savedLayout': 'name', 'gh_Gs': 'field', 'gh_names': 'name'})
    return d


def inv(save, saved_clause=True):
    n = 3 if save else 2
    c = ['self._layout_manager._buffer_size > 0',
         '0 <= self._dataIdx and self._dataIdx < %d' % n, '0 <= self._buffIdx and self._buffIdx < %d' % n,
         'self._dataIdx != self._buffIdx',
         # the visible block is the data buffer, which holds the model's field in the current layout
         'same_buf(self._f, self._my_data[self._dataIdx])',
         'holds(self._my_data[self._dataIdx], self.gh_G, self._current_layout_name)',
         'self._layout._name == self._current_layout_name']
    if save:
        c += ['0 <= self._saveIdx and self._saveIdx < 3', 'self._saveIdx != self._dataIdx', 'self._saveIdx != self._buffIdx']
        if saved_clause:
            # a held save is intact: the save buffer holds the field and layout present at save time
            c += ['implies(not self.notSaved, holds(self._my_data[self._saveIdx], self.gh_Gs, self.gh_names) '
                  'and self._savedLayout == self.gh_names)']
    return c


TRANSPOSE = dict(
    abstract=True,
    params_order=['self', 'source', 'dest', 'source_name', 'dest_name', 'buf'],
    requires=['self._buffer_size > 0', 'valid(source)', 'layout_of(source) == name_id(source_name)',
              'distinct_bufs(source, dest, buf)'],
    modifies=['source', 'dest', 'buf'],
    ensures=['holds(dest, old(field_of(source)), dest_name)',
             # with a spare buffer the source block is left bit-identical
             'implies(buf is not None, same_content(source, old(source)))'],
)

GETLAYOUT = dict(params_order=['self', 'name'], returns='layout:name', requires=[], ensures=[], modifies=[])


def contracts(save):
    I = inv(save)
    C = {
        L + '::LayoutHandler.transpose': TRANSPOSE,
        L + '::LayoutHandler.getLayout': GETLAYOUT,
        F + '::Grid.setLayout': dict(
            params={'self': self_spec(save), 'new_layout': 'name'},
            requires=I,
            # layout changes never alter the field; a held save is never clobbered (the saved clause of the invariant,
            # with unchanged ghost values); the current layout is the requested one
            ensures=I + ['self._current_layout_name == new_layout'],
        ),
        F + '::Grid.getAllData': dict(
            params={'self': self_spec(save)}, requires=I, ensures=I + ['same_buf(result, self._my_data[self._dataIdx])']),
    }
    if save:
        core = inv(True, saved_clause=False)
        C.update({
            F + '::Grid.saveGridValues': dict(
                params={'self': self_spec(True)}, requires=I,
                raises=[('AssertionError', 'not old(self.notSaved)')],   # saving twice without release is refused
                ensures=core + ['self.notSaved == False',
                                'holds(self._my_data[self._saveIdx], self.gh_G, self._current_layout_name)',
                                'self._savedLayout == self._current_layout_name',
                                'self._current_layout_name == old(self._current_layout_name)']),
            F + '::Grid.freeGridSave': dict(
                params={'self': self_spec(True)}, requires=I,
                raises=[('AssertionError', 'old(self.notSaved)')],
                ensures=I + ['self.notSaved == True', 'self._current_layout_name == old(self._current_layout_name)']),
            F + '::Grid.restoreGridValues': dict(
                params={'self': self_spec(True)}, requires=I,
                raises=[('AssertionError', 'old(self.notSaved)')],
                # restore brings back exactly the field and layout present at save time
                ensures=core + ['self.notSaved == True',
                                'holds(self._my_data[self._dataIdx], self.gh_Gs, self.gh_names)'.replace(
                                    'holds(self._my_data[self._dataIdx], self.gh_Gs', 'holds(self._my_data[self._dataIdx], self.gh_Gs'),
                                'self._current_layout_name == self.gh_names']),
        })
        # after restore the model's field is the saved one: the invariant's data clause is stated with gh_Gs
        r = C[F + '::Grid.restoreGridValues']
        r['ensures'] = [c for c in r['ensures'] if 'holds(self._my_data[self._dataIdx], self.gh_G,' not in c]
    else:
        for m in ('saveGridValues', 'freeGridSave', 'restoreGridValues'):
            C[F + '::Grid.' + m] = dict(params={'self': self_spec(False)}, requires=I,
                                        raises=[('AssertionError', 'True')], ensures=['False'])
    return C


OPAQUE_ALLOC = True     # np.empty(n) allocates an opaque flat buffer (garbage content) in this module's cases


def init_contract(save):
    """Grid.__init__ establishes the structural part of the class invariant every other method starts from (the data clause
    'the data buffer holds the model field' has nothing to say about freshly allocated memory): three (two) distinct buffers of
    the handler's bufferSize each, distinct in-range roles, the visible block is a view of the data buffer, the layout object is
    the one named, nothing is saved."""
    n = 3 if save else 2
    ens = ['self.hasSaveMemory == %s' % save, 'len(self._my_data) == %d' % n,
           '0 <= self._dataIdx and self._dataIdx < %d' % n, '0 <= self._buffIdx and self._buffIdx < %d' % n,
           'self._dataIdx != self._buffIdx',
           'same_buf(self._f, self._my_data[self._dataIdx])',
           'distinct_bufs(self._my_data[0], self._my_data[1]%s)' % (', self._my_data[2]' if save else ''),
           'self._current_layout_name == chosenLayout', 'self._layout._name == self._current_layout_name',
           'self._layout_manager is layouts', 'self._nDims == 4',
           'forall(0, 4, lambda k: self._nGlobalCoords[k] == len(eta_grid[k]))']
    ens += ['self._my_data[%d].size == layouts._buffer_size' % k for k in range(n)]
    if save:
        ens += ['self.notSaved == True', '0 <= self._saveIdx and self._saveIdx < 3', 'self._saveIdx != self._dataIdx',
                'self._saveIdx != self._buffIdx']
    return dict(
        params={'self': {'__class__': F + '::Grid'}, 'eta_grid': 'list4arr1', 'bsplines': 'opaque',
                'layouts': {'__class__': L + '::LayoutHandler', '_buffer_size': 'int'}, 'chosenLayout': 'name', 'comm': 'comm',
                'kwargs': {'__dict__': {'allocateSaveMemory': ('const', True)}} if save else {'__dict__': {}}},
        requires=['layouts._buffer_size > 0'], modifies=[], ensures=ens)


def cases(tier, rng=None):
    out = []
    for save in (True, False):
        C = {L + '::LayoutHandler.getLayout': GETLAYOUT, F + '::Grid.__init__': init_contract(save)}
        out.append(dict(label='__init__ save_memory=%s' % save, struct=None, key=F + '::Grid.__init__', contracts=C))
    for save in (True, False):
        for m in ('setLayout', 'getAllData', 'saveGridValues', 'freeGridSave', 'restoreGridValues'):
            out.append(dict(label='%s save_memory=%s' % (m, save), struct=None, key=F + '::Grid.' + m, contracts=contracts(save)))
    return out


SPECS = []
CONTRACTS = {}
