"""Contracts for the local-to-global accessors of Grid (C02, second sentence): they agree with the partition stored in the
layout (starts / ends per layout axis, dims_order mapping layout axes to global dimensions)."""
G = 'pygyro/model/grid.py'
L = 'pygyro/model/layout.py'
SPECS = []
CONTRACTS = {}


def grid_obj(order):
    R = len(order)
    lay = {'__class__': L + '::Layout', '_dims_order': ('const', tuple(order)),
           '_inv_dims_order': ('const', tuple(list(order).index(d) for d in range(R))), '_starts': 'tuple%dint' % R, '_ends': 'tuple%dint' % R}
    return {'__class__': G + '::Grid', '_layout': lay, '_Vals': 'list%darr1' % R, '_nDims': ('const', R)}


def inv(order):
    req = []
    for k in range(len(order)):
        req.append('0 <= self._layout._starts[%d] and self._layout._starts[%d] <= self._layout._ends[%d] and '
                   'self._layout._ends[%d] <= len(self._Vals[%d])' % (k, k, k, k, order[k]))
    return req


def cases(tier, rng=None):
    out = []
    orders = [(0, 3, 1, 2), (0, 2, 1, 3), (3, 2, 1, 0), (0, 2, 1), (1, 2, 0)]
    if tier == 'quick':
        orders = orders[:2] + orders[3:4]
    for order in orders:
        R = len(order)
        nm = ''.join(map(str, order))
        for i in range(R):
            # coordinate values of layout axis i: the global axis of its dimension, restricted to the owned range
            key = G + '::Grid.getCoordVals'
            C = {key: dict(params={'self': grid_obj(order), 'i': ('const', i)}, requires=inv(order), returns='arr1', modifies=[],
                           ensures=['len(result) == self._layout._ends[%d] - self._layout._starts[%d]' % (i, i),
                                    'forall(0, len(result), lambda k: result[k] == self._Vals[%d][self._layout._starts[%d] + k])' % (order[i], i)])}
            out.append(dict(label='getCoordVals %s axis %d' % (nm, i), struct=None, key=key, contracts=C))
        # global indices of a local index tuple: entry of dimension d = local index on the layout axis holding d + its start
        key = G + '::Grid.getGlobalIndices'
        ens = ['len(result) == %d' % R] + ['result[%d] == indices[%d] + self._layout._starts[%d]' % (order[k], k, k) for k in range(R)]
        C = {key: dict(params={'self': grid_obj(order), 'indices': 'tuple%dint' % R}, requires=inv(order), modifies=[], ensures=ens)}
        out.append(dict(label='getGlobalIndices %s' % nm, struct=None, key=key, contracts=C))
    return out
