"""Wiring contracts for the grid-level advection operators (C05, second sentence of the property): every call that a
gridStep makes for a local slice passes (a) the live view of that slice and (b) the physical parameters of the slice's own
GLOBAL coordinates.

The per-slice operator `step` gets an abstract contract whose *precondition* is exactly that relation, written in terms of
where the view sits in the grid's array (view_fixed(f, k) = the local index the view fixes on axis k) and of the variables of
the calling gridStep (caller('grid'), ...).  A modular call site is checked against the callee's precondition, so the
relation becomes one obligation per call site, for all local shapes, starts and ends.  The loops run over the local index
ranges of the layout, so every local slice is visited (loop ranges are read off the real getCoords / getGlobalIdxVals).
"""
A = 'pygyro/advection/advection.py'
G = 'pygyro/model/grid.py'
L = 'pygyro/model/layout.py'
SPECS = []
CONTRACTS = {}


def layout_obj(order, name):
    R = len(order)
    return {'__class__': L + '::Layout', '_name': ('const', name), '_dims_order': ('const', tuple(order)),
            '_inv_dims_order': ('const', tuple(list(order).index(d) for d in range(R))), '_ndims': ('const', R),
            '_starts': 'tuple%dint' % R, '_ends': 'tuple%dint' % R, '_shape': 'tuple%dint' % R}


def grid_obj(order, name, ndims=4):
    return {'__class__': G + '::Grid', '_f': 'arr%d' % len(order), '_nDims': ('const', len(order)), '_layout': layout_obj(order, name),
            '_Vals': 'list%darr1' % ndims, '_nGlobalCoords': 'list%dint' % ndims, '_current_layout_name': ('const', name),
            '_layout_manager': {'__class__': L + '::LayoutHandler'}}


def grid_invariant(g, order, ndims=4, first_dim=0):
    """What Grid.__init__/setLayout establish (C02/C04): the local array has the layout's shape, the layout's ranges lie inside
    the global axes, the trailing (contiguous) axes are not distributed."""
    R = len(order)
    req = []
    for k in range(R):
        d = order[k] + first_dim
        req += ['0 <= %s._layout._starts[%d] and %s._layout._starts[%d] <= %s._layout._ends[%d]' % (g, k, g, k, g, k),
                '%s._layout._ends[%d] <= len(%s._Vals[%d])' % (g, k, g, d),
                'shape(%s._f)[%d] == %s._layout._ends[%d] - %s._layout._starts[%d]' % (g, k, g, k, g, k),
                '%s._nGlobalCoords[%d] == len(%s._Vals[%d])' % (g, d, g, d)]
    return req


GETLAYOUT = dict(params_order=['self', 'name'], returns='layout:caller_layout', requires=[], ensures=[], modifies=[])


def contracts_flux():
    order = (0, 3, 1, 2)
    req = grid_invariant('grid', order)
    # trailing axes (theta, z) whole
    req += ['grid._layout._starts[2] == 0 and grid._layout._ends[2] == grid._nGlobalCoords[1]',
            'grid._layout._starts[3] == 0 and grid._layout._ends[3] == grid._nGlobalCoords[2]']
    step = dict(abstract=True, params_order=['self', 'f', 'cIdx', 'rIdx'],
                # the tables of FluxSurfaceAdvection are built from eta[0][starts:ends] / eta[3][starts:ends] of the same layout:
                # row (rIdx, cIdx) belongs to the local radius rIdx and the local velocity cIdx
                requires=["view_of(f, caller('grid')._f)", 'rIdx == view_fixed(f, 0)', 'cIdx == view_fixed(f, 1)'],
                modifies=['f'], ensures=[])
    return {
        A + '::FluxSurfaceAdvection.step': step,
        G + '::Grid.getLayout': dict(params_order=['self', 'name'], returns='expr:self._layout', requires=[], ensures=[], modifies=[]),
        A + '::FluxSurfaceAdvection.gridStep': dict(
            params={'self': {'__class__': A + '::FluxSurfaceAdvection'}, 'grid': grid_obj(order, 'flux_surface')},
            requires=req, ensures=[], modifies=['grid._f'],
            loops={'*': dict(inv=[])}),
    }


def contracts_vpar(keep):
    order = (0, 2, 1, 3)
    req = grid_invariant('grid', order)
    req += ['grid._layout._starts[3] == 0 and grid._layout._ends[3] == grid._nGlobalCoords[3]',
            # the parallel-gradient table: [local r, GLOBAL z, global theta]
            'shape(parGradVals)[0] == grid._layout._ends[0] - grid._layout._starts[0]',
            'shape(parGradVals)[1] == grid._nGlobalCoords[2]',
            'shape(parGradVals)[2] >= grid._layout._ends[2] - grid._layout._starts[2]']
    step = dict(abstract=True, params_order=['self', 'f', 'dt', 'c', 'r'],
                requires=["view_of(f, caller('grid')._f)", "dt == caller('dt')",
                          # the radius of the slice's own global r index
                          "r == caller('grid')._Vals[0][caller('grid')._layout._starts[0] + view_fixed(f, 0)]",
                          # the parallel gradient at (local r, GLOBAL z, theta) of the slice
                          "c == caller('parGradVals')[view_fixed(f, 0), caller('grid')._layout._starts[1] + view_fixed(f, 1), "
                          "view_fixed(f, 2)]"],
                modifies=['f'], ensures=[])
    fn = 'gridStepKeepGradient' if keep else 'gridStep'
    params = {'self': {'__class__': A + '::VParallelAdvection'}, 'grid': grid_obj(order, 'v_parallel'), 'parGradVals': 'arr3',
              'dt': 'float'}
    loops = {'*': dict(inv=[])}
    C = {A + '::VParallelAdvection.step': step}
    if not keep:
        porder = (0, 1, 2)    # phi in the v_parallel_2d layout: (r, z, theta)
        params['phi'] = grid_obj(porder, 'v_parallel_2d', ndims=3)
        params['parGrad'] = {'__class__': A + '::ParallelGradient'}
        req += grid_invariant('phi', porder, ndims=3)
        req += ['phi._layout._starts[0] == grid._layout._starts[0] and phi._layout._ends[0] == grid._layout._ends[0]',
                'phi._layout._starts[1] == 0 and phi._layout._ends[1] == phi._nGlobalCoords[1]',
                'phi._layout._starts[2] == 0 and phi._layout._ends[2] == phi._nGlobalCoords[2]']
        # parallel_gradient(phi_r, i, der): fills der from the potential on the flux surface of local radius i
        C[A + '::ParallelGradient.parallel_gradient'] = dict(
            abstract=True, params_order=['self', 'phi_r', 'i', 'der'],
            requires=["view_of(phi_r, caller('phi')._f)", 'i == view_fixed(phi_r, 0)', "view_of(der, caller('parGradVals'))",
                      'i == view_fixed(der, 0)'],
            modifies=['der'], ensures=[])
    C[A + '::VParallelAdvection.' + fn] = dict(params=params, requires=req, ensures=[], modifies=['grid._f', 'parGradVals'], loops=loops)
    return C


def contracts_pol(unchanged):
    order = (3, 2, 1, 0)
    req = grid_invariant('grid', order)
    req += ['grid._layout._starts[2] == 0 and grid._layout._ends[2] == grid._nGlobalCoords[1]',
            'grid._layout._starts[3] == 0 and grid._layout._ends[3] == grid._nGlobalCoords[0]',
            'len(self._phiSplines) >= grid._layout._ends[1] - grid._layout._starts[1]']
    step = dict(abstract=True, params_order=['self', 'f', 'dt', 'phi', 'v'],
                requires=["view_of(f, caller('grid')._f)", "dt == caller('dt')",
                          # the velocity of the slice's own global v index
                          "v == caller('grid')._Vals[3][caller('grid')._layout._starts[0] + view_fixed(f, 0)]",
                          # the potential spline of the slice's own (local) z index - built in the same loop order
                          "phi == caller('self')._phiSplines[view_fixed(f, 1)]"],
                modifies=['f'], ensures=[])
    fn = 'gridStep_SplinesUnchanged' if unchanged else 'gridStep'
    nsp = 3
    params = {'self': {'__class__': A + '::PoloidalAdvection', '_phiSplines': 'iarr1',   # one spline object per local z index, as object ids
                       '_interpolator': {'__class__': 'pygyro/splines/spline_interpolators.py::SplineInterpolator2D'}},
              'grid': grid_obj(order, 'poloidal'), 'dt': 'float'}
    loops = {'*': dict(inv=[])}
    C = {A + '::PoloidalAdvection.step': step,
         G + '::Grid.getLayout': dict(params_order=['self', 'name'], returns='expr:self._layout', requires=[], ensures=[], modifies=[])}
    if not unchanged:
        porder = (2, 1, 0)
        params['phi'] = grid_obj(porder, 'poloidal', ndims=3)
        req += grid_invariant('phi', porder, ndims=3)
        req += ['phi._layout._starts[0] == grid._layout._starts[1] and phi._layout._ends[0] == grid._layout._ends[1]',
                'phi._layout._starts[1] == 0 and phi._layout._ends[1] == phi._nGlobalCoords[1]',
                'phi._layout._starts[2] == 0 and phi._layout._ends[2] == phi._nGlobalCoords[0]']
        C['pygyro/splines/spline_interpolators.py::SplineInterpolator2D.compute_interpolant'] = dict(
            abstract=True, params_order=['self', 'ug', 'spl'],
            # spline j is computed from the potential on the local z index j
            requires=["view_of(ug, caller('phi')._f)", "spl == caller('self')._phiSplines[view_fixed(ug, 0)]"],
            modifies=[], ensures=[])
    C[A + '::PoloidalAdvection.' + fn] = dict(params=params, requires=req, ensures=[], modifies=['grid._f'], loops=loops)
    return C


def cases(tier, rng=None):
    out = []
    for (label, key, C) in [
            ('FluxSurfaceAdvection.gridStep', A + '::FluxSurfaceAdvection.gridStep', contracts_flux()),
            ('VParallelAdvection.gridStep', A + '::VParallelAdvection.gridStep', contracts_vpar(False)),
            ('VParallelAdvection.gridStepKeepGradient', A + '::VParallelAdvection.gridStepKeepGradient', contracts_vpar(True)),
            ('PoloidalAdvection.gridStep', A + '::PoloidalAdvection.gridStep', contracts_pol(False)),
            ('PoloidalAdvection.gridStep_SplinesUnchanged', A + '::PoloidalAdvection.gridStep_SplinesUnchanged', contracts_pol(True))]:
        out.append(dict(label=label, struct=None, key=key, contracts=C))
    return out


# ---------------------------------------------------------------------------------------------------------------------
# Initial distribution function (first sentence of C05): every local entry is init_f at its own GLOBAL coordinates
# ---------------------------------------------------------------------------------------------------------------------
FI = 'pygyro/initialisation/initialiser_funcs.py'
IN = 'pygyro/initialisation/initialiser.py'
CARGS = 'm, n, eps, CN0, kN0, deltaRN0, rp, {ti}, deltaR, R0'


def initf(r, q, z, v, ti='Cti, kti, deltaRti', pre=''):
    """f_eq(r, v, ..) * (1 + eps * perturbation(r, q, z, ..)) with f_eq and perturbation uninterpreted pure functions."""
    c = (lambda x: pre + x)
    t = [c(x.strip()) for x in ti.split(',')]
    return ('f_eq({r}, {v}, {CN0}, {kN0}, {dRN0}, {rp}, {t0}, {t1}, {t2}) * (1 + {eps} * perturbation({r}, {q}, {z}, {m}, {n}, {rp}, '
            '{dR}, {R0}))').format(r=r, v=v, q=q, z=z, CN0=c('CN0'), kN0=c('kN0'), dRN0=c('deltaRN0'), rp=c('rp'), t0=t[0], t1=t[1], t2=t[2],
                                   eps=c('eps'), m=c('m'), n=c('n'), dR=c('deltaR'), R0=c('R0'))


def kernel_contract(kind):
    # (first loop array, second loop array, how the four coordinates are read)
    coords = {'flux': ('theta', 'zVec', dict(r='r', q='theta[{a}]', z='zVec[{b}]', v='vPar')),
              'pol': ('theta', 'rVec', dict(r='rVec[{b}]', q='theta[{a}]', z='z', v='vPar')),
              'vpar': ('theta', 'vPar', dict(r='r', q='theta[{a}]', z='z', v='vPar[{b}]'))}[kind]
    A1, A2, cd = coords

    def val(a, b):
        return initf(cd['r'].format(a=a, b=b), cd['q'].format(a=a, b=b), cd['z'].format(a=a, b=b), cd['v'].format(a=a, b=b))
    done_rows = 'forall(0, i, 0, len(%s), lambda a, b: surface[a, b] == %s)' % (A2, val('a', 'b'))
    done_row = 'forall(0, j, lambda b: surface[i, b] == %s)' % val('i', 'b')
    second = {'flux': 'for (j, z) in enumerate(zVec)', 'pol': 'for (j, r) in enumerate(rVec)', 'vpar': 'for (j, v) in enumerate(vPar)'}[kind]
    return dict(requires=['shape(surface)[0] == len(%s) and shape(surface)[1] == len(%s)' % (A1, A2)], modifies=['surface'],
                ensures=['forall(0, len(%s), 0, len(%s), lambda a, b: surface[a, b] == %s)' % (A1, A2, val('a', 'b'))],
                loops={'for (i, q) in enumerate(theta)': dict(inv=[done_rows]), second: dict(inv=[done_rows, done_row])})


def constants_obj():
    d = {'__class__': 'pygyro/model/constants.py::Constants'}
    for k in ('eps', 'CN0', 'kN0', 'deltaRN0', 'rp', 'CTi', 'kTi', 'deltaRTi', 'deltaR', 'R0'):
        d[k] = 'float'
    d['m'] = 'int'
    d['n'] = 'int'
    return d


def init_contract(kind):
    order = {'flux': (0, 3, 1, 2), 'pol': (3, 2, 1, 0), 'vpar': (0, 2, 1, 3)}[kind]
    name = {'flux': 'flux_surface', 'pol': 'poloidal', 'vpar': 'v_parallel'}[kind]
    req = grid_invariant('grid', order)
    req += ['grid._layout._starts[2] == 0 and grid._layout._ends[2] == grid._nGlobalCoords[%d]' % order[2],
            'grid._layout._starts[3] == 0 and grid._layout._ends[3] == grid._nGlobalCoords[%d]' % order[3]]
    # global coordinate of local index x on layout axis k
    def g(k, x):
        return 'grid._Vals[%d][grid._layout._starts[%d] + %s]' % (order[k], k, x)
    idx = ['a0', 'a1', 'a2', 'a3']
    co = {}
    for k in range(4):
        co[order[k]] = g(k, idx[k])
    val = initf(co[0], co[1], co[2], co[3], ti='CTi, kTi, deltaRTi', pre='constants.')
    n = ['shape(grid._f)[%d]' % k for k in range(4)]
    outer = 'forall(0, i, 0, %s, 0, %s, 0, %s, lambda a0, a1, a2, a3: grid._f[a0, a1, a2, a3] == %s)' % (n[1], n[2], n[3], val)
    inner = 'forall(0, j, 0, %s, 0, %s, lambda a1, a2, a3: grid._f[i, a1, a2, a3] == %s)' % (n[2], n[3], val.replace('a0', 'i'))
    l1 = {'flux': 'for (i, r) in grid.getCoords(0)', 'pol': 'for (i, v) in grid.getCoords(0)', 'vpar': 'for (i, r) in grid.getCoords(0)'}[kind]
    l2 = {'flux': 'for (j, v) in grid.getCoords(1)', 'pol': 'for (j, z) in grid.getCoords(1)', 'vpar': 'for (j, z) in grid.getCoords(1)'}[kind]
    fn = {'flux': 'initialise_flux_surface', 'pol': 'initialise_poloidal', 'vpar': 'initialise_v_parallel'}[kind]
    C = {FI + '::f_eq': dict(pure=True, returns='float', requires=[], ensures=[], modifies=[]),
         FI + '::perturbation': dict(pure=True, returns='float', requires=[], ensures=[], modifies=[]),
         FI + '::init_f_' + kind: kernel_contract(kind),
         IN + '::' + fn: dict(params={'grid': grid_obj(order, name), 'constants': constants_obj()}, requires=req,
                              modifies=['grid._f'],
                              ensures=['forall(0, %s, 0, %s, 0, %s, 0, %s, lambda a0, a1, a2, a3: grid._f[a0, a1, a2, a3] == %s)'
                                       % (n[0], n[1], n[2], n[3], val)],
                              loops={l1: dict(inv=[outer]), l2: dict(inv=[outer, inner])})}
    return C, IN + '::' + fn


_old_cases = cases


def cases(tier, rng=None):
    out = _old_cases(tier, rng)
    for kind in ('flux', 'pol', 'vpar'):
        C, key = init_contract(kind)
        out.append(dict(label='init_f_%s kernel' % kind, struct=None, key=FI + '::init_f_' + kind, contracts=C))
        out.append(dict(label=key.split('::')[1], struct=None, key=key, contracts=C))
    return out
