"""scratch: LayoutHandler.__init__ establishes bufferSize >= every block it will be asked to hold"""
import sys
sys.path.insert(0,'/verif')
from vf.contracts.transpose_helpers import swap_axes
L = 'pygyro/model/layout.py'
FLAT_MODE = True
SPECS = []
LEMMAS = [
    # a layout's block fits into the p padded blocks of a transpose it takes part in: its own extent along the swapped position
    # is at most the maximal block (sa <= ma), its extent along the other swapped dimension is the whole axis, which p maximal
    # blocks cover (nb <= p * mb); the remaining extents (r2, r3) are the same
    dict(name='block_fits_padded', vars=[('sa', 'int'), ('ma', 'int'), ('nb', 'int'), ('mb', 'int'), ('p', 'int'), ('r2', 'int'), ('r3', 'int')],
         requires=['0 <= sa and sa <= ma', '0 <= nb and nb <= p * mb', 'mb >= 0', 'p >= 1', 'r2 >= 0 and r3 >= 0'],
         ensures=['sa * nb * r2 * r3 <= p * (ma * mb * r2 * r3)']),
]
def handler_case(std, pat):
    names = list(std)
    R = len(std[names[0]])
    npat = len(pat)
    req = ['nprocs[%d] %s' % (k, '> 1' if c == '2' else '== 1') for k, c in enumerate(pat)]
    req += ['nprocs[%d] <= len(eta_grids[%d])' % (k, std[n][k]) for k in range(npat) for n in names]
    req += ['0 <= coords[%d] and coords[%d] < nprocs[%d]' % (k, k, k) for k in range(npat)]
    req += ['len(eta_grids[%d]) >= 1' % d for d in range(R)]
    # bufferSize is the maximum of the first layout's size and, for every compatible pair (in the constructor's enumeration
    # order), the p padded blocks exchanged by the transpose between them
    ens = ["self._buffer_size >= self._layouts['%s']._size" % names[0]]
    for n_ in range(len(names)):
        for i_ in range(n_):
            l1, l2 = names[n_], names[i_]
            o1, o2 = list(std[l1]), list(std[l2])
            diff = [k for k in range(npat) if pat[k] == '2' and o1[k] != o2[k]]
            blk = ["self._layouts['%s']._shape[%d]" % (l1, k) for k in range(R)]
            if len(diff) == 0:
                ens.append('self._buffer_size >= prodof([%s])' % ', '.join(blk))
            elif len(diff) == 1:
                a0, a1, a2 = swap_axes(o1, o2, pat)
                blk[a0] = "self._layouts['%s']._max_shape[%d]" % (l1, a0)
                blk[a1] = "self._layouts['%s']._max_shape[%d]" % (l2, a0)
                ens.append('self._buffer_size >= comm_size(comms[%d]) * prodof([%s])' % (a0, ', '.join(blk)))
    C = {L + '::Layout.__init__': dict(inline=True),     # the real constructor is executed for every layout of the handler
         L + '::LayoutManager._makeConnectionMap': dict(abstract=True, params_order=['self', 'DirectConnections'], returns='bool',
                                                       requires=[], ensures=['result'], modifies=[]),
         L + '::LayoutHandler.__init__': dict(
             params={'self': 'obj:%s::LayoutHandler' % L, 'comms': ('list', ['comm'] * npat), 'coords': 'list%dint' % npat,
                     'layouts': ('const', {k: list(v) for k, v in std.items()}), 'nprocs': 'list%dint' % npat,
                     'eta_grids': 'list%darr1' % R},
             requires=req, ensures=ens, modifies=[])}
    return dict(label='LayoutHandler.__init__ %s grid %s' % ('/'.join(''.join(map(str, v)) for v in std.values()), pat), struct=None,
                key=L + '::LayoutHandler.__init__', contracts=C)


def cases(tier, rng=None):
    std4 = {'flux_surface': (0, 3, 1, 2), 'v_parallel': (0, 2, 1, 3), 'poloidal': (3, 2, 1, 0)}
    std3 = {'v_parallel_2d': (0, 2, 1), 'mode_solve': (1, 2, 0)}
    std3b = {'v_parallel_1d': (0, 2, 1), 'poloidal': (2, 1, 0)}
    out = [handler_case(std4, '22'), handler_case(std4, '12')]
    if tier != 'quick':
        out += [handler_case(std4, '21'), handler_case(std4, '11'), handler_case(std3, '22'), handler_case(std3b, '2'),
                handler_case(std3b, '1')]
    return out
