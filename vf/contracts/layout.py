"""Contracts for pygyro/model/layout.py: Layout.__init__ (property C02).

Structure (number of dimensions, the ordering, how many process counts are given) is concrete per case;
extents, process counts and rank coordinates are symbolic, so each case is unbounded.
"""
import itertools

F = 'pygyro/model/layout.py'

# n_d = len(eta_grids[dims_order[d]]), p_d = nprocs[d] (or 1 beyond len(nprocs)), r_d = myRank[d] (or 0)
N = 'len(eta_grids[dims_order[{d}]])'


def clauses(ndims, nk):
    req, ens = [], []
    for d in range(nk):
        req += ['1 <= nprocs[%d]' % d, 'nprocs[%d] <= %s' % (d, N.format(d=d)), '0 <= myRank[%d]' % d, 'myRank[%d] < nprocs[%d]' % (d, d)]
    for d in range(ndims):
        n = N.format(d=d)
        p = 'nprocs[%d]' % d if d < nk else '1'
        r = 'myRank[%d]' % d if d < nk else '0'
        req.append('%s >= 1' % n)
        S = 'self._mpi_starts[%d]' % d
        Ln = 'self._mpi_lengths[%d]' % d
        ens += [
            'len({S}) == {p} and len({L}) == {p}'.format(S=S, L=Ln, p=p),
            # tile [0,n) exactly once, in rank order
            '{S}[0] == 0'.format(S=S),
            'forall(0, {p} - 1, lambda k: {S}[k] + {L}[k] == {S}[k + 1])'.format(S=S, L=Ln, p=p),
            '{S}[{p} - 1] + {L}[{p} - 1] == {n}'.format(S=S, L=Ln, p=p, n=n),
            # balanced: lengths differ by at most one, nobody is empty
            'forall(0, {p}, lambda k: {L}[k] >= 1 and ({L}[k] == {n} // {p} or {L}[k] == {n} // {p} + 1))'.format(L=Ln, p=p, n=n),
            # advertised local block agrees with the ranges
            'self._starts[{d}] == {S}[{r}]'.format(d=d, S=S, r=r),
            'self._ends[{d}] == {S}[{r}] + {L}[{r}]'.format(d=d, S=S, L=Ln, r=r),
            'self._shape[{d}] == {L}[{r}]'.format(d=d, L=Ln, r=r),
            # maximum block shape: an upper bound that is attained (by the last rank)
            'forall(0, {p}, lambda k: {L}[k] <= self._max_shape[{d}])'.format(L=Ln, p=p, d=d),
            '{L}[{p} - 1] == self._max_shape[{d}]'.format(L=Ln, p=p, d=d),
            'self._full_shape[{d}] == {n}'.format(d=d, n=n),
            'self._inv_dims_order[dims_order[{d}]] == {d}'.format(d=d),
            'self._nprocs[{d}] == {p}'.format(d=d, p=p),
        ]
    ens.append('self._size == ' + ' * '.join('self._shape[%d]' % d for d in range(ndims)))
    ens.append('self._max_size == ' + ' * '.join('self._max_shape[%d]' % d for d in range(ndims)))
    ens.append('self._size <= self._max_size')
    ens.append('self._ndims == %d' % ndims)
    return req, ens


def cases(tier, rng=None):
    """(label, struct) structural cases: every ordering of rank 2-4 x number of process counts."""
    out = []
    for ndims in (2, 3, 4):
        perms = list(itertools.permutations(range(ndims)))
        for perm in perms:
            for nk in range(1, min(ndims, 2) + 1):
                out.append(('R%d order=%s nk=%d' % (ndims, ''.join(map(str, perm)), nk),
                            dict(self='obj:%s::Layout' % F, name='str', nprocs='list%dint' % nk, dims_order=list(perm),
                                 eta_grids='list%darr1' % ndims, myRank='list%dint' % nk), ndims, nk))
    if tier == 'quick':
        keep = [c for c in out if c[0] in ('R4 order=0312 nk=2', 'R4 order=0213 nk=2', 'R4 order=3210 nk=2', 'R3 order=021 nk=2',
                                           'R3 order=120 nk=2', 'R3 order=210 nk=1', 'R2 order=10 nk=1', 'R2 order=01 nk=2')]
        if rng is not None:
            rest = [c for c in out if c not in keep]
            idx = rng.choice(len(rest), size=4, replace=False)
            keep += [rest[i] for i in idx]
        return keep
    return out


def contract_for(ndims, nk):
    req, ens = clauses(ndims, nk)
    return dict(requires=req, ensures=ens, modifies=[])


CONTRACTS = {}
SPECS = []
