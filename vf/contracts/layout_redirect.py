"""Contracts for the dispatch / multi-step logic of LayoutHandler and LayoutSwapper (C01 step 6-7, C03 histories).

Modular: the single-step transposes are used only through their contracts (holds-based, opaque buffers);
their own correctness is the subject of the view-model proof / the bounded stand-in.
"""
L = 'pygyro/model/layout.py'

HOLDS_REQ = ['valid(source)', 'layout_of(source) == name_id({src})', 'distinct_bufs(source, dest{buf})']


def step_contract(order, with_buf, src_name, dst_name):
    return dict(
        abstract=True, params_order=order,
        requires=['valid(source)', 'layout_of(source) == name_id(%s)' % src_name,
                  'distinct_bufs(source, dest%s)' % (', buf' if with_buf else '')],
        modifies=['dest', 'buf'] if with_buf else ['source', 'dest'],
        ensures=['holds(dest, old(field_of(source)), %s)' % dst_name]
        + (['same_content(source, old(source))'] if with_buf else []))


TOP_REQ = ['self._buffer_size > 0', 'source.size >= self._buffer_size', 'dest.size >= self._buffer_size',
           'valid(source)', 'layout_of(source) == name_id(source_name)']
TOP_ENS = ['holds(dest, old(field_of(source)), dest_name)']


def layout_spec(name):
    return {'__class__': L + '::Layout', '_name': ('const', name), '_size': 'int', '_shape': ('const', ('shape', name))}


def handler_spec(cls, names, route):
    return {'__class__': L + '::' + cls, '_buffer_size': 'int',
            '_layouts': {'__dict__': {n: layout_spec(n) for n in names}},
            '_route_map': ('const', {'A': {'Z': route}})}


def handler_cases():
    """LayoutHandler: same layout; direct; routes of 2..4 steps; with and without buffer."""
    out = []
    mids = ['M1', 'M2', 'M3']
    for nsteps in (0, 1, 2, 3, 4):
        for with_buf in (False, True):
            if nsteps == 0:
                names, route, dst = ['A'], None, 'A'
            else:
                route = mids[:nsteps - 1] + ['Z']
                names, dst = ['A'] + route, 'Z'
            C = {
                L + '::LayoutHandler._transpose': step_contract(
                    ['self', 'source', 'dest', 'layout_source', 'layout_dest'], False, 'layout_source._name', 'layout_dest._name'),
                L + '::LayoutHandler._transpose_source_intact': step_contract(
                    ['self', 'source', 'dest', 'buf', 'layout_source', 'layout_dest'], True, 'layout_source._name', 'layout_dest._name'),
            }
            top = dict(
                params={'self': handler_spec('LayoutHandler', names, route or ['A']), 'source': 'buf', 'dest': 'buf',
                        'source_name': ('const', 'A'), 'dest_name': ('const', dst),
                        'buf': 'buf' if with_buf else ('const', None)},
                requires=TOP_REQ + ['distinct_bufs(source, dest%s)' % (', buf' if with_buf else '')],
                ensures=TOP_ENS + (['same_content(source, old(source))'] if with_buf else []))
            C[L + '::LayoutHandler.transpose'] = top
            # the redirect helpers are verified on their own as well (the dispatcher inlines nothing: it calls them)
            red = '_transposeRedirect_source_intact' if with_buf else '_transposeRedirect'
            if nsteps >= 2:
                C[L + '::LayoutHandler.' + red] = dict(
                    params={'self': handler_spec('LayoutHandler', names, route), 'source': 'buf', 'dest': 'buf',
                            'source_name': ('const', 'A'), 'dest_name': ('const', dst), **({'buf': 'buf'} if with_buf else {})},
                    requires=[r for r in TOP_REQ if 'size' not in r] + ['distinct_bufs(source, dest%s)' % (', buf' if with_buf else '')],
                    ensures=TOP_ENS + (['same_content(source, old(source))'] if with_buf else []))
                out.append(dict(label='%s route=%d steps' % (red, nsteps), struct=None, key=L + '::LayoutHandler.' + red, contracts=C))
            out.append(dict(label='transpose route=%d steps buf=%s' % (nsteps, with_buf), struct=None,
                            key=L + '::LayoutHandler.transpose', contracts=C))
    return out


def swapper_cases():
    """LayoutSwapper.transpose: same handler (delegation); other handler directly; via 2..3 steps (recursion through
    the contract of transpose itself)."""
    out = []
    hspec = {'__class__': L + '::LayoutHandler', '_buffer_size': 'int'}
    for kind in ('same_handler', 'direct', 'route2', 'route3'):
        for with_buf in (False, True):
            if kind == 'same_handler':
                names, route, handlers = ['A', 'Z'], ['Z'], {'A': 0, 'Z': 0}
            elif kind == 'direct':
                names, route, handlers = ['A', 'Z'], ['Z'], {'A': 0, 'Z': 1}
            elif kind == 'route2':
                names, route, handlers = ['A', 'M1', 'Z'], ['M1', 'Z'], {'A': 0, 'M1': 0, 'Z': 1}
            else:
                names, route, handlers = ['A', 'M1', 'M2', 'Z'], ['M1', 'M2', 'Z'], {'A': 0, 'M1': 1, 'M2': 1, 'Z': 0}
            sspec = {'__class__': L + '::LayoutSwapper', '_buffer_size': 'int',
                     '_handlers': ('const', handlers), '_layouts': ('const', names),
                     '_managers': ('list', [dict(hspec, **{'_layouts': {'__dict__': {n: layout_spec(n) for n in names if handlers[n] == k}}})
                                            for k in (0, 1)]),
                     '_route_map': ('const', {'A': {'Z': route}, **{m: {} for m in names if m != 'A'}}),
                     '_current_manager': ('expr', 'self._managers[0]')}
            bufp = {'buf': 'buf'} if with_buf else {'buf': ('const', None)}
            bufd = ', buf' if with_buf else ''
            intact = ['same_content(source, old(source))'] if with_buf else []
            hold_req = ['valid(source)', 'layout_of(source) == name_id(source_name)']
            C = {
                # the handlers' own transpose (C01) and the swapper's single steps, through their contracts
                L + '::LayoutHandler.transpose': dict(
                    abstract=True, params_order=['self', 'source', 'dest', 'source_name', 'dest_name', 'buf'],
                    requires=['self._buffer_size > 0', 'source.size >= self._buffer_size', 'dest.size >= self._buffer_size'] + hold_req
                    + ['distinct_bufs(source, dest, buf)'],
                    modifies=['source', 'dest', 'buf'],
                    ensures=TOP_ENS + ['implies(buf is not None, same_content(source, old(source)))']),
                L + '::LayoutSwapper._transpose': step_contract(
                    ['self', 'source', 'dest', 'layout_source', 'layout_dest'], False, 'layout_source._name', 'layout_dest._name'),
                L + '::LayoutSwapper._transpose_source_intact': step_contract(
                    ['self', 'source', 'dest', 'buf', 'layout_source', 'layout_dest'], True, 'layout_source._name', 'layout_dest._name'),
                L + '::LayoutSwapper.getLayout': dict(params_order=['self', 'name'], returns='layout:name', requires=[], ensures=[], modifies=[]),
            }
            top = dict(
                params={'self': sspec, 'source': 'buf', 'dest': 'buf', 'source_name': ('const', 'A'), 'dest_name': ('const', 'Z'), **bufp},
                requires=['self._buffer_size > 0', 'source.size == self._buffer_size', 'dest.size == self._buffer_size',
                          'forall(0, 2, lambda k: self._managers[k]._buffer_size > 0 and self._managers[k]._buffer_size <= self._buffer_size)']
                + hold_req + ['distinct_bufs(source, dest%s)' % bufd] + ['implies(buf is not None, buf.size == self._buffer_size)'],
                # the data end up in the destination layout, the source survives when a buffer is given, and the swapper
                # remembers the manager of the layout the data are now in (needed by the next transposition of a history)
                ensures=TOP_ENS + intact,
                sets={'_current_manager': 'self._managers[self._handlers[dest_name]]'},
                modifies=['source', 'dest', 'buf'])
            C[L + '::LayoutSwapper.transpose'] = top
            out.append(dict(label='LayoutSwapper.transpose %s buf=%s' % (kind, with_buf), struct=None, key=L + '::LayoutSwapper.transpose',
                            contracts=C))
            if kind.startswith('route'):
                red = '_transposeRedirect_source_intact' if with_buf else '_transposeRedirect'
                # inside the redirect helpers transpose is called for arbitrary names: its contract, generic in the names
                C2 = dict(C)
                C2[L + '::LayoutSwapper.transpose'] = dict(
                    abstract=True, params_order=['self', 'source', 'dest', 'source_name', 'dest_name', 'buf'],
                    requires=hold_req + ['distinct_bufs(source, dest, buf)'], modifies=['source', 'dest', 'buf'],
                    ensures=TOP_ENS + ['implies(buf is not None, same_content(source, old(source)))'])
                C2[L + '::LayoutSwapper.' + red] = dict(
                    params={'self': sspec, 'source': 'buf', 'dest': 'buf', 'source_name': ('const', 'A'), 'dest_name': ('const', 'Z'),
                            **({'buf': 'buf'} if with_buf else {})},
                    requires=hold_req + ['distinct_bufs(source, dest%s)' % bufd], ensures=TOP_ENS + intact)
                out.append(dict(label='LayoutSwapper.%s %s' % (red, kind), struct=None, key=L + '::LayoutSwapper.' + red, contracts=C2))
    return out


def cases(tier, rng=None):
    return handler_cases()


SPECS = []
CONTRACTS = {}
