"""Contracts for ParallelGradient (property C13), per stencil size n = order + 1 (structural: 3..7).

interp_val(spline, x): value at x of the periodic theta-spline the Spline1D object currently holds; the spline
interpolates the row of phi_r handed to compute_interpolant (assumed contract of the interpolator, C08).
"""
A = 'pygyro/advection/advection.py'
SPL = 'pygyro/splines/splines.py'
SI = 'pygyro/splines/spline_interpolators.py'
CONSTS = 'pygyro/initialisation/constants.py'

SPECS = [('iota_fn_spec_unused', [('r', 'real')], 'real', None)]


def start_of(n):
    return 1 - (n + 1) // 2


def self_spec(n):
    return {'__class__': A + '::ParallelGradient', '_bz': 'arr2:?,1', '_thetaVals': 'arr4', '_nz': 'int', '_nq': 'int', '_inv_dz': 'float',
            '_dz': 'float', '_shifts': 'iarr1:%d' % n, '_coeffs': 'arr1:%d' % n, '_fwdSteps': ('const', -start_of(n)),
            '_bkwdSteps': ('const', start_of(n) + n - 1),
            '_interpolator': {'__class__': SI + '::SplineInterpolator1D'},
            '_thetaSpline': {'__class__': SPL + '::Spline1D'}}


def shifts_req(n):
    return ['self._shifts[%d] == %d' % (k, start_of(n) + k) for k in range(n)]


def grad_sum(n, z, q, upto=None):
    """sum_j [source row (z+s_j) mod nz already processed] c_j * S_{(z+s_j) mod nz}(thetaVals[i, (z+s_j) mod nz, j, q])"""
    terms = []
    for j in range(n):
        s = start_of(n) + j
        row = '(({z} + {s}) % self._nz)'.format(z=z, s=s)
        t = 'self._coeffs[{j}] * interp_val(("row", old(phi_r), {row}), self._thetaVals[old(i), {row}, {j}, {q}])'.format(j=j, row=row, q=q)
        if upto is not None:
            t = '({t} if {row} < {u} else 0.0)'.format(t=t, row=row, u=upto)
        terms.append(t)
    return ' + '.join(terms)


def contracts(n):
    fwd, bk = -start_of(n), start_of(n) + n - 1
    req = (shifts_req(n) + ['self._nz > %d' % (n - 1), 'self._nq >= 0', '0 <= i and i < shape(self._bz)[0]', 'shape(self._bz)[1] == 1',
                            'i < shape(self._thetaVals)[0]', 'shape(self._thetaVals)[1] == self._nz',
                            'shape(self._thetaVals)[2] == %d' % n, 'shape(self._thetaVals)[3] == self._nq',
                            'shape(phi_r)[0] == self._nz', 'shape(phi_r)[1] == self._nq',
                            'shape(der)[0] == self._nz', 'shape(der)[1] == self._nq'])
    inv = lambda up: ['forall(0, self._nz, 0, self._nq, lambda z, q: der[z, q] == %s)' % grad_sum(n, 'z', 'q', up),
                      'forall(0, self._nz, 0, self._nq, lambda z, q: phi_r[z, q] == old(phi_r)[z, q])']
    # targets of the row just processed (i - 1 after the increment), un-wrapped and wrapped by one period either way:
    # each case is then linear (no modulo left after substitution)
    split = {'z': ['i - 1 - (%d) + (%d) * self._nz' % (start_of(n) + j, k) for j in range(n) for k in (0, 1, -1)]}
    C = {
        SI + '::SplineInterpolator1D.compute_interpolant': dict(
            abstract=True, params_order=['self', 'ug', 'spl'], requires=[], modifies=[], ensures=[], interp_src=('spl', 'ug')),
        SPL + '::Spline1D.eval_vector': dict(
            abstract=True, params_order=['self', 'x', 'y', 'der'], requires=['len(y) >= len(x)'], modifies=['y'],
            ensures=['forall(0, len(x), lambda k: y[k] == interp_val(self, x[k]))']),
        A + '::ParallelGradient.parallel_gradient': dict(
            params={'self': self_spec(n), 'phi_r': 'arr2', 'i': 'int', 'der': 'arr2'},
            requires=req, modifies=['der'], allow_negative_index=True,
            # C13: b_z(r_i)/dz * sum_j c_j * S_{(z+s_j) mod nz}(theta along the field line), z wrapped periodically
            ensures=['forall(0, self._nz, 0, self._nq, lambda z, q: der[z, q] == (%s) * (self._bz[old(i), 0] * self._inv_dz))'
                     % grad_sum(n, 'z', 'q')],
            loops={
                # proof hint: the row just processed (i - 1 after the increment) contributes to z = (i - 1 - s_j) mod nz
                'for i in range(self._fwdSteps)': dict(inv=inv('i'), case_split=split),
                'for i in range(self._fwdSteps, self._nz - self._bkwdSteps)': dict(inv=inv('i'), case_split=split),
                'for i in range(self._nz - self._bkwdSteps, self._nz)': dict(inv=inv('i'), case_split=split),
            }),
    }
    return C


LY = 'pygyro/model/layout.py'
TH = '(eta_grid[1][{q}] + {iota} * (self._dz * {s}) / R0) % (2 * pi)'


def table_contracts(n):
    """getCoeffsFirstDeriv, _getThetaVals and __init__ for stencil size n."""
    st = start_of(n)
    C = contracts(n)
    C['iota_fn'] = dict(abstract=True, pure=True, returns='float', params_order=['r'], requires=[], ensures=[], modifies=[])
    C[A + '::ParallelGradient.getCoeffsFirstDeriv'] = dict(
        params={'self': {'__class__': A + '::ParallelGradient'}, 'n': ('const', n)},
        requires=[], modifies=[],
        ensures=['len(self._shifts) == %d and len(self._coeffs) == %d' % (n, n)]
        + ['self._shifts[%d] == %d' % (k, st + k) for k in range(n)]
        + ['self._fwdSteps == %d' % (-st), 'self._bkwdSteps == %d' % (st + n - 1)]
        # the stencil is centred when the order is even (n odd)
        + (['self._fwdSteps == self._bkwdSteps'] if n % 2 == 1 else [])
        # first-derivative combination of order n-1: moment conditions sum_j c_j s_j^m = [m == 1]
        + [' + '.join('self._coeffs[%d] * %d' % (j, (st + j) ** m) for j in range(n)) + ' == %d' % (1 if m == 1 else 0) for m in range(n)])
    tv_self = {'__class__': A + '::ParallelGradient', '_dz': 'float', '_shifts': 'iarr1:%d' % n}
    formula = lambda j, q, iota: TH.format(q=q, iota=iota, s=st + j)
    done = ' and '.join('(thetaVals[z, %d, q] == %s if ((z - (%d)) %% len(eta_grid[2])) < k else True)' % (j, formula(j, 'q', 'iota(r)'), st + j)
                        for j in range(n))
    C[A + '::ParallelGradient._getThetaVals'] = dict(
        params={'self': tv_self, 'r': 'float', 'thetaVals': 'arr3', 'eta_grid': 'list4arr1', 'R0': 'float'},
        funparams={'iota': 'iota_fn'},
        requires=shifts_req(n) + ['len(eta_grid[2]) > %d' % (n - 1), 'shape(thetaVals)[0] == len(eta_grid[2])',
                                  'shape(thetaVals)[1] == %d' % n, 'shape(thetaVals)[2] == len(eta_grid[1])', 'R0 != 0'],
        modifies=['thetaVals'],
        # theta along the field line through each node: shifted by iota*dz*s_j/R0, for EVERY z
        ensures=['forall(0, len(eta_grid[2]), 0, len(eta_grid[1]), lambda z, q: %s)'
                 % ' and '.join('thetaVals[z, %d, q] == %s' % (j, formula(j, 'q', 'iota(r)')) for j in range(n))],
        loops={'for k in range(eta_grid[2].size)': dict(
            inv=['forall(0, len(eta_grid[2]), 0, len(eta_grid[1]), lambda z, q: %s)' % done],
            case_split={'z': ['k - 1 + (%d) + (%d) * len(eta_grid[2])' % (st + j, w) for j in range(n) for w in (0, 1, -1)]})})
    # ---- constructor -----------------------------------------------------------------------------
    C[A + '::ParallelGradient.getCoeffsFirstDeriv']['creates'] = {
        '_shifts': 'iarr1:%d' % n, '_coeffs': 'arr1:%d' % n, '_fwdSteps': 'int', '_bkwdSteps': 'int'}
    C[SI + '::SplineInterpolator1D.__init__'] = dict(abstract=True, params_order=['self', 'basis'], requires=[], ensures=[], modifies=[],
                                                     creates={'_basis': ('expr', 'basis')})
    C[SPL + '::Spline1D.__init__'] = dict(abstract=True, params_order=['self', 'basis'], requires=[], ensures=[], modifies=[],
                                          creates={'_basis': ('expr', 'basis')})
    C[CONSTS + '::Constants.iota'] = dict(inline=True, implements=['iota_fn'])
    # a 3-D layout with ordering (r, z, theta) as the driver passes (v_parallel_1d); its attributes satisfy the C02 invariant
    lay = {'__class__': LY + '::Layout', '_starts': 'iarr1:3', '_ends': 'iarr1:3', '_shape': 'tuple3int', '_ndims': ('const', 3),
           '_dims_order': ('const', (0, 2, 1)), '_inv_dims_order': ('const', (0, 2, 1)), '_name': ('const', 'v_parallel_1d')}
    cst = {'__class__': CONSTS + '::Constants', 'iotaVal': 'float', 'R0': 'float'}
    RS, RE = 'layout._starts[0]', 'layout._ends[0]'
    alltheta = ('forall(0, {hi}, 0, len(eta_grid[2]), 0, len(eta_grid[1]), lambda a, z, q: %s)'
                % ' and '.join('self._thetaVals[a, z, %d, q] == %s' % (j, TH.format(q='q', iota='constants.iotaVal', s=st + j).replace(
                    'R0', 'constants.R0')) for j in range(n)))
    C[A + '::ParallelGradient.__init__'] = dict(
        params={'self': {'__class__': A + '::ParallelGradient'}, 'spline': {'__class__': SPL + '::BSplines'}, 'eta_grid': 'list4arr1',
                'layout': lay, 'constants': cst, 'order': ('const', n - 1)},
        requires=['len(eta_grid[2]) > %d' % (n - 1), 'len(eta_grid[2]) >= 2', 'constants.R0 != 0',
                  'eta_grid[2][1] - eta_grid[2][0] != 0',
                  'forall(0, 3, lambda k: layout._shape[k] == layout._ends[k] - layout._starts[k])',
                  '0 <= {s} and {s} <= {e} and {e} <= len(eta_grid[0])'.format(s=RS, e=RE)],
        modifies=[],
        ensures=['self._nz == len(eta_grid[2]) and self._nq == len(eta_grid[1])',
                 'self._dz == eta_grid[2][1] - eta_grid[2][0]', 'self._inv_dz == 1.0 / self._dz',
                 'shape(self._bz)[0] == {e} - {s} and shape(self._bz)[1] == 1'.format(s=RS, e=RE),
                 # b_z of the radius of the OWN global coordinate: local row a <-> global radius index starts_r + a
                 'forall(0, {e} - {s}, lambda a: self._bz[a, 0] == 1 / sqrt(1 + (eta_grid[0][{s} + a] * constants.iotaVal / constants.R0) ** 2))'.format(s=RS, e=RE),
                 alltheta.format(hi='len(eta_grid[0])')],
        loops={'for (i, r) in enumerate(eta_grid[0])': dict(inv=[alltheta.format(hi='i')])})
    return C


def cases(tier, rng=None):
    # quick: orders 2, 3 and 6 (odd order exercises the negative-index wrap of the middle loop); thorough: all of 2..6
    ns = [3, 4, 7] if tier == 'quick' else [3, 4, 5, 6, 7]
    out = []
    for n in ns:
        out.append(dict(label='parallel_gradient order=%d' % (n - 1), struct=None, key=A + '::ParallelGradient.parallel_gradient',
                        contracts=contracts(n)))
        T = table_contracts(n)
        out.append(dict(label='getCoeffsFirstDeriv order=%d' % (n - 1), struct=None, key=A + '::ParallelGradient.getCoeffsFirstDeriv', contracts=T))
        out.append(dict(label='_getThetaVals order=%d' % (n - 1), struct=None, key=A + '::ParallelGradient._getThetaVals', contracts=T))
        out.append(dict(label='__init__ order=%d' % (n - 1), struct=None, key=A + '::ParallelGradient.__init__', contracts=T))
    return out


CONTRACTS = {}
