"""Contracts for pygyro/poisson/poisson_tools.py (property C16)."""
F = 'pygyro/poisson/poisson_tools.py'

SHAPES_P = ['shape(grid)[0] == shape(rho)[0]', 'shape(grid)[1] == shape(rho)[1]', 'shape(grid)[2] == shape(rho)[2]',
            'shape(grid)[3] == shape(quad_coeffs)[0]']

TERM_P = 'quad_coeffs[l] * (grid[{i}, {j}, {k}, l] - feq[{i}, l])'
TERM_R = 'quad_coeffs[l] * grid[{i}, {j}, {k}, l]'


def loops(term):
    def S(i, j, k, hi='nc'):
        return 'sum_(0, %s, lambda l: %s)' % (hi, term.format(i=i, j=j, k=k))
    done_i = 'forall(0, i, 0, m, 0, p, lambda a, b, c: rho[a, b, c] == %s)' % S('a', 'b', 'c')
    done_j = 'forall(0, j, 0, p, lambda b, c: rho[i, b, c] == %s)' % S('i', 'b', 'c')
    done_k = 'forall(0, k, lambda c: rho[i, j, c] == %s)' % S('i', 'j', 'c')
    return {
        'for i in range(n)': dict(inv=[done_i]),
        'for j in range(m)': dict(inv=[done_i, done_j]),
        'for k in range(p)': dict(inv=[done_i, done_j, done_k]),
        'for l in range(nc)': dict(inv=[done_i, done_j, done_k, 'rho[i, j, k] == ' + S('i', 'j', 'k', 'l')]),
    }


CONTRACTS = {
    F + '::get_perturbed_rho': dict(
        params={'rho': 'arr3'},
        requires=SHAPES_P + ['shape(feq)[0] >= shape(rho)[0]', 'shape(feq)[1] == shape(quad_coeffs)[0]'],
        modifies=['rho'],
        # statement: density = sum_l w_l (f - f_eq at the point's own (local) radius row)
        ensures=['forall(0, shape(rho)[0], 0, shape(rho)[1], 0, shape(rho)[2], lambda a, b, c: rho[a, b, c] == '
                 'sum_(0, shape(quad_coeffs)[0], lambda l: quad_coeffs[l] * (grid[a, b, c, l] - feq[a, l])))'],
        loops=loops(TERM_P),
    ),
    F + '::get_rho': dict(
        params={'rho': 'arr3'},
        requires=SHAPES_P,
        modifies=['rho'],
        ensures=['forall(0, shape(rho)[0], 0, shape(rho)[1], 0, shape(rho)[2], lambda a, b, c: rho[a, b, c] == '
                 'sum_(0, shape(quad_coeffs)[0], lambda l: quad_coeffs[l] * grid[a, b, c, l]))'],
        loops=loops(TERM_R),
    ),
}
