"""Wiring contracts for the mode loops of DiffEqSolver.solveEquation and QuasiNeutralitySolver.solveEquation (C14 / C15, the
clause "Dirichlet end coefficients stay zero, modes are solved independently"): the per-mode solver _solveMode writes only the
coefficient range of its mode (the ends are outside that range for a Dirichlet mode and inside it for a Neumann mode) and then
evaluates the spline with ALL coefficients, so it may only be entered with both end coefficients equal to zero.  That is its
PRECONDITION here; the mode loop must re-establish it before every call.  Executed in the trace abstraction: the sparse
matrices are opaque, only the coefficient buffer is tracked.
"""
PS = 'pygyro/poisson/poisson_solver.py'
G = 'pygyro/model/grid.py'
L = 'pygyro/model/layout.py'
TRACE_MODE = True
SPECS = []
CONTRACTS = {}


def rho_obj():
    return {'__class__': G + '::Grid', '_f': 'opaque', '_current_layout_name': ('const', 'mode_solve'),
            '_layout': {'__class__': L + '::Layout', '_name': ('const', 'mode_solve'), '_dims_order': ('const', (1, 2, 0)),
                        '_starts': 'tuple3int', '_ends': 'tuple3int'}}


def cases(tier, rng=None):
    out = []
    for cls in ('DiffEqSolver', 'QuasiNeutralitySolver'):
        key = PS + '::%s.solveEquation' % cls
        selfspec = {'__class__': PS + '::' + cls, '_coeffs': 'arr1', '_stiffnessMatrix': 'opaque', '_mVals': 'opaque',
                    '_k2PhiPsi': 'opaque', '_stiffness_range': 'opaque', '_stiffness0': 'opaque'}
        C = {
            G + '::Grid.getLayout': dict(params_order=['self', 'name'], returns='expr:self._layout', requires=[], ensures=[], modifies=[]),
            PS + '::DiffEqSolver._solveMode': dict(
                abstract=True, params_order=['self', 'phi', 'rho', 'stiffnessMatrix', 'i', 'I'], allow_negative_index=True,
                requires=['self._coeffs[0] == 0', 'self._coeffs[len(self._coeffs) - 1] == 0',
                          # the mode index handed over is the global index of the local row
                          "I == caller('rho')._layout._starts[0] + i"],
                modifies=['self._coeffs'], ensures=[]),
            key: dict(params={'self': selfspec, 'phi': 'opaque', 'rho': rho_obj()},
                      requires=['len(self._coeffs) >= 2', '0 <= rho._layout._starts[0] and rho._layout._starts[0] <= rho._layout._ends[0]'],
                      ensures=[], modifies=['self._coeffs'], allow_negative_index=True, loops={'*': dict(inv=[])}),
        }
        out.append(dict(label='%s.solveEquation' % cls, struct=None, key=key, contracts=C))
    return out
