"""Contracts for pygyro/model/process_grid.py (property C20)."""
F = 'pygyro/model/process_grid.py'

M = 'min(mpi_size, max_proc1)'
RATIO = ('max(max_proc1/nprocs1, max_proc2/nprocs2) / min(max_proc1/nprocs1, max_proc2/nprocs2)')

CONTRACTS = {
    F + '::compute_2d_process_grid_from_max': dict(
        params={'max_proc1': 'int', 'max_proc2': 'int', 'mpi_size': 'int'},
        returns='tuple:int,int',
        requires=['max_proc1 >= 1', 'max_proc2 >= 1', 'mpi_size >= 1'],
        # from the property statement: product, bounds
        ensures=['result[0] * result[1] == mpi_size',
                 '1 <= result[0] and result[0] <= max_proc1',
                 '1 <= result[1] and result[1] <= max_proc2'],
        # "an error is raised exactly when no such factorisation exists": the raise direction;
        # the converse (normal return => a factorisation exists) is the ensures above (the result is the witness)
        raises=[('RuntimeError',
                 'forall(1, max_proc1 + 1, lambda a: not (mpi_size % a == 0 and mpi_size // a <= max_proc2))')],
        loops={
            'while nprocs2 > max_proc2': dict(
                inv=['nprocs1 >= 1', 'nprocs1 <= ' + M, 'nprocs2 >= 1', 'nprocs1 * nprocs2 == mpi_size',
                     'forall(1, nprocs1, lambda a: not (mpi_size % a == 0 and mpi_size // a <= max_proc2))'],
                decreases=M + ' + 1 - nprocs1'),
            'while nprocs1 <= min(mpi_size, max_proc1) and mpi_size % nprocs1 != 0': dict(
                ghost={'n1_entry': 'nprocs1'},
                inv=['nprocs1 >= 2', 'nprocs1 >= n1_entry', 'nprocs1 <= ' + M + ' + 1',
                     'forall(1, nprocs1, lambda a: not (mpi_size % a == 0 and mpi_size // a <= max_proc2))'],
                decreases=M + ' + 1 - nprocs1'),
            'while True': dict(
                inv=['nprocs1 >= 1', 'nprocs1 <= ' + M, 'nprocs2 >= 1', 'nprocs2 <= max_proc2',
                     'nprocs1 * nprocs2 == mpi_size', 'ratio == ' + RATIO],
                decreases=M + ' + 1 - nprocs1'),
            'while new_n1 < max_proc1 and mpi_size % new_n1 != 0': dict(
                inv=['new_n1 >= nprocs1 + 1', 'new_n1 <= max(max_proc1, nprocs1 + 1)'],
                decreases='max_proc1 + 1 - new_n1 + nprocs1'),
        },
    ),
    F + '::compute_2d_process_grid': dict(
        params={'npts': 'list4int', 'mpi_size': 'int'},
        returns='tuple:int,int',
        requires=['npts[0] >= 1', 'npts[1] >= 1', 'npts[2] >= 1', 'npts[3] >= 1', 'mpi_size >= 1'],
        # every process gets >= 1 point of every distributed dimension of the three standard layouts:
        # flux_surface distributes (r, v), v_parallel (r, z), poloidal (v, z) -> n1 <= min(nr, nv), n2 <= min(nz, nv)
        ensures=['result[0] * result[1] == mpi_size',
                 '1 <= result[0] and result[0] <= npts[0] and result[0] <= npts[3]',
                 '1 <= result[1] and result[1] <= npts[2] and result[1] <= npts[3]'],
        raises=[('RuntimeError',
                 'forall(1, min(npts[0], npts[3]) + 1, lambda a: not (mpi_size % a == 0 and mpi_size // a <= min(npts[2], npts[3])))')],
    ),
}
