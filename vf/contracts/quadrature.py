"""Contract for SplineInterpolator1D.get_quadrature_coefficients (C09, the bookkeeping clauses): the right-hand side handed to
the transposed solve is the vector of basis-function integrals with the periodic wrap folded in (the first `degree` functions
receive the part stored beyond nbasis), and the call leaves the stored integrals of the basis object untouched - the weights can
be asked for again and the basis can be shared.  The transposed solves (SuperLU / LAPACK) are used through assumed contracts.
"""
SI = 'pygyro/splines/spline_interpolators.py'
SPL = 'pygyro/splines/splines.py'
SPECS = [('solveT', [('rhs', 'arr1'), ('k', 'int')], 'real', None)]
CONTRACTS = {}


def cases(tier, rng=None):
    key = SI + '::SplineInterpolator1D.get_quadrature_coefficients'
    basis = {'__class__': SPL + '::BSplines', '_nbasis': 'int', '_degree': 'int', '_periodic': ('const', True), '_knots': 'arr1',
             '_integrals': 'arr1'}
    C = {
        '<ext:scipy>::SuperLU.solve': dict(
            abstract=True, params_order=['b', 'trans'], requires=[], modifies=[], returns='arr1',
            ensures=['len(result) == len(b)', 'forall(0, len(b), lambda k: result[k] == solveT(arrof(lambda j: b[j] if (0 <= j and j < len(b)) else 0.0), k))']),
        key: dict(
            params={'self': {'__class__': SI + '::SplineInterpolator1D', '_basis': basis, '_splu': {'__class__': '<ext:scipy>::SuperLU'}}},
            requires=['self._basis._nbasis >= 1', 'self._basis._degree >= 0', 'self._basis._degree <= self._basis._nbasis',
                      'len(self._basis._integrals) == self._basis._nbasis + self._basis._degree'],
            returns='arr1', modifies=[],      # in particular the stored integrals are not modified (frame obligation)
            ensures=['len(result) == self._basis._nbasis',
                     # right-hand side: integrals with the periodic wrap folded into the first `degree` entries
                     'forall(0, self._basis._nbasis, lambda k: result[k] == solveT(arrof(lambda j: (old(self._basis._integrals)[j] + '
                     '(old(self._basis._integrals)[self._basis._nbasis + j] if j < self._basis._degree else 0.0)) '
                     'if (0 <= j and j < self._basis._nbasis) else 0.0), k))',
                     # the stored integrals are left untouched: the weights can be asked for again, the basis can be shared
                     'forall(0, len(self._basis._integrals), lambda k: self._basis._integrals[k] == old(self._basis._integrals)[k])'],
        )}
    return [dict(label='get_quadrature_coefficients periodic', struct=None, key=key, contracts=C)]
