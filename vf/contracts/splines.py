"""Contracts for the spline evaluation kernels (property C07).

Spec: Cox-de Boor recursion restricted to the non-vanishing basis functions of span s
(avoids 0/0); N is an uninterpreted function whose defining equation is instantiated at the
applications that occur in a VC.
"""
F = 'pygyro/splines/spline_eval_funcs.py'

SPECS = [
    ('N', [('T', 'arr1'), ('s', 'int'), ('x', 'real'), ('i', 'int'), ('q', 'int')], 'real',
     '1.0 if q <= 0 else ('
     '((x - T[i]) * (N(T, s, x, i, q - 1) / (T[i + q] - T[i])) if i >= s - q + 1 else 0.0)'
     ' + ((T[i + q + 1] - x) * (N(T, s, x, i + 1, q - 1) / (T[i + q + 1] - T[i + 1])) if i + 1 <= s else 0.0))'),
    ('dN', [('T', 'arr1'), ('s', 'int'), ('x', 'real'), ('i', 'int'), ('p', 'int')], 'real',
     '((p * N(T, s, x, i, p - 1)) / (T[i + p] - T[i]) if i >= s - p + 1 else 0.0)'
     ' - ((p * N(T, s, x, i + 1, p - 1)) / (T[i + p + 1] - T[i + 1]) if i + 1 <= s else 0.0)'),
]

SORTED = 'forall(0, len(knots), 0, len(knots), lambda a, b: implies(a <= b, knots[a] <= knots[b]))'
LOCAL_SORTED = ('forall(span - degree, span + degree + 2, span - degree, span + degree + 2, '
                'lambda a, b: implies(a <= b, knots[a] <= knots[b]))')

CONTRACTS = {
    F + '::nu_find_span': dict(
        pure=True, returns='int',
        requires=['degree >= 0', 'len(knots) >= 2 * degree + 2', SORTED,
                  'forall(degree, len(knots) - degree - 1, lambda a: knots[a] < knots[a + 1])'],
        ensures=['degree <= result', 'result <= len(knots) - degree - 2',
                 'knots[result] < knots[result + 1]',
                 'implies(knots[degree] <= x and x <= knots[len(knots) - 1 - degree], '
                 'knots[result] <= x and x <= knots[result + 1])',
                 # the right end point belongs to the last span, every other point to the half-open span
                 'implies(knots[degree] <= x and x < knots[len(knots) - 1 - degree], x < knots[result + 1])'],
        loops={
            'while x < knots[span] or x >= knots[span + 1]': dict(
                inv=['degree <= low', 'low < high', 'high <= len(knots) - 1 - degree',
                     'knots[low] <= x', 'x < knots[high]', 'span == (low + high) // 2'],
                decreases='high - low'),
        },
    ),
    F + '::nu_basis_funs': dict(
        requires=['degree >= 0', 'shape(values)[0] >= degree + 1', 'span - degree >= 0',
                  'span + degree + 1 <= len(knots) - 1', LOCAL_SORTED, 'knots[span] < knots[span + 1]'],
        modifies=['values'],
        ensures=['forall(0, degree + 1, lambda r: values[r] == N(knots, span, x, span - degree + r, degree))',
                 'forall(degree + 1, shape(values)[0], lambda r: values[r] == old(values)[r])',
                 # partition of unity and non-negativity (the latter for x inside the span)
                 'sum_(0, degree + 1, lambda m: values[m]) == 1',
                 'implies(knots[span] <= x and x <= knots[span + 1], forall(0, degree + 1, lambda r: values[r] >= 0))'],
        loops={
            'for j in range(0, degree)': dict(
                inv=['sum_(0, j + 1, lambda m: values[m]) == 1',
                     'implies(knots[span] <= x and x <= knots[span + 1], forall(0, j + 1, lambda m: values[m] >= 0))',
                     'forall(0, j + 1, lambda m: values[m] == N(knots, span, x, span - j + m, j))',
                     'forall(0, j, lambda m: left[m] == x - knots[span - m] and right[m] == knots[span + 1 + m] - x)',
                     'forall(degree + 1, shape(values)[0], lambda m: values[m] == old(values)[m])']),
            'for r in range(0, j + 1)': dict(
                inv=['sum_(0, r, lambda m: values[m]) + saved + sum_(r, j + 1, lambda m: values[m]) == 1',
                     'implies(knots[span] <= x and x <= knots[span + 1], saved >= 0 and forall(0, j + 1, lambda m: values[m] >= 0))',
                     'forall(0, j + 1, lambda m: left[m] == x - knots[span - m] and right[m] == knots[span + 1 + m] - x)',
                     'forall(0, r, lambda m: values[m] == N(knots, span, x, span - (j + 1) + m, j + 1))',
                     'forall(r, j + 1, lambda m: values[m] == N(knots, span, x, span - j + m, j))',
                     'saved == (0.0 if r == 0 else (x - knots[span - j + r - 1]) * '
                     '(N(knots, span, x, span - j + r - 1, j) / (knots[span + r] - knots[span - j + r - 1])))',
                     'forall(degree + 1, shape(values)[0], lambda m: values[m] == old(values)[m])']),
        },
    ),
    F + '::nu_basis_funs_1st_der': dict(
        requires=['degree >= 1', 'shape(ders)[0] >= degree + 1', 'span - degree >= 0',
                  'span + degree + 1 <= len(knots) - 1', LOCAL_SORTED, 'knots[span] < knots[span + 1]'],
        modifies=['ders'],
        ensures=['forall(0, degree + 1, lambda r: ders[r] == dN(knots, span, x, span - degree + r, degree))',
                 'forall(degree + 1, shape(ders)[0], lambda r: ders[r] == old(ders)[r])',
                 'sum_(0, degree + 1, lambda m: ders[m]) == 0'],
        loops={
            'for j in range(1, degree)': dict(
                inv=['saved == degree * values[j - 1] / (knots[span + j] - knots[span + j - degree])',
                     'forall(0, j, lambda m: ders[m] == dN(knots, span, x, span - degree + m, degree))',
                     'forall(degree + 1, shape(ders)[0], lambda m: ders[m] == old(ders)[m])',
                     'sum_(0, j, lambda m: ders[m]) == -saved']),
        },
    ),
}

DOMAIN = ['degree >= 1', 'len(knots) >= 2 * degree + 2', SORTED,
          'forall(degree, len(knots) - degree - 1, lambda a: knots[a] < knots[a + 1])']


def B(der, knots, span, x, i, degree):
    return '(N({k}, {s}, {x}, {i}, {d}) if {der} == 0 else dN({k}, {s}, {x}, {i}, {d}))'.format(
        k=knots, s=span, x=x, i=i, d=degree, der=der)


def spline1d(x, span):
    return ('sum_(0, degree + 1, lambda j: coeffs[%s - degree + j] * %s)'
            % (span, B('der', 'knots', span, x, span + ' - degree + j', 'degree')))


SUMLOOP = {'for j in range(degree + 1)': dict(inv=['y == sum_(0, j, lambda m: coeffs[span - degree + m] * basis[m])'])}

CONTRACTS.update({
    F + '::nu_eval_spline_1d_scalar': dict(
        pure=True, returns='float', implements=['spline1d_scalar'],
        requires=DOMAIN + ['der == 0 or der == 1', 'len(coeffs) >= len(knots) - degree - 1'],
        # statement: the value (der=0) or first derivative (der=1) of sum_i c_i B_i at x
        ensures=['let(nu_find_span(knots, degree, x), lambda span: result == %s)' % spline1d('x', 'span')],
        loops=SUMLOOP,
    ),
    F + '::nu_eval_spline_1d_vector': dict(
        requires=DOMAIN + ['der == 0 or der == 1', 'len(coeffs) >= len(knots) - degree - 1', 'len(y) >= len(x)'],
        modifies=['y'],
        ensures=['forall(0, len(x), lambda i: let(nu_find_span(knots, degree, x[i]), lambda span: y[i] == %s))'
                 % spline1d('x[i]', 'span'),
                 'forall(len(x), len(y), lambda i: y[i] == old(y)[i])'],
        loops={
            'for (i, xi) in enumerate(x)': dict(
                inv=['forall(0, i, lambda k: let(nu_find_span(knots, degree, x[k]), lambda span: y[k] == %s))'
                     % spline1d('x[k]', 'span'),
                     'forall(len(x), len(y), lambda k: y[k] == old(y)[k])', 'der == 0']),
            'for j in range(degree + 1)': dict(
                inv=['forall(0, i, lambda k: let(nu_find_span(knots, degree, x[k]), lambda span: y[k] == %s))'
                     % spline1d('x[k]', 'span'),
                     'forall(len(x), len(y), lambda k: y[k] == old(y)[k])',
                     'y[i] == sum_(0, j, lambda m: coeffs[span - degree + m] * basis[m])']),
            'for (i, xi) in enumerate(x) #2': dict(
                inv=['forall(0, i, lambda k: let(nu_find_span(knots, degree, x[k]), lambda span: y[k] == %s))'
                     % spline1d('x[k]', 'span'),
                     'forall(len(x), len(y), lambda k: y[k] == old(y)[k])', 'der == 1']),
            'for j in range(degree + 1) #2': dict(
                inv=['forall(0, i, lambda k: let(nu_find_span(knots, degree, x[k]), lambda span: y[k] == %s))'
                     % spline1d('x[k]', 'span'),
                     'forall(len(x), len(y), lambda k: y[k] == old(y)[k])',
                     'y[i] == sum_(0, j, lambda m: coeffs[span - degree + m] * basis[m])']),
        },
    ),
})
