"""Contracts for the spline evaluation kernels (property C07).

Spec: Cox-de Boor recursion restricted to the non-vanishing basis functions of span s
(avoids 0/0); N is an uninterpreted function whose defining equation is instantiated at the
applications that occur in a VC.
"""
F = 'pygyro/splines/spline_eval_funcs.py'

SPECS = [
    ('N', [('T', 'arr1'), ('s', 'int'), ('x', 'real'), ('i', 'int'), ('q', 'int')], 'real',
     '1.0 if q <= 0 else ('
     '((x - T[i]) * (N(T, s, x, i, q - 1) / (T[i + q] - T[i])) if i >= s - q + 1 else 0.0)'
     ' + ((T[i + q + 1] - x) * (N(T, s, x, i + 1, q - 1) / (T[i + q + 1] - T[i + 1])) if i + 1 <= s else 0.0))'),
    ('dN', [('T', 'arr1'), ('s', 'int'), ('x', 'real'), ('i', 'int'), ('p', 'int')], 'real',
     '((p * N(T, s, x, i, p - 1)) / (T[i + p] - T[i]) if i >= s - p + 1 else 0.0)'
     ' - ((p * N(T, s, x, i + 1, p - 1)) / (T[i + p + 1] - T[i + 1]) if i + 1 <= s else 0.0)'),
]

SORTED = 'forall(0, len(knots), 0, len(knots), lambda a, b: implies(a <= b, knots[a] <= knots[b]))'
LOCAL_SORTED = ('forall(span - degree, span + degree + 2, span - degree, span + degree + 2, '
                'lambda a, b: implies(a <= b, knots[a] <= knots[b]))')

CONTRACTS = {
    F + '::nu_find_span': dict(
        pure=True, returns='int',
        requires=['degree >= 0', 'len(knots) >= 2 * degree + 2', SORTED,
                  'forall(degree, len(knots) - degree - 1, lambda a: knots[a] < knots[a + 1])'],
        ensures=['degree <= result', 'result <= len(knots) - degree - 2',
                 'knots[result] < knots[result + 1]',
                 'implies(knots[degree] <= x and x <= knots[len(knots) - 1 - degree], '
                 'knots[result] <= x and x <= knots[result + 1])',
                 # the right end point belongs to the last span, every other point to the half-open span
                 'implies(knots[degree] <= x and x < knots[len(knots) - 1 - degree], x < knots[result + 1])'],
        loops={
            'while x < knots[span] or x >= knots[span + 1]': dict(
                inv=['degree <= low', 'low < high', 'high <= len(knots) - 1 - degree',
                     'knots[low] <= x', 'x < knots[high]', 'span == (low + high) // 2'],
                decreases='high - low'),
        },
    ),
    F + '::nu_basis_funs': dict(
        requires=['degree >= 0', 'shape(values)[0] >= degree + 1', 'span - degree >= 0',
                  'span + degree + 1 <= len(knots) - 1', LOCAL_SORTED, 'knots[span] < knots[span + 1]'],
        modifies=['values'],
        ensures=['forall(0, degree + 1, lambda r: values[r] == N(knots, span, x, span - degree + r, degree))',
                 'forall(degree + 1, shape(values)[0], lambda r: values[r] == old(values)[r])',
                 # partition of unity and non-negativity (the latter for x inside the span)
                 'sum_(0, degree + 1, lambda m: values[m]) == 1',
                 'implies(knots[span] <= x and x <= knots[span + 1], forall(0, degree + 1, lambda r: values[r] >= 0))'],
        loops={
            'for j in range(0, degree)': dict(
                inv=['sum_(0, j + 1, lambda m: values[m]) == 1',
                     'implies(knots[span] <= x and x <= knots[span + 1], forall(0, j + 1, lambda m: values[m] >= 0))',
                     'forall(0, j + 1, lambda m: values[m] == N(knots, span, x, span - j + m, j))',
                     'forall(0, j, lambda m: left[m] == x - knots[span - m] and right[m] == knots[span + 1 + m] - x)',
                     'forall(degree + 1, shape(values)[0], lambda m: values[m] == old(values)[m])']),
            'for r in range(0, j + 1)': dict(
                inv=['sum_(0, r, lambda m: values[m]) + saved + sum_(r, j + 1, lambda m: values[m]) == 1',
                     'implies(knots[span] <= x and x <= knots[span + 1], saved >= 0 and forall(0, j + 1, lambda m: values[m] >= 0))',
                     'forall(0, j + 1, lambda m: left[m] == x - knots[span - m] and right[m] == knots[span + 1 + m] - x)',
                     'forall(0, r, lambda m: values[m] == N(knots, span, x, span - (j + 1) + m, j + 1))',
                     'forall(r, j + 1, lambda m: values[m] == N(knots, span, x, span - j + m, j))',
                     'saved == (0.0 if r == 0 else (x - knots[span - j + r - 1]) * '
                     '(N(knots, span, x, span - j + r - 1, j) / (knots[span + r] - knots[span - j + r - 1])))',
                     'forall(degree + 1, shape(values)[0], lambda m: values[m] == old(values)[m])']),
        },
    ),
    F + '::nu_basis_funs_1st_der': dict(
        requires=['degree >= 1', 'shape(ders)[0] >= degree + 1', 'span - degree >= 0',
                  'span + degree + 1 <= len(knots) - 1', LOCAL_SORTED, 'knots[span] < knots[span + 1]'],
        modifies=['ders'],
        ensures=['forall(0, degree + 1, lambda r: ders[r] == dN(knots, span, x, span - degree + r, degree))',
                 'forall(degree + 1, shape(ders)[0], lambda r: ders[r] == old(ders)[r])',
                 'sum_(0, degree + 1, lambda m: ders[m]) == 0'],
        loops={
            'for j in range(1, degree)': dict(
                inv=['saved == degree * values[j - 1] / (knots[span + j] - knots[span + j - degree])',
                     'forall(0, j, lambda m: ders[m] == dN(knots, span, x, span - degree + m, degree))',
                     'forall(degree + 1, shape(ders)[0], lambda m: ders[m] == old(ders)[m])',
                     'sum_(0, j, lambda m: ders[m]) == -saved']),
        },
    ),
}

DOMAIN = ['degree >= 1', 'len(knots) >= 2 * degree + 2', SORTED,
          'forall(degree, len(knots) - degree - 1, lambda a: knots[a] < knots[a + 1])']


def B(der, knots, span, x, i, degree):
    return '(N({k}, {s}, {x}, {i}, {d}) if {der} == 0 else dN({k}, {s}, {x}, {i}, {d}))'.format(
        k=knots, s=span, x=x, i=i, d=degree, der=der)


def spline1d(x, span):
    return ('sum_(0, degree + 1, lambda j: coeffs[%s - degree + j] * %s)'
            % (span, B('der', 'knots', span, x, span + ' - degree + j', 'degree')))


SUMLOOP = {'for j in range(degree + 1)': dict(inv=['y == sum_(0, j, lambda m: coeffs[span - degree + m] * basis[m])'])}

CONTRACTS.update({
    F + '::nu_eval_spline_1d_scalar': dict(
        pure=True, returns='float', implements=['spline1d_scalar'],
        requires=DOMAIN + ['der == 0 or der == 1', 'len(coeffs) >= len(knots) - degree - 1'],
        # statement: the value (der=0) or first derivative (der=1) of sum_i c_i B_i at x
        ensures=['let(nu_find_span(knots, degree, x), lambda span: result == %s)' % spline1d('x', 'span')],
        loops=SUMLOOP,
    ),
    F + '::nu_eval_spline_1d_vector': dict(
        implements=['spline1d_vector'],
        requires=DOMAIN + ['der == 0 or der == 1', 'len(coeffs) >= len(knots) - degree - 1', 'len(y) >= len(x)'],
        modifies=['y'],
        ensures=['forall(0, len(x), lambda i: let(nu_find_span(knots, degree, x[i]), lambda span: y[i] == %s))'
                 % spline1d('x[i]', 'span'),
                 'forall(len(x), len(y), lambda i: y[i] == old(y)[i])'],
        loops={
            'for (i, xi) in enumerate(x)': dict(
                inv=['forall(0, i, lambda k: let(nu_find_span(knots, degree, x[k]), lambda span: y[k] == %s))'
                     % spline1d('x[k]', 'span'),
                     'forall(len(x), len(y), lambda k: y[k] == old(y)[k])', 'der == 0']),
            'for j in range(degree + 1)': dict(
                inv=['forall(0, i, lambda k: let(nu_find_span(knots, degree, x[k]), lambda span: y[k] == %s))'
                     % spline1d('x[k]', 'span'),
                     'forall(len(x), len(y), lambda k: y[k] == old(y)[k])',
                     'y[i] == sum_(0, j, lambda m: coeffs[span - degree + m] * basis[m])']),
            'for (i, xi) in enumerate(x) #2': dict(
                inv=['forall(0, i, lambda k: let(nu_find_span(knots, degree, x[k]), lambda span: y[k] == %s))'
                     % spline1d('x[k]', 'span'),
                     'forall(len(x), len(y), lambda k: y[k] == old(y)[k])', 'der == 1']),
            'for j in range(degree + 1) #2': dict(
                inv=['forall(0, i, lambda k: let(nu_find_span(knots, degree, x[k]), lambda span: y[k] == %s))'
                     % spline1d('x[k]', 'span'),
                     'forall(len(x), len(y), lambda k: y[k] == old(y)[k])',
                     'y[i] == sum_(0, j, lambda m: coeffs[span - degree + m] * basis[m])']),
        },
    ),
})


# ---------------------------------------------------------------------------
# 2-D entry points
# ---------------------------------------------------------------------------

def dom2(k, d):
    return ['{d} >= 1'.format(d=d), 'len({k}) >= 2 * {d} + 2'.format(k=k, d=d),
            'forall(0, len({k}), 0, len({k}), lambda a, b: implies(a <= b, {k}[a] <= {k}[b]))'.format(k=k),
            'forall({d}, len({k}) - {d} - 1, lambda a: {k}[a] < {k}[a + 1])'.format(k=k, d=d)]


DOMAIN2 = dom2('kts1', 'deg1') + dom2('kts2', 'deg2') + [
    'der1 == 0 or der1 == 1', 'der2 == 0 or der2 == 1',
    'shape(coeffs)[0] >= len(kts1) - deg1 - 1', 'shape(coeffs)[1] >= len(kts2) - deg2 - 1']


def spline2d(x, y, s1='s1', s2='s2'):
    """sum_a sum_b c[s1-d1+a, s2-d2+b] * B2_b(y) * B1_a(x)  (association of the code: inner sum first)."""
    b1 = B('der1', 'kts1', s1, x, s1 + ' - deg1 + a', 'deg1')
    b2 = B('der2', 'kts2', s2, y, s2 + ' - deg2 + b', 'deg2')
    return ('sum_(0, deg1 + 1, lambda a: sum_(0, deg2 + 1, lambda b: coeffs[%s - deg1 + a, %s - deg2 + b] * %s) * %s)'
            % (s1, s2, b2, b1))


def with_spans(x, y, body):
    return ('let(nu_find_span(kts1, deg1, %s), lambda s1: let(nu_find_span(kts2, deg2, %s), lambda s2: %s))' % (x, y, body))


def contraction_loops(outer, inner, acc, io, ii, extra_outer=(), extra_inner=(), suffix=''):
    """Invariants of the tensor contraction  acc = sum_a (sum_b tc[a,b]*basis2[b]) * basis1[a]  written in place
    in column 0 of theCoeffs. outer/inner: loop fingerprints; io/ii: their index names."""
    rows_after = 'forall({io} + 1, deg1 + 1, 0, deg2 + 1, lambda a, b: theCoeffs[a, b] == tc0[a, b])'.format(io=io)
    return {
        outer + suffix: dict(
            ghost={'tc0': 'theCoeffs'},
            inv=['{acc} == sum_(0, {io}, lambda a: sum_(0, deg2 + 1, lambda b: tc0[a, b] * basis2[b]) * basis1[a])'.format(acc=acc, io=io),
                 'forall({io}, deg1 + 1, 0, deg2 + 1, lambda a, b: theCoeffs[a, b] == tc0[a, b])'.format(io=io)]
            + list(extra_outer)),
        inner + suffix: dict(
            inv=[rows_after,
                 'forall(1, deg2 + 1, lambda b: theCoeffs[{io}, b] == tc0[{io}, b])'.format(io=io),
                 'theCoeffs[{io}, 0] == sum_(0, {ii}, lambda b: tc0[{io}, b] * basis2[b])'.format(io=io, ii=ii)]
            + list(extra_inner)),
    }


CONTRACTS.update({
    F + '::nu_eval_spline_2d_scalar': dict(
        pure=True, returns='float', implements=['spline2d_scalar'],
        requires=DOMAIN2,
        ensures=[with_spans('x', 'y', 'result == ' + spline2d('x', 'y'))],
        loops=contraction_loops('for i in range(deg1 + 1)', 'for j in range(1, deg2 + 1)', 'z', 'i', 'j'),
    ),
})


def _sfx(n):
    return '' if n == 0 else ' #%d' % (n + 1)


def S_cross(p, q):
    return with_spans('X[%s]' % p, 'Y[%s]' % q, 'z[%s, %s] == %s' % (p, q, spline2d('X[%s]' % p, 'Y[%s]' % q)))


def cross_loops(spans=True, S=S_cross):
    loops = {}
    done_rows = 'forall(0, i, 0, len(Y), lambda p, q: %s)' % S('p', 'q')
    done_cols = 'forall(0, j, lambda q: %s)' % S('i', 'q')
    for n in range(4):
        loops['for (i, x) in enumerate(X)' + _sfx(n)] = dict(inv=[done_rows])
        loops['for (j, y) in enumerate(Y)' + _sfx(n)] = dict(inv=[done_rows, done_cols])
        loops.update(contraction_loops('for k in range(deg1 + 1)', 'for l in range(1, deg2 + 1)', 'z[i, j]', 'k', 'l',
                                       extra_outer=[done_rows, done_cols], extra_inner=[done_rows, done_cols,
                                       'z[i, j] == sum_(0, k, lambda a: sum_(0, deg2 + 1, lambda b: tc0[a, b] * basis2[b]) * basis1[a])'],
                                       suffix=_sfx(n)))
    return loops


def S_vec(p):
    return with_spans('x[%s]' % p, 'y[%s]' % p, 'z[%s] == %s' % (p, spline2d('x[%s]' % p, 'y[%s]' % p)))


def vector_loops(S=S_vec):
    loops = {}
    done = 'forall(0, i, lambda p: %s)' % S('p')
    for n in range(4):
        loops['for i in range(len(x))' + _sfx(n)] = dict(inv=[done])
        loops.update(contraction_loops('for j in range(deg1 + 1)', 'for k in range(1, deg2 + 1)', 'z[i]', 'j', 'k',
                                       extra_outer=[done], extra_inner=[done,
                                       'z[i] == sum_(0, j, lambda a: sum_(0, deg2 + 1, lambda b: tc0[a, b] * basis2[b]) * basis1[a])'],
                                       suffix=_sfx(n)))
    return loops


CONTRACTS.update({
    F + '::nu_eval_spline_2d_cross': dict(
        implements=['spline2d_cross'],
        requires=DOMAIN2 + ['shape(z)[0] >= len(X)', 'shape(z)[1] >= len(Y)'],
        modifies=['z'],
        ensures=['forall(0, len(X), 0, len(Y), lambda p, q: %s)' % S_cross('p', 'q')],
        loops=cross_loops(),
    ),
    F + '::nu_eval_spline_2d_vector': dict(
        requires=DOMAIN2 + ['len(y) >= len(x)', 'len(z) >= len(x)'],
        modifies=['z'],
        ensures=['forall(0, len(x), lambda p: %s)' % S_vec('p')],
        loops=vector_loops(),
    ),
})
