from .layout_redirect import swapper_cases, SPECS, CONTRACTS  # noqa


def cases(tier, rng=None):
    return swapper_cases()
