"""Contracts for LayoutSwapper._transpose / _transpose_source_intact (C03): the three single-step branches between layout groups
that are distributed over different numbers of communicators, in the flat-buffer model of vf/flat.py.

  same     both groups distributed alike            -> in-process np.transpose
  scatter  destination distributed over one more communicator   -> local slice + transpose (no communication)
  gather   destination distributed over one fewer   -> Allgather of padded blocks + per-member unpacking loop (+ final copy)

One structural case = (rank, the two orderings, the communicator lists of the two handlers).  Extents, process counts, block
lengths / starts and the rank are symbolic.  The postcondition is the property: every local position of the destination block
holds the global field (uninterpreted function of the global index) at its global index.
"""
from .transpose_helpers import layout_spec, field_at, LEMMAS as TILING_LEMMAS  # noqa

L = 'pygyro/model/layout.py'
FLAT_MODE = True
SPECS = []
CONTRACTS = {}
LEMMAS = []     # the tiling lemmas are proved in vf.contracts.transpose_helpers (C01); C03 lists them too
LEMMAS = list(TILING_LEMMAS)


def handler_spec(comms):
    return {'__class__': L + '::LayoutHandler', '_nDims': ('const', len(comms)), '_subcomms': ('list', ['comm:' + c for c in comms])}


def swapper_spec(comms_src, comms_dst):
    return {'__class__': L + '::LayoutSwapper', '_managers': ('list', [handler_spec(comms_src), handler_spec(comms_dst)]),
            '_handlers': {'__dict__': {'src': ('const', 0), 'dst': ('const', 1)}}}


def common(R, order_src, order_dst):
    S = ['layout_source._shape[%d]' % k for k in range(R)]
    D = ['layout_dest._shape[%d]' % k for k in range(R)]
    T = [list(order_src).index(d) for d in order_dst]          # destView = np.transpose(sourceView, T): D[k] = S[T[k]]
    return S, D, T


def box(names, ext):
    b = []
    for k in range(len(ext)):
        b += ['0', ext[k]]
    return ', '.join(b)


def starts_consistent(R, order_src, order_dst, skip_dim):
    out = []
    for d in range(R):
        if d == skip_dim:
            continue
        out.append('layout_source._starts[%d] == layout_dest._starts[%d]' % (list(order_src).index(d), list(order_dst).index(d)))
    return out


def params(R, order_src, order_dst, comms_src, comms_dst, intact):
    p = {'self': swapper_spec(comms_src, comms_dst), 'source': 'arr1', 'dest': 'arr1',
         'layout_source': layout_spec(R, order_src, 'src'), 'layout_dest': layout_spec(R, order_dst, 'dst')}
    if intact:
        p['buf'] = 'arr1'
    return p


def same_contract(R, order_src, order_dst, comms, intact):
    S, D, T = common(R, order_src, order_dst)
    jv = ['j%d' % k for k in range(R)]
    iv = [None] * R
    for k in range(R):
        iv[T[k]] = jv[k]
    sstarts = ['layout_source._starts[%d]' % k for k in range(R)]
    dstarts = ['layout_dest._starts[%d]' % k for k in range(R)]
    iS = ['i%d' % k for k in range(R)]
    req = ['layout_source._size == prodof([%s]) and layout_source._size <= len(source)' % ', '.join(S),
           'layout_dest._size == prodof([%s]) and layout_dest._size <= len(dest)' % ', '.join(D)]
    req += ['%s >= 0 and %s == %s' % (D[k], D[k], S[T[k]]) for k in range(R)]
    req += starts_consistent(R, order_src, order_dst, None)
    req.append('forall(%s, lambda %s: source[flatidx([%s], [%s])] == %s)' % (
        box(iS, S), ', '.join(iS), ', '.join(S), ', '.join(iS), field_at(order_src, sstarts, iS)))
    ens = ['forall(%s, lambda %s: dest[flatidx([%s], [%s])] == %s)' % (
        box(jv, D), ', '.join(jv), ', '.join(D), ', '.join(jv), field_at(order_dst, dstarts, jv))]
    return dict(params=params(R, order_src, order_dst, comms, comms, intact), requires=req, ensures=ens, modifies=['dest'])


def axes(order_gathered, order_scattered, comms_gathered, comms_scattered):
    """LayoutSwapper.getAxes, concretely (for writing the contract; the code's own computation is executed by the engine)."""
    poss = list(comms_scattered)
    for c in comms_gathered:
        if c in poss:
            poss[poss.index(c)] = None
    idx_s = [k for k, c in enumerate(poss) if c is not None][0]
    idx_g = list(order_gathered).index(order_scattered[idx_s])
    return idx_g, idx_s


def scatter_contract(R, order_src, order_dst, comms_src, comms_dst, intact):
    """source gathered (fewer communicators), destination scattered: my block is a slice of what I already hold."""
    S, D, T = common(R, order_src, order_dst)
    idx_s, idx_d = axes(order_src, order_dst, comms_src, comms_dst)      # position in the source / in the destination
    comm = 'self._managers[1]._subcomms[%d]' % idx_d
    me = 'comm_rank(%s)' % comm
    LEN, ST = 'layout_dest._mpi_lengths[%d]' % idx_d, 'layout_dest._mpi_starts[%d]' % idx_d
    gd = order_dst[idx_d]
    assert order_src[idx_s] == gd and T[idx_d] == idx_s
    jv = ['j%d' % k for k in range(R)]
    iS = ['i%d' % k for k in range(R)]
    sstarts = ['layout_source._starts[%d]' % k for k in range(R)]
    sstarts[idx_s] = '0'
    dstarts = ['layout_dest._starts[%d]' % k for k in range(R)]
    req = ['layout_source._size == prodof([%s]) and layout_source._size <= len(source)' % ', '.join(S),
           'layout_dest._size == prodof([%s]) and layout_dest._size <= len(dest)' % ', '.join(D),
           'len(%s) == comm_size(%s) and len(%s) == comm_size(%s)' % (LEN, comm, ST, comm),
           '%s[%s] >= 0 and %s[%s] >= 0 and %s[%s] + %s[%s] <= %s' % (ST, me, LEN, me, ST, me, LEN, me, S[idx_s]),
           '%s == %s[%s]' % (D[idx_d], LEN, me),
           # the destination layout was built for this process: its start along the scattered direction is that of my rank
           'layout_dest._starts[%d] == %s[%s]' % (idx_d, ST, me), 'layout_source._starts[%d] == 0' % idx_s]
    req += ['%s >= 0' % S[k] for k in range(R)]
    req += ['%s >= 0' % D[k] for k in range(R)]
    req += ['%s == %s' % (D[k], S[T[k]]) for k in range(R) if k != idx_d]
    req += starts_consistent(R, order_src, order_dst, gd)
    req.append('forall(%s, lambda %s: source[flatidx([%s], [%s])] == %s)' % (
        box(iS, S), ', '.join(iS), ', '.join(S), ', '.join(iS), field_at(order_src, sstarts, iS)))
    ens = ['forall(%s, lambda %s: dest[flatidx([%s], [%s])] == %s)' % (
        box(jv, D), ', '.join(jv), ', '.join(D), ', '.join(jv), field_at(order_dst, dstarts, jv))]
    return dict(params=params(R, order_src, order_dst, comms_src, comms_dst, intact), requires=req, ensures=ens, modifies=['dest'])


def gather_contract(R, order_src, order_dst, comms_src, comms_dst, intact):
    """source scattered over one more communicator than the destination: Allgather of the padded blocks, then member by member
    the true block is cut out of its chunk, transposed and written to its place."""
    S, D, T = common(R, order_src, order_dst)
    idx_d, idx_s = axes(order_dst, order_src, comms_dst, comms_src)      # position in the destination / in the source
    comm = 'self._managers[0]._subcomms[%d]' % idx_s
    me = 'comm_rank(%s)' % comm
    P = 'comm_size(%s)' % comm
    LEN, ST = 'layout_source._mpi_lengths[%d]' % idx_s, 'layout_source._mpi_starts[%d]' % idx_s
    m = 'layout_source._max_shape[%d]' % idx_s
    gd = order_src[idx_s]
    assert order_dst[idx_d] == gd and T[idx_d] == idx_s
    pad = list(S)
    pad[idx_s] = m
    CHUNK = 'prodof([%s])' % ', '.join(pad)

    def S_of(r):
        x = list(S)
        x[idx_s] = '%s[%s]' % (LEN, r)
        return x
    jv = ['j%d' % k for k in range(R)]
    iS = ['i%d' % k for k in range(R)]
    rcv = 'buf' if intact else 'dest'
    tgt = 'dest' if intact else 'source'
    req = ['len(%s) == %s and len(%s) == %s' % (LEN, P, ST, P),
           '%s[0] == 0' % ST,
           'forall(0, %s - 1, lambda k: %s[k] + %s[k] == %s[k + 1])' % (P, ST, LEN, ST),
           '%s[%s - 1] + %s[%s - 1] == %s' % (ST, P, LEN, P, D[idx_d]),
           # closed forms of the tiling (lemmas tiling_ordered, tiling_bounded, tiling_covers)
           'forall(0, %s, lambda k2: forall(0, k2, lambda k1: %s[k1] + %s[k1] <= %s[k2]))' % (P, ST, LEN, ST),
           'forall(0, %s, lambda k: %s[k] + %s[k] <= %s and 0 <= %s[k])' % (P, ST, LEN, D[idx_d], ST),
           'forall(0, %s, lambda x: exists(0, %s, lambda r: %s[r] <= x and x < %s[r] + %s[r]))' % (D[idx_d], P, ST, ST, LEN),
           'forall(0, %s, lambda k: 0 <= %s[k] and %s[k] <= %s)' % (P, LEN, LEN, m),
           '%s == %s[%s]' % (S[idx_s], LEN, me),
           'layout_dest._size == prodof([%s])' % ', '.join(D),
           '%s <= len(source) and %s * %s <= len(%s) and layout_dest._size <= len(%s)' % (CHUNK, P, CHUNK, rcv, tgt),
           'layout_dest._starts[%d] == 0' % idx_d]
    if not intact:
        req.append('len(dest) == len(source)')
    req += ['%s >= 0' % S[k] for k in range(R)]
    req += ['%s >= 0' % D[k] for k in range(R)]
    req += ['%s == %s' % (D[k], S[T[k]]) for k in range(R) if k != idx_d]
    req += starts_consistent(R, order_src, order_dst, gd)
    # every member's send buffer (its source block, padded) holds the field in the source layout - the global precondition
    pst = ['layout_source._starts[%d]' % k for k in range(R)]
    pst[idx_s] = '%s[r]' % ST
    peers = 'forall(0, %s, lambda r: forall(%s, lambda %s: peer_send(%s, r)[flatidx([%s], [%s])] == %s))' % (
        P, box(iS, S_of('r')), ', '.join(iS), comm, ', '.join(S_of('r')), ', '.join(iS), field_at(order_src, pst, iS))
    req.append(peers)
    dstarts = ['layout_dest._starts[%d]' % k for k in range(R)]
    dstarts[idx_d] = '0'
    iv = [None] * R
    for k in range(R):
        iv[T[k]] = jv[k]

    def unpacked(rr, upto, target):
        ivr = list(iv)
        ivr[idx_s] = '%s - %s[%s]' % (jv[idx_d], ST, rr)
        return ('forall(0, {upto}, lambda {rr}: forall({db}, lambda {j}: implies({st}[{rr}] <= {jd} and {jd} < {st}[{rr}] + {ln}[{rr}], '
                '{tgt}[flatidx([{D}], [{j}])] == peer_send({comm}, {rr})[flatidx([{Sr}], [{i}])])))').format(
            upto=upto, rr=rr, db=box(jv, D), j=', '.join(jv), st=ST, ln=LEN, jd=jv[idx_d], tgt=target, D=', '.join(D), comm=comm,
            Sr=', '.join(S_of(rr)), i=', '.join(ivr))
    ens_r = ('forall(0, {P}, lambda r: forall({db}, lambda {j}: implies({st}[r] <= {jd} and {jd} < {st}[r] + {ln}[r], '
             'dest[flatidx([{D}], [{j}])] == {f})))').format(P=P, db=box(jv, D), j=', '.join(jv), st=ST, ln=LEN, jd=jv[idx_d],
                                                           D=', '.join(D), f=field_at(order_dst, dstarts, jv))
    ens = 'forall(%s, lambda %s: dest[flatidx([%s], [%s])] == %s)' % (
        box(jv, D), ', '.join(jv), ', '.join(D), ', '.join(jv), field_at(order_dst, dstarts, jv))
    loop = {'for (i, b) in enumerate(blocks[:-1])': dict(inv=[unpacked('rr', 'i', tgt)], case_split={'rr': ['i - 1']})}
    return dict(params=params(R, order_src, order_dst, comms_src, comms_dst, intact), requires=req, ensures=[ens_r, ens],
                modifies=['dest', 'buf' if intact else 'source'], allgather=(CHUNK, S_of('r')), loops=loop)


def cases(tier, rng=None):
    out = []
    # (orderings, communicator lists) - source first
    gathers = [((0, 1, 2), (0, 2, 1), ['c0', 'c1'], ['c0']),          # the driver's 3-D grouping: [[p0,p1],[p0]]
               ((0, 2, 1, 3), (0, 3, 1, 2), ['c0', 'c1'], ['c0']),    # 4-D analogue
               ((1, 0, 2), (2, 1, 0), ['c0'], []),                    # 1-D distributed -> replicated
               ((0, 1, 2), (1, 0, 2), ['c0', 'c1'], ['c1']),          # the communicator that stays is the second one
               ((0, 1), (0, 1), ['c0', 'c1'], ['c0'])]                # rank 2, orderings equal
    sames = [((0, 1, 2), (0, 2, 1), ['c0']), ((0, 1, 2, 3), (0, 2, 3, 1), ['c0']), ((0, 1, 2), (0, 1, 2), ['c0', 'c1'])]
    if tier == 'quick':
        gathers = gathers[:1] + gathers[3:4]
        sames = sames[:1]
    for (oa, ob, ca, cb) in gathers:
        for intact in (False, True):
            fn = '_transpose_source_intact' if intact else '_transpose'
            key = L + '::LayoutSwapper.' + fn
            nm = '%s->%s %s->%s' % (''.join(map(str, oa)), ''.join(map(str, ob)), '+'.join(ca), '+'.join(cb) or 'none')
            out.append(dict(label='%s gather %s' % (fn, nm), struct=None, key=key,
                            contracts={key: gather_contract(len(oa), list(oa), list(ob), ca, cb, intact)}))
            # the same pair the other way round is a scatter
            nm2 = '%s->%s %s->%s' % (''.join(map(str, ob)), ''.join(map(str, oa)), '+'.join(cb) or 'none', '+'.join(ca))
            out.append(dict(label='%s scatter %s' % (fn, nm2), struct=None, key=key,
                            contracts={key: scatter_contract(len(oa), list(ob), list(oa), cb, ca, intact)}))
    # getAxes on its own: the communicator of the scattered group that the gathered group lacks, and the layout axis of the
    # gathered layout that holds the dimension distributed over it
    ga = [((0, 2, 1), (0, 1, 2), ['c0'], ['c0', 'c1']), ((1, 0, 2), (0, 1, 2), ['c1'], ['c0', 'c1']), ((2, 1, 0), (1, 0, 2), [], ['c0']),
          ((0, 3, 1, 2), (0, 2, 1, 3), ['c0'], ['c0', 'c1']), ((2, 0, 1), (0, 1, 2), ['c1'], ['c0', 'c1'])]
    for (og, os_, cg, cs) in (ga[:3] if tier == 'quick' else ga):
        key = L + '::LayoutSwapper.getAxes'
        ig, is_ = axes(og, os_, cg, cs)
        sw = {'__class__': L + '::LayoutSwapper', '_managers': ('list', [handler_spec(cg), handler_spec(cs)]),
              '_handlers': {'__dict__': {'gathered': ('const', 0), 'scattered': ('const', 1)}}}
        C = {key: dict(params={'self': sw, 'layout_gathered': layout_spec(len(og), list(og), 'gathered'),
                               'layout_scattered': layout_spec(len(os_), list(os_), 'scattered')},
                       requires=[], modifies=[], ensures=['result[0] == %d and result[1] == %d' % (ig, is_),
                                                          # the dimension on the two axes is the same one
                                                          'layout_gathered._dims_order[result[0]] == layout_scattered._dims_order[result[1]]'])}
        out.append(dict(label='getAxes %s/%s %s/%s' % (''.join(map(str, og)), ''.join(map(str, os_)), '+'.join(cg) or 'none', '+'.join(cs)),
                        struct=None, key=key, contracts=C))
    for (oa, ob, ca) in sames:
        for intact in (False, True):
            fn = '_transpose_source_intact' if intact else '_transpose'
            key = L + '::LayoutSwapper.' + fn
            nm = '%s->%s %s' % (''.join(map(str, oa)), ''.join(map(str, ob)), '+'.join(ca))
            out.append(dict(label='%s same %s' % (fn, nm), struct=None, key=key,
                            contracts={key: same_contract(len(oa), list(oa), list(ob), ca, intact)}))
    return out
