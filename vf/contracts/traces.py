"""2-safety contracts for property C06: every member of a communicator issues the same collective sequence.

A function is executed in the *trace abstraction* (ctx.trace_mode): rank-local data are opaque and every branch on them is
explored both ways; collectives append (communicator, operation, op / root) to a ghost trace. The contract states the
trace as a function of the arguments that are uniform over the communicator (roots, names, flags). Since every path of
every rank must produce that one trace, any two ranks agree.
"""
GR = 'pygyro/model/grid.py'
LY = 'pygyro/model/layout.py'
DC = 'pygyro/diagnostics/diagnostic_collector.py'
SV = 'pygyro/utilities/savingTools.py'

SPECS = []
CONTRACTS = {}
TRACE_MODE = True


def grid_self(inv=(0, 1, 2, 3)):
    return {'__class__': GR + '::Grid', 'global_comm': 'comm', '_f': 'opaque',
            '_layout': {'__class__': LY + '::Layout', '_inv_dims_order': ('const', tuple(inv)), '_starts': 'opaque', '_ends': 'opaque'},
            '_layout_manager': 'opaque'}


def cases(tier, rng=None):
    out = []
    for fn, op, in (('getMin', 'MPI.MIN'), ('getMax', 'MPI.MAX')):
        for variant in ('local', 'whole', 'slice1', 'slice2'):
            params = {'self': grid_self()}
            if variant == 'local':
                params.update(drawingRank=('const', None), axis=('const', None), fixValue=('const', None))
                ens = ['coll_trace() == []']
            else:
                params['drawingRank'] = 'int'
                if variant == 'whole':
                    params.update(axis=('const', None), fixValue=('const', None))
                elif variant == 'slice1':
                    params.update(axis='int', fixValue='int')
                else:
                    params.update(axis='list2int', fixValue='list2int')
                # exactly one reduce on the grid communicator with the same op and root on every path (empty block, no data in
                # the requested slice, data): rank-local conditions must not change the sequence
                ens = ['coll_trace() == [("self.global_comm", "reduce", "%s", drawingRank)]' % op]
            req = ['0 <= axis and axis < 4'] if variant == 'slice1' else (
                ['0 <= axis[0] and axis[0] < 4 and 0 <= axis[1] and axis[1] < 4'] if variant == 'slice2' else [])
            C = {GR + '::Grid.' + fn: dict(params=params, requires=req, ensures=ens, modifies=[])}
            out.append(dict(label='%s %s' % (fn, variant), struct=None, key=GR + '::Grid.' + fn, contracts=C))
    # DiagnosticCollector.reduce: seven reductions with fixed ops and root 0, independent of the rank
    dc_self = {'__class__': DC + '::DiagnosticCollector', 'comm': 'comm', 'rank': 'opaque', 'diagnostics': 'opaque',
               'l2PhiResult': 'opaque', 'l2GridResult': 'opaque', 'l1Result': 'opaque', 'nPartResult': 'opaque', 'min_val': 'opaque',
               'max_val': 'opaque', 'KE_val': 'opaque'}
    ops = ['MPI.SUM', 'MPI.SUM', 'MPI.SUM', 'MPI.SUM', 'MPI.MIN', 'MPI.MAX', 'MPI.SUM']
    C = {DC + '::DiagnosticCollector.reduce': dict(
        params={'self': dc_self}, requires=[], modifies=[],
        ensures=['coll_trace() == [%s]' % ', '.join('("self.comm", "Reduce", "%s", 0)' % o for o in ops)])}
    out.append(dict(label='DiagnosticCollector.reduce', struct=None, key=DC + '::DiagnosticCollector.reduce', contracts=C))
    # setupSave: the broadcast is issued by the root and by every other rank iff no folder name was given (uniform argument)
    for given in (False, True):
        C = {SV + '::setupSave': dict(
            params={'constants': 'opaque', 'foldername': ('const', 'given_folder' if given else None), 'comm': 'comm', 'root': 'int'},
            requires=[], modifies=[],
            ensures=['coll_trace() == %s' % ('[]' if given else '[("comm", "bcast", root)]')])}
        out.append(dict(label='setupSave folder %s' % ('given' if given else 'None'), struct=None, key=SV + '::setupSave', contracts=C))
    # getBlockForFig: gather then Gatherv with the same root on the root path and on the other path, with or without local data
    for nd in (1, 2):
        dims = [('const', None)] * 4
        C = {GR + '::Grid.getBlockForFig': dict(
            params={'self': grid_self(), 'dims': ('const', [None, None, range(2, 3), None][:4] if nd == 1 else [range(0, 1), None, range(2, 5), None]),
                    'comm': 'comm', 'rank': 'int'},
            requires=[], modifies=[],
            ensures=['coll_trace() == [("comm", "gather", rank), ("comm", "Gatherv", rank)]'])}
        out.append(dict(label='getBlockForFig %d fixed dims' % nd, struct=None, key=GR + '::Grid.getBlockForFig', contracts=C))
    # single-step transposes: exactly one Alltoall on the sub-communicator of the one distributed position whose dimension
    # changes, none when no distributed dimension changes -- a function of the orderings and of the process-grid pattern only
    std = {'flux_surface': (0, 3, 1, 2), 'v_parallel': (0, 2, 1, 3), 'poloidal': (3, 2, 1, 0)}

    def lay(name):
        return {'__class__': LY + '::Layout', '_name': ('const', name), '_dims_order': ('const', std[name]), '_ndims': ('const', 4),
                '_shape': 'opaque', '_size': 'opaque', '_max_shape': 'opaque', '_nprocs': 'opaque', '_mpi_lengths': 'opaque',
                '_mpi_starts': 'opaque', '_starts': 'opaque', '_ends': 'opaque'}
    for (a, b) in (('flux_surface', 'v_parallel'), ('v_parallel', 'flux_surface'), ('v_parallel', 'poloidal'), ('poloidal', 'v_parallel')):
        for pat in ('22', '21', '12', '11'):
            req = ['self._nprocsList[%d] %s' % (k, '>= 2' if c == '2' else '== 1') for k, c in enumerate(pat)]
            diff = [k for k in range(2) if std[a][k] != std[b][k] and pat[k] == '2']
            exp = '[("self._subcomms[%d]", "Alltoall")]' % diff[0] if diff else '[]'
            for meth, extra in (('_transpose', {}), ('_transpose_source_intact', {'buf': 'opaque'})):
                hs = {'__class__': LY + '::LayoutHandler', '_nprocsList': 'list2int', '_subcomms': ('list', ['comm', 'comm'])}
                params = {'self': hs, 'source': 'opaque', 'dest': 'opaque', 'layout_source': lay(a), 'layout_dest': lay(b)}
                params.update(extra)
                C = {LY + '::LayoutHandler.' + meth: dict(params=params, requires=req, ensures=['coll_trace() == ' + exp], modifies=[])}
                out.append(dict(label='%s %s->%s grid pattern %s' % (meth, a, b, pat), struct=None, key=LY + '::LayoutHandler.' + meth,
                                contracts=C))
    # LayoutSwapper single steps: the gather branch issues exactly one Allgather, on the communicator of the source group that the
    # destination group lacks; scatter and same-distribution steps issue none - a function of the two groups only
    def slay(name, order):
        R = len(order)
        return {'__class__': LY + '::Layout', '_name': ('const', name), '_dims_order': ('const', tuple(order)), '_ndims': ('const', R),
                '_shape': 'opaque', '_size': 'opaque', '_max_shape': 'opaque', '_nprocs': 'opaque', '_mpi_lengths': 'opaque',
                '_mpi_starts': 'opaque', '_starts': 'opaque', '_ends': 'opaque'}

    def hnd(comms):
        return {'__class__': LY + '::LayoutHandler', '_nDims': ('const', len(comms)), '_subcomms': ('list', ['comm:' + c for c in comms])}
    for (oa, ob, ca, cb) in (((0, 1, 2), (0, 2, 1), ['c0', 'c1'], ['c0']), ((0, 1, 2), (1, 0, 2), ['c0', 'c1'], ['c1']),
                             ((1, 0, 2), (2, 1, 0), ['c0'], []), ((0, 2, 1), (0, 1, 2), ['c0'], ['c0', 'c1']),
                             ((0, 1, 2), (0, 2, 1), ['c0'], ['c0'])):
        if len(ca) > len(cb):
            lost = [k for k, c in enumerate(ca) if c not in cb][0]
            exp = '[("%s", "Allgather")]' % ca[lost]
        else:
            exp = '[]'
        for meth, extra in (('_transpose', {}), ('_transpose_source_intact', {'buf': 'opaque'})):
            sw = {'__class__': LY + '::LayoutSwapper', '_managers': ('list', [hnd(ca), hnd(cb)]),
                  '_handlers': {'__dict__': {'src': ('const', 0), 'dst': ('const', 1)}}}
            params = {'self': sw, 'source': 'opaque', 'dest': 'opaque', 'layout_source': slay('src', oa), 'layout_dest': slay('dst', ob)}
            params.update(extra)
            C = {LY + '::LayoutSwapper.' + meth: dict(params=params, requires=[], ensures=['coll_trace() == ' + exp], modifies=[])}
            out.append(dict(label='swapper %s %s->%s %s->%s' % (meth, ''.join(map(str, oa)), ''.join(map(str, ob)), '+'.join(ca) or 'none',
                                                            '+'.join(cb) or 'none'),
                            struct=None, key=LY + '::LayoutSwapper.' + meth, contracts=C))
    return out
