"""Contracts for LayoutHandler._extract_from_source / _rearrange_from_buffer (C01 steps 2-4) over flat buffers seen
through C-order lenses (vf/flat.py).  One structural case = (rank, source ordering, destination ordering, which of the
leading positions are distributed); extents, process counts, block lengths and starts are symbolic."""
L = 'pygyro/model/layout.py'
FLAT_MODE = True
SPECS = []
CONTRACTS = {}

TILING = ['len(st) == p and len(ln) == p', 'p >= 1', 'st[0] == 0', 'forall(0, p - 1, lambda k: st[k] + ln[k] == st[k + 1])',
          'st[p - 1] + ln[p - 1] == n', 'forall(0, p, lambda k: ln[k] >= 0)']
LEMMAS = [
    # the chain form of "the blocks tile [0, n) in rank order" (what Layout.__init__ is proved to establish, C02) gives the
    # closed forms the transpose helpers need: earlier blocks end before later ones start, every block ends inside [0, n]
    dict(name='tiling_ordered', vars=[('st', 'iarr1'), ('ln', 'iarr1'), ('p', 'int'), ('n', 'int')], requires=TILING,
         induct=dict(var='k2', lo='0', hi='p'),
         ensures=['forall(0, k2, lambda k1: st[k1] + ln[k1] <= st[k2])']),
    # every position of [0, n) lies in some block: induction on the number of blocks considered
    dict(name='tiling_covers', vars=[('st', 'iarr1'), ('ln', 'iarr1'), ('p', 'int'), ('n', 'int')], requires=TILING,
         induct=dict(var='k', lo='0', hi='p'),
         ensures=['forall(0, st[k] + ln[k], lambda x: exists(0, k + 1, lambda r: st[r] <= x and x < st[r] + ln[r]))']),
    dict(name='tiling_bounded', vars=[('st', 'iarr1'), ('ln', 'iarr1'), ('p', 'int'), ('n', 'int')],
         requires=TILING + ['forall(0, p, lambda k2: forall(0, k2, lambda k1: st[k1] + ln[k1] <= st[k2]))'],
         ensures=['forall(0, p, lambda k: st[k] + ln[k] <= n and 0 <= st[k])']),
]


def swap_axes(order_src, order_dst, pattern):
    """axis triple of LayoutHandler._get_swap_axes for a compatible pair (exactly one distributed position differs)."""
    diff = [k for k in range(len(pattern)) if pattern[k] == '2' and order_src[k] != order_dst[k]]
    assert len(diff) == 1
    a0 = diff[0]
    return [a0, order_src.index(order_dst[a0]), order_dst.index(order_src[a0])]


def layout_spec(R, order, name):
    return {'__class__': L + '::Layout', '_name': ('const', name), '_ndims': ('const', R), '_dims_order': ('const', tuple(order)),
            '_inv_dims_order': ('const', tuple(list(order).index(d) for d in range(R))),
            '_shape': 'tuple%dint' % R, '_max_shape': 'iarr1:%d' % R, '_nprocs': 'list%dint' % R,
            '_mpi_lengths': ('list', ['iarr1'] * R), '_mpi_starts': ('list', ['iarr1'] * R), '_size': 'int',
            '_starts': 'tuple%dint' % R}


def extract_contract(R, order_src, order_dst, pattern):
    a0, a1, a2 = swap_axes(order_src, order_dst, pattern)
    a1p = a0 if a1 == 0 else a1                         # position of axis a1 after the swap with position 0
    S = ['layout_source._shape[%d]' % k for k in range(R)]
    pad = list(S)
    pad[a0] = 'layout_source._max_shape[%d]' % a0
    pad[a1] = 'layout_dest._max_shape[%d]' % a0
    lens = list(pad)
    ext = list(S)                                       # extents written in block k (before the swap)
    if a0 != 0:
        lens[0], lens[a0] = lens[a0], lens[0]
        ext[0], ext[a0] = ext[a0], ext[0]
    LEN = 'layout_dest._mpi_lengths[%d]' % a0
    ST = 'layout_dest._mpi_starts[%d]' % a0
    P = 'len(%s)' % LEN
    SIZE = 'prodof([%s])' % ', '.join(lens)
    jv = ['j%d' % k for k in range(R)]
    # element j of the (swapped) block comes from source index "unswap(j)" shifted by the block start along a1
    src_idx = list(jv)
    if a0 != 0:
        src_idx[0], src_idx[a0] = src_idx[a0], src_idx[0]
    src_idx[a1] = '%s[{b}] + %s' % (ST, src_idx[a1])

    def block(b, upto):
        bounds = []
        for k in range(R):
            hi = ('%s[%s]' % (LEN, b)) if k == a1p else ext[k]
            bounds += ['0', hi]
        body = 'tobuffer[{b} * {size} + flatidx([{lens}], [{j}])] == source[{src}]'.format(
            b=b, size=SIZE, lens=', '.join(lens), j=', '.join(jv), src=', '.join(x.format(b=b) for x in src_idx))
        return 'forall(0, %s, lambda %s: forall(%s, lambda %s: %s))' % (upto, b, ', '.join(bounds), ', '.join(jv), body)
    req = ['len(%s) == len(%s)' % (LEN, ST), 'len(%s) >= 1' % LEN,
           'forall(0, %s, lambda k: %s[k] >= 0 and %s[k] >= 0 and %s[k] <= layout_dest._max_shape[%d])' % (P, ST, LEN, LEN, a0),
           # the source holds the whole extent of the dimension that becomes distributed (C02 invariant of the destination layout)
           'forall(0, %s, lambda k: %s[k] + %s[k] <= layout_source._shape[%d])' % (P, ST, LEN, a1),
           'layout_source._shape[%d] <= layout_source._max_shape[%d]' % (a0, a0)]
    req += ['shape(source)[%d] == layout_source._shape[%d] and layout_source._shape[%d] >= 0' % (k, k, k) for k in range(R)]
    req += ['layout_source._max_shape[%d] >= 0 and layout_dest._max_shape[%d] >= 0' % (a0, a0),
            # arrays of bufferSize suffice (C02 clause): p padded blocks fit
            '%s * %s <= len(tobuffer)' % (P, SIZE)]
    loopkey = 'for (split_length, mpi_start) in zip(layout_dest.mpi_lengths(axis[0]), layout_dest.mpi_starts(axis[0]))'
    return dict(
        params={'source': 'arr%d' % R, 'tobuffer': 'arr1', 'layout_source': layout_spec(R, order_src, 'src'),
                'layout_dest': layout_spec(R, order_dst, 'dst'), 'axis': ('const', [a0, a1, a2]), 'comm': 'comm'},
        requires=req, modifies=['tobuffer'],
        ensures=[block('b', P)],
        loops={loopkey: dict(inv=['start == _i * %s' % SIZE, 'start >= 0', '%s >= 0' % SIZE,
                                  'start + (%s - _i) * %s <= len(tobuffer)' % (P, SIZE), block('b', '_i')])})


def geometry(R, order_src, order_dst, pattern):
    a0, a1, a2 = swap_axes(order_src, order_dst, pattern)
    a1p = a0 if a1 == 0 else a1
    S = ['layout_source._shape[%d]' % k for k in range(R)]
    D = ['layout_dest._shape[%d]' % k for k in range(R)]
    m = 'layout_source._max_shape[%d]' % a0
    big = list(S)
    big[a1] = 'layout_dest._max_shape[%d]' % a0
    big[a0] = '%s * comm_size(comm)' % m
    lens = list(S)
    lens[a1] = 'layout_dest._max_shape[%d]' % a0
    lens[a0] = m
    so = list(order_src)
    if a0 != 0:
        big[0], big[a0] = big[a0], big[0]
        lens[0], lens[a0] = lens[a0], lens[0]
        so[0], so[a0] = so[a0], so[0]
    T = [so.index(d) for d in order_dst]
    return dict(a0=a0, a1=a1, a2=a2, a1p=a1p, S=S, D=D, m=m, big=big, lens=lens, T=T, so=so)


def rearrange_contract(R, order_src, order_dst, pattern):
    g = geometry(R, order_src, order_dst, pattern)
    a0, a1, a2, a1p, S, D, m, big, lens, T = (g[k] for k in ('a0', 'a1', 'a2', 'a1p', 'S', 'D', 'm', 'big', 'lens', 'T'))
    LEN = 'layout_source._mpi_lengths[%d]' % a0
    ST = 'layout_source._mpi_starts[%d]' % a0
    P = 'comm_size(comm)'
    CHUNK = 'prodof([%s])' % ', '.join(lens)
    jv = ['j%d' % k for k in range(R)]
    # destView[j] = bufView[bidx] with bidx[T[k]] = j[k]; inside block r the first buffer index is j[a2] - start_r
    iv = [None] * R
    for k in range(R):
        iv[T[k]] = jv[k]
    assert T[a2] == 0
    iv[0] = '%s - %s[{r}]' % (jv[a2], ST)

    def moved(r, upto):
        bounds = []
        for k in range(R):
            bounds += ['0', D[k]]
        body = ('implies({st}[{r}] <= {ja} and {ja} < {st}[{r}] + {ln}[{r}], data[flatidx([{D}], [{j}])] == '
                'peer_send(comm, {r})[comm_rank(comm) * {chunk} + flatidx([{lens}], [{i}])])').format(
            st=ST, ln=LEN, r=r, ja=jv[a2], D=', '.join(D), j=', '.join(jv), chunk=CHUNK, lens=', '.join(lens),
            i=', '.join(x.format(r=r) for x in iv))
        return 'forall(0, %s, lambda %s: forall(%s, lambda %s: %s))' % (upto, r, ', '.join(bounds), ', '.join(jv), body)
    req = ['len(%s) == %s and len(%s) == %s' % (LEN, P, ST, P),
           '%s[0] == 0' % ST,
           'forall(0, %s - 1, lambda k: %s[k] + %s[k] == %s[k + 1])' % (P, ST, LEN, ST),
           '%s[%s - 1] + %s[%s - 1] == %s' % (ST, P, LEN, P, D[a2]),
           # closed forms of the tiling (consequences of the two clauses above: lemmas tiling_ordered, tiling_bounded)
           'forall(0, %s, lambda k2: forall(0, k2, lambda k1: %s[k1] + %s[k1] <= %s[k2]))' % (P, ST, LEN, ST),
           'forall(0, %s, lambda k: %s[k] + %s[k] <= %s)' % (P, ST, LEN, D[a2]),
           'forall(0, %s, lambda k: 0 <= %s[k] and %s[k] <= %s)' % (P, LEN, LEN, m),
           '%s >= 0 and layout_dest._max_shape[%d] >= 0' % (m, a0),
           '0 <= %s and %s <= layout_dest._max_shape[%d]' % (D[a0], D[a0], a0),
           'layout_dest._size == prodof([%s])' % ', '.join(D)]
    req += ['%s >= 0 and %s >= 0' % (S[k], D[k]) for k in range(R)]
    # every other axis has the same local extent before and after (same dimension, same distribution): C02
    for k in range(R):
        if k not in (a2, a0):
            req.append('%s == %s' % (D[k], big[T[k]]))
    SIZE = 'prodof([%s])' % ', '.join(big)
    req += ['%s <= len(data) and %s <= len(buf)' % (SIZE, SIZE), 'layout_dest._size <= len(data)',
            # if both extents divide evenly every block is full (C02: balanced partition) - the condition of the fast branch
            'implies({Da2} % {P} == 0 and {Sa1} % {P} == 0, forall(0, {P}, lambda k: {LEN}[k] == {m} and {ST}[k] == k * {m}) and '
            '{Da0} == layout_dest._max_shape[{a0}])'.format(Da2=D[a2], Sa1=S[a1], P=P, LEN=LEN, ST=ST, m=m, Da0=D[a0], a0=a0)]
    return dict(
        params={'data': 'arr1', 'buf': 'arr1', 'layout_source': layout_spec(R, order_src, 'src'),
                'layout_dest': layout_spec(R, order_dst, 'dst'), 'axis': ('const', [a0, a1, a2]), 'comm': 'comm'},
        requires=req, modifies=['data', 'buf'],
        alltoall=(CHUNK, lens),
        # every destination element comes from the right place of the right member's send buffer
        ensures=[moved('r', P)],
        loops={'for r in range(mpi_size)': dict(inv=[moved('rr', 'r')], case_split={'rr': ['r - 1']})})


import re


def _sub(text, mapping):
    for a, b in mapping.items():
        text = re.sub(r'\b%s\b' % re.escape(a), b, text)
    return text


def field_at(order, starts, idx):
    """gfield(...) at the global index of local position idx of a block whose axis k holds dimension order[k] and starts at starts[k]."""
    g = [None] * len(order)
    for k in range(len(order)):
        g[order[k]] = '%s + %s' % (starts[k], idx[k]) if starts[k] != '0' else idx[k]
    return 'gfield(%s)' % ', '.join(g)


def peer_form(R, order_src, order_dst, pattern, r, target, comm='comm'):
    """What member r of the communicator puts into its send buffer (blocks b = 0..p-1, element i of the padded, swapped block):
    the global field at the corresponding global index.  Used twice with the same text: as the GUARANTEE proved of
    _extract_from_source (r = my rank, target = tobuffer) and as the ASSUMPTION about the other members in _transpose
    (r quantified, target = peer_send(comm, r))."""
    g = geometry(R, order_src, order_dst, pattern)
    a0, a1, a1p, S, lens = g['a0'], g['a1'], g['a1p'], g['S'], g['lens']
    LENs, STs = 'layout_source._mpi_lengths[%d]' % a0, 'layout_source._mpi_starts[%d]' % a0
    LENd, STd = 'layout_dest._mpi_lengths[%d]' % a0, 'layout_dest._mpi_starts[%d]' % a0
    P = 'comm_size(%s)' % comm
    SIZE = 'prodof([%s])' % ', '.join(lens)
    iv = ['i%d' % k for k in range(R)]
    ext = list(S)
    if a0 != 0:
        ext[0], ext[a0] = ext[a0], ext[0]
    bounds = []
    for k in range(R):
        hi = ('%s[%s]' % (LENs, r)) if k == 0 else (('%s[b]' % LENd) if k == a1p else ext[k])
        bounds += ['0', hi]
    src_idx = list(iv)
    if a0 != 0:
        src_idx[0], src_idx[a0] = src_idx[a0], src_idx[0]
    src_idx[a1] = '%s[b] + %s' % (STd, src_idx[a1])
    starts = ['layout_source._starts[%d]' % k for k in range(R)]
    starts[a0] = '%s[%s]' % (STs, r)
    starts[a1] = '0'
    body = '%s[b * %s + flatidx([%s], [%s])] == %s' % (target, SIZE, ', '.join(lens), ', '.join(iv), field_at(order_src, starts, src_idx))
    return 'forall(0, %s, lambda b: forall(%s, lambda %s: %s))' % (P, ', '.join(bounds), ', '.join(iv), body)


def extract_field_contract(R, order_src, order_dst, pattern):
    """_extract_from_source, field form (the guarantee half of the assume/guarantee argument for the Alltoall)."""
    c = extract_contract(R, order_src, order_dst, pattern)
    g = geometry(R, order_src, order_dst, pattern)
    a0, a1, S = g['a0'], g['a1'], g['S']
    iv = ['i%d' % k for k in range(R)]
    bounds = []
    for k in range(R):
        bounds += ['0', S[k]]
    starts = ['layout_source._starts[%d]' % k for k in range(R)]
    me = 'comm_rank(comm)'
    c['requires'] = c['requires'] + [
        'forall(%s, lambda %s: source[%s] == %s)' % (', '.join(bounds), ', '.join(iv), ', '.join(iv), field_at(order_src, starts, iv)),
        'len(layout_dest._mpi_lengths[%d]) == comm_size(comm) and len(layout_source._mpi_lengths[%d]) == comm_size(comm) '
        'and len(layout_source._mpi_starts[%d]) == comm_size(comm)' % (a0, a0, a0),
        'layout_source._starts[%d] == layout_source._mpi_starts[%d][%s]' % (a0, a0, me),
        '%s == layout_source._mpi_lengths[%d][%s]' % (S[a0], a0, me),
        'layout_source._starts[%d] == 0' % a1]
    c['ensures'] = c['ensures'] + [peer_form(R, order_src, order_dst, pattern, me, 'tobuffer')]
    return c


def transpose_contract(R, order_src, order_dst, pattern, intact):
    """LayoutHandler._transpose / _transpose_source_intact for a pair whose swapped position is distributed: if my block and
    every other member's block hold the global field in the source layout, my destination block holds it in the
    destination layout."""
    g = geometry(R, order_src, order_dst, pattern)
    a0, a1, a2, S, D, lens = g['a0'], g['a1'], g['a2'], g['S'], g['D'], g['lens']
    comm = 'self._subcomms[%d]' % a0
    me = 'comm_rank(%s)' % comm
    P = 'comm_size(%s)' % comm
    ex = extract_contract(R, order_src, order_dst, pattern)
    re_ = rearrange_contract(R, order_src, order_dst, pattern)
    rcv = 'buf' if intact else 'source'
    req = [_sub(c, {'tobuffer': 'dest', 'comm': comm}) for c in ex['requires'] if 'shape(source)' not in c]
    req += ['%s >= 0' % S[k] for k in range(R)]
    req += [_sub(c, {'data': 'dest', 'buf': rcv, 'comm': comm}) for c in re_['requires']]
    LENs, STs = 'layout_source._mpi_lengths[%d]' % a0, 'layout_source._mpi_starts[%d]' % a0
    LENd, STd = 'layout_dest._mpi_lengths[%d]' % a0, 'layout_dest._mpi_starts[%d]' % a0
    req += ['layout_source._size == prodof([%s])' % ', '.join(S), 'layout_source._size <= len(source)',
            'len(%s) == %s' % (LENd, P),
            # the handler's layouts describe the same process: my coordinate along the swapped direction is my rank in its
            # sub-communicator, every other position is distributed identically in both layouts (C02 / C20)
            'layout_source._starts[%d] == %s[%s] and %s == %s[%s]' % (a0, STs, me, S[a0], LENs, me),
            'layout_dest._starts[%d] == %s[%s] and %s == %s[%s]' % (a0, STd, me, D[a0], LENd, me),
            'layout_source._starts[%d] == 0 and layout_dest._starts[%d] == 0' % (a1, a2),
            '%s[%s - 1] + %s[%s - 1] == %s' % (STd, P, LENd, P, S[a1])]
    for k in range(R):
        if k not in (a0, a1):
            k2 = list(order_dst).index(order_src[k])
            req.append('layout_source._starts[%d] == layout_dest._starts[%d]' % (k, k2))
    iv = ['i%d' % k for k in range(R)]
    bounds = []
    for k in range(R):
        bounds += ['0', S[k]]
    sstarts = ['layout_source._starts[%d]' % k for k in range(R)]
    req.append('forall(%s, lambda %s: source[flatidx([%s], [%s])] == %s)' % (
        ', '.join(bounds), ', '.join(iv), ', '.join(S), ', '.join(iv), field_at(order_src, sstarts, iv)))
    # ASSUMPTION (assume/guarantee over the members of the sub-communicator): every member's send buffer has the form that
    # _extract_from_source is proved to produce from a block holding the field
    assume = 'forall(0, %s, lambda r: %s)' % (P, peer_form(R, order_src, order_dst, pattern, 'r', 'peer_send(%s, r)' % comm, comm))
    req.append(assume)
    jv = ['j%d' % k for k in range(R)]
    dstarts = ['layout_dest._starts[%d]' % k for k in range(R)]
    dstarts[a2] = '0'
    dbounds = []
    for k in range(R):
        dbounds += ['0', D[k]]
    # every position along the gathered direction lies in some member's block (closed form of the tiling: lemma tiling_covers)
    req.append('forall(0, %s, lambda x: exists(0, %s, lambda r: %s[r] <= x and x < %s[r] + %s[r]))' % (D[a2], P, STs, STs, LENs))
    # the property itself: every local position of the destination block holds the global field at its global index
    ens = 'forall({db}, lambda {j}: dest[flatidx([{D}], [{j}])] == {f})'.format(
        db=', '.join(dbounds), j=', '.join(jv), D=', '.join(D), f=field_at(order_dst, dstarts, jv))
    # block by block first (cut): positions gathered from member r
    ens_r = ('forall(0, {P}, lambda r: forall({db}, lambda {j}: implies({st}[r] <= {ja} and {ja} < {st}[r] + {ln}[r], '
             'dest[flatidx([{D}], [{j}])] == {f})))').format(P=P, db=', '.join(dbounds), j=', '.join(jv), st=STs, ln=LENs, ja=jv[a2],
                                                           D=', '.join(D), f=field_at(order_dst, dstarts, jv))
    params = {'self': {'__class__': L + '::LayoutHandler', '_nprocsList': ('list', ['int'] * len(pattern)),
                       '_subcomms': ('list', ['comm'] * len(pattern))},
              'source': 'arr1', 'dest': 'arr1', 'layout_source': layout_spec(R, order_src, 'src'),
              'layout_dest': layout_spec(R, order_dst, 'dst')}
    if intact:
        params['buf'] = 'arr1'
    for k, ch in enumerate(pattern):
        req.append('self._nprocsList[%d] %s' % (k, '> 1' if ch == '2' else '== 1'))
    return dict(params=params, requires=req, ensures=[ens_r, ens], modifies=['dest', rcv])


def local_contract(R, order_src, order_dst, pattern, intact):
    """The pair differs only at positions that are not distributed: an in-process np.transpose."""
    S = ['layout_source._shape[%d]' % k for k in range(R)]
    D = ['layout_dest._shape[%d]' % k for k in range(R)]
    T = [list(order_src).index(d) for d in order_dst]
    jv = ['j%d' % k for k in range(R)]
    iv = [None] * R
    for k in range(R):
        iv[T[k]] = jv[k]
    dbounds = []
    for k in range(R):
        dbounds += ['0', D[k]]
    req = ['layout_source._size == prodof([%s]) and layout_source._size <= len(source)' % ', '.join(S),
           'layout_dest._size == prodof([%s]) and layout_dest._size <= len(dest)' % ', '.join(D)]
    req += ['%s >= 0 and %s == %s' % (D[k], D[k], S[T[k]]) for k in range(R)]
    for k, ch in enumerate(pattern):
        req.append('self._nprocsList[%d] %s' % (k, '> 1' if ch == '2' else '== 1'))
    ens = ['forall(%s, lambda %s: dest[flatidx([%s], [%s])] == old(source)[flatidx([%s], [%s])])' % (
        ', '.join(dbounds), ', '.join(jv), ', '.join(D), ', '.join(jv), ', '.join(S), ', '.join(iv))]
    params = {'self': {'__class__': L + '::LayoutHandler', '_nprocsList': ('list', ['int'] * len(pattern)),
                       '_subcomms': ('list', ['comm'] * len(pattern))},
              'source': 'arr1', 'dest': 'arr1', 'layout_source': layout_spec(R, order_src, 'src'),
              'layout_dest': layout_spec(R, order_dst, 'dst')}
    if intact:
        params['buf'] = 'arr1'
    return dict(params=params, requires=req, ensures=ens, modifies=['dest'])


def compatible_contract(R, oa, ob, nk):
    """LayoutHandler.compatible: True iff at most one position that is really distributed (process count > 1) holds different
    dimensions in the two orderings (process counts symbolic)."""
    diff = [k for k in range(nk) if oa[k] != ob[k]]
    cnt = ' + '.join('(1 if self._nprocsList[%d] > 1 else 0)' % k for k in diff) or '0'
    return dict(params={'self': {'__class__': L + '::LayoutHandler', '_nprocsList': ('list', ['int'] * nk)},
                        'l1': layout_spec(R, oa, 'a'), 'l2': layout_spec(R, ob, 'b')},
                requires=['self._nprocsList[%d] >= 1' % k for k in range(nk)],
                ensures=['result == ((%s) < 2)' % cnt], returns='bool', modifies=[])


def compatible_pairs(R, npat, rng, count):
    """Random structural cases: two orderings of rank R that differ at exactly one distributed position (pattern drawn too)."""
    import itertools
    perms = list(itertools.permutations(range(R)))
    out = []
    tries = 0
    while len(out) < count and tries < 2000:
        tries += 1
        oa = list(perms[int(rng.integers(len(perms)))])
        ob = list(perms[int(rng.integers(len(perms)))])
        pat = ''.join('2' if rng.random() < 0.75 else '1' for _ in range(npat))
        diff = [k for k in range(npat) if pat[k] == '2' and oa[k] != ob[k]]
        if len(diff) == 1 and (oa, ob, pat) not in out:
            out.append((oa, ob, pat))
    return out


def cases(tier, rng=None):
    out = []
    std = {'flux_surface': (0, 3, 1, 2), 'v_parallel': (0, 2, 1, 3), 'poloidal': (3, 2, 1, 0)}
    pairs = [('flux_surface', 'v_parallel', '22'), ('v_parallel', 'flux_surface', '22'), ('v_parallel', 'poloidal', '22'),
             ('poloidal', 'v_parallel', '22'), ('poloidal', 'v_parallel', '21'),
             # leading process count 1: the swapped axis is position 0 (axis[1] == 0), the case of the repaired defect
             ('poloidal', 'flux_surface', '12'), ('flux_surface', 'poloidal', '12')]
    dist = [(list(std[a]), list(std[b]), pat, '%s->%s' % (a, b)) for (a, b, pat) in pairs]
    # orderings beyond the production layouts: ranks 2 and 3, and pairs whose remaining positions are permuted by a 3-cycle
    # (np.transpose order != its inverse)
    general = [([0, 1, 2], [1, 2, 0], '2', None), ([0, 1, 2], [0, 2, 1], '22', None), ([0, 1], [1, 0], '2', None),
               ([0, 1, 2, 3], [2, 1, 3, 0], '22', None), ([1, 2, 0], [1, 0, 2], '12', None)]
    if tier == 'quick':
        keep = [dist[0], dist[5], general[0]]
        if rng is not None:
            keep.append(dist[int(rng.choice([1, 2, 3, 4, 6]))])
        dist = keep
    else:
        dist = dist + general
        if rng is not None:
            for R in (2, 3, 4):
                for npat in (1, 2):
                    if npat < R or R == 2:
                        dist += [(oa, ob, pat, None) for (oa, ob, pat) in compatible_pairs(R, min(npat, R), rng, 2)]
    for (oa, ob, pat, nm) in dist:
        R = len(oa)
        nm = nm or '%s->%s' % (''.join(map(str, oa)), ''.join(map(str, ob)))
        C = {L + '::LayoutHandler._extract_from_source': extract_field_contract(R, oa, ob, pat)}
        out.append(dict(label='_extract_from_source %s grid %s' % (nm, pat), struct=None,
                        key=L + '::LayoutHandler._extract_from_source', contracts=C))
        C2 = {L + '::LayoutHandler._rearrange_from_buffer': rearrange_contract(R, oa, ob, pat)}
        out.append(dict(label='_rearrange_from_buffer %s grid %s' % (nm, pat), struct=None,
                        key=L + '::LayoutHandler._rearrange_from_buffer', contracts=C2))
        for intact in (False, True):
            fn = '_transpose_source_intact' if intact else '_transpose'
            C3 = dict(C)
            C3.update(C2)
            C3[L + '::LayoutHandler.' + fn] = transpose_contract(R, oa, ob, pat, intact)
            out.append(dict(label='%s %s grid %s' % (fn, nm, pat), struct=None, key=L + '::LayoutHandler.' + fn, contracts=C3))
    # compatible(): orderings differing at 0, 1 and 2 of the distributed positions
    comp = [((0, 3, 1, 2), (0, 2, 1, 3), 2), ((3, 2, 1, 0), (0, 3, 1, 2), 2), ((0, 1, 2), (0, 1, 2), 2), ((0, 1, 2), (1, 0, 2), 2),
            ((0, 1, 2), (2, 1, 0), 1), ((0, 1), (1, 0), 2), ((0, 1, 2, 3), (3, 2, 1, 0), 2)]
    for (oa, ob, nk) in (comp[:3] if tier == 'quick' else comp):
        key = L + '::LayoutHandler.compatible'
        out.append(dict(label='compatible %s/%s nprocs=%d' % (''.join(map(str, oa)), ''.join(map(str, ob)), nk), struct=None, key=key,
                        contracts={key: compatible_contract(len(oa), list(oa), list(ob), nk)}))
    # pairs that differ only where nothing is distributed: in-process transposition
    local = [((0, 1, 2, 3), (0, 2, 3, 1), '2'), ((3, 2, 1, 0), (0, 2, 1, 3), '12'), ((0, 1, 2), (1, 2, 0), '1'),
             ((0, 1, 2, 3), (0, 1, 3, 2), '22'), ((0, 1, 2), (0, 2, 1), '2'), ((0, 1), (1, 0), '1'), ((2, 0, 1), (1, 0, 2), '12')]
    if tier == 'quick':
        local = local[:3]
    for (oa, ob, pat) in local:
        for intact in (False, True):
            fn = '_transpose_source_intact' if intact else '_transpose'
            out.append(dict(label='%s local %s->%s grid %s' % (fn, oa, ob, pat), struct=None, key=L + '::LayoutHandler.' + fn,
                            contracts={L + '::LayoutHandler.' + fn: local_contract(len(oa), list(oa), list(ob), pat, intact)}))
    return out
