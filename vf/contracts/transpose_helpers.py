"""Contracts for LayoutHandler._extract_from_source / _rearrange_from_buffer (C01 steps 2-4) over flat buffers seen
through C-order lenses (vf/flat.py).  One structural case = (rank, source ordering, destination ordering, which of the
leading positions are distributed); extents, process counts, block lengths and starts are symbolic."""
L = 'pygyro/model/layout.py'
FLAT_MODE = True
SPECS = []
CONTRACTS = {}

TILING = ['len(st) == p and len(ln) == p', 'p >= 1', 'st[0] == 0', 'forall(0, p - 1, lambda k: st[k] + ln[k] == st[k + 1])',
          'st[p - 1] + ln[p - 1] == n', 'forall(0, p, lambda k: ln[k] >= 0)']
LEMMAS = [
    # the chain form of "the blocks tile [0, n) in rank order" (what Layout.__init__ is proved to establish, C02) gives the
    # closed forms the transpose helpers need: earlier blocks end before later ones start, every block ends inside [0, n]
    dict(name='tiling_ordered', vars=[('st', 'iarr1'), ('ln', 'iarr1'), ('p', 'int'), ('n', 'int')], requires=TILING,
         induct=dict(var='k2', lo='0', hi='p'),
         ensures=['forall(0, k2, lambda k1: st[k1] + ln[k1] <= st[k2])']),
    dict(name='tiling_bounded', vars=[('st', 'iarr1'), ('ln', 'iarr1'), ('p', 'int'), ('n', 'int')],
         requires=TILING + ['forall(0, p, lambda k2: forall(0, k2, lambda k1: st[k1] + ln[k1] <= st[k2]))'],
         ensures=['forall(0, p, lambda k: st[k] + ln[k] <= n and 0 <= st[k])']),
]


def swap_axes(order_src, order_dst, pattern):
    """axis triple of LayoutHandler._get_swap_axes for a compatible pair (exactly one distributed position differs)."""
    diff = [k for k in range(len(pattern)) if pattern[k] == '2' and order_src[k] != order_dst[k]]
    assert len(diff) == 1
    a0 = diff[0]
    return [a0, order_src.index(order_dst[a0]), order_dst.index(order_src[a0])]


def layout_spec(R, order, name):
    return {'__class__': L + '::Layout', '_name': ('const', name), '_ndims': ('const', R), '_dims_order': ('const', tuple(order)),
            '_shape': 'tuple%dint' % R, '_max_shape': 'iarr1:%d' % R, '_nprocs': 'list%dint' % R,
            '_mpi_lengths': ('list', ['iarr1'] * R), '_mpi_starts': ('list', ['iarr1'] * R), '_size': 'int'}


def extract_contract(R, order_src, order_dst, pattern):
    a0, a1, a2 = swap_axes(order_src, order_dst, pattern)
    a1p = a0 if a1 == 0 else a1                         # position of axis a1 after the swap with position 0
    S = ['layout_source._shape[%d]' % k for k in range(R)]
    pad = list(S)
    pad[a0] = 'layout_source._max_shape[%d]' % a0
    pad[a1] = 'layout_dest._max_shape[%d]' % a0
    lens = list(pad)
    ext = list(S)                                       # extents written in block k (before the swap)
    if a0 != 0:
        lens[0], lens[a0] = lens[a0], lens[0]
        ext[0], ext[a0] = ext[a0], ext[0]
    LEN = 'layout_dest._mpi_lengths[%d]' % a0
    ST = 'layout_dest._mpi_starts[%d]' % a0
    P = 'len(%s)' % LEN
    SIZE = 'prodof([%s])' % ', '.join(lens)
    jv = ['j%d' % k for k in range(R)]
    # element j of the (swapped) block comes from source index "unswap(j)" shifted by the block start along a1
    src_idx = list(jv)
    if a0 != 0:
        src_idx[0], src_idx[a0] = src_idx[a0], src_idx[0]
    src_idx[a1] = '%s[{b}] + %s' % (ST, src_idx[a1])

    def block(b, upto):
        bounds = []
        for k in range(R):
            hi = ('%s[%s]' % (LEN, b)) if k == a1p else ext[k]
            bounds += ['0', hi]
        body = 'tobuffer[{b} * {size} + flatidx([{lens}], [{j}])] == source[{src}]'.format(
            b=b, size=SIZE, lens=', '.join(lens), j=', '.join(jv), src=', '.join(x.format(b=b) for x in src_idx))
        return 'forall(0, %s, lambda %s: forall(%s, lambda %s: %s))' % (upto, b, ', '.join(bounds), ', '.join(jv), body)
    req = ['len(%s) == len(%s)' % (LEN, ST), 'len(%s) >= 1' % LEN,
           'forall(0, %s, lambda k: %s[k] >= 0 and %s[k] >= 0 and %s[k] <= layout_dest._max_shape[%d])' % (P, ST, LEN, LEN, a0),
           # the source holds the whole extent of the dimension that becomes distributed (C02 invariant of the destination layout)
           'forall(0, %s, lambda k: %s[k] + %s[k] <= layout_source._shape[%d])' % (P, ST, LEN, a1),
           'layout_source._shape[%d] <= layout_source._max_shape[%d]' % (a0, a0)]
    req += ['shape(source)[%d] == layout_source._shape[%d] and layout_source._shape[%d] >= 0' % (k, k, k) for k in range(R)]
    req += ['layout_source._max_shape[%d] >= 0 and layout_dest._max_shape[%d] >= 0' % (a0, a0),
            # arrays of bufferSize suffice (C02 clause): p padded blocks fit
            '%s * %s <= len(tobuffer)' % (P, SIZE)]
    loopkey = 'for (split_length, mpi_start) in zip(layout_dest.mpi_lengths(axis[0]), layout_dest.mpi_starts(axis[0]))'
    return dict(
        params={'source': 'arr%d' % R, 'tobuffer': 'arr1', 'layout_source': layout_spec(R, order_src, 'src'),
                'layout_dest': layout_spec(R, order_dst, 'dst'), 'axis': ('const', [a0, a1, a2]), 'comm': 'comm'},
        requires=req, modifies=['tobuffer'],
        ensures=[block('b', P)],
        loops={loopkey: dict(inv=['start == _i * %s' % SIZE, 'start >= 0', '%s >= 0' % SIZE,
                                  'start + (%s - _i) * %s <= len(tobuffer)' % (P, SIZE), block('b', '_i')])})


def geometry(R, order_src, order_dst, pattern):
    a0, a1, a2 = swap_axes(order_src, order_dst, pattern)
    a1p = a0 if a1 == 0 else a1
    S = ['layout_source._shape[%d]' % k for k in range(R)]
    D = ['layout_dest._shape[%d]' % k for k in range(R)]
    m = 'layout_source._max_shape[%d]' % a0
    big = list(S)
    big[a1] = 'layout_dest._max_shape[%d]' % a0
    big[a0] = '%s * comm_size(comm)' % m
    lens = list(S)
    lens[a1] = 'layout_dest._max_shape[%d]' % a0
    lens[a0] = m
    so = list(order_src)
    if a0 != 0:
        big[0], big[a0] = big[a0], big[0]
        lens[0], lens[a0] = lens[a0], lens[0]
        so[0], so[a0] = so[a0], so[0]
    T = [so.index(d) for d in order_dst]
    return dict(a0=a0, a1=a1, a2=a2, a1p=a1p, S=S, D=D, m=m, big=big, lens=lens, T=T, so=so)


def rearrange_contract(R, order_src, order_dst, pattern):
    g = geometry(R, order_src, order_dst, pattern)
    a0, a1, a2, a1p, S, D, m, big, lens, T = (g[k] for k in ('a0', 'a1', 'a2', 'a1p', 'S', 'D', 'm', 'big', 'lens', 'T'))
    LEN = 'layout_source._mpi_lengths[%d]' % a0
    ST = 'layout_source._mpi_starts[%d]' % a0
    P = 'comm_size(comm)'
    CHUNK = 'prodof([%s])' % ', '.join(lens)
    jv = ['j%d' % k for k in range(R)]
    # destView[j] = bufView[bidx] with bidx[T[k]] = j[k]; inside block r the first buffer index is j[a2] - start_r
    iv = [None] * R
    for k in range(R):
        iv[T[k]] = jv[k]
    assert T[a2] == 0
    iv[0] = '%s - %s[{r}]' % (jv[a2], ST)

    def moved(r, upto):
        bounds = []
        for k in range(R):
            bounds += ['0', D[k]]
        body = ('implies({st}[{r}] <= {ja} and {ja} < {st}[{r}] + {ln}[{r}], data[flatidx([{D}], [{j}])] == '
                'peer_send(comm, {r})[comm_rank(comm) * {chunk} + flatidx([{lens}], [{i}])])').format(
            st=ST, ln=LEN, r=r, ja=jv[a2], D=', '.join(D), j=', '.join(jv), chunk=CHUNK, lens=', '.join(lens),
            i=', '.join(x.format(r=r) for x in iv))
        return 'forall(0, %s, lambda %s: forall(%s, lambda %s: %s))' % (upto, r, ', '.join(bounds), ', '.join(jv), body)
    req = ['len(%s) == %s and len(%s) == %s' % (LEN, P, ST, P),
           '%s[0] == 0' % ST,
           'forall(0, %s - 1, lambda k: %s[k] + %s[k] == %s[k + 1])' % (P, ST, LEN, ST),
           '%s[%s - 1] + %s[%s - 1] == %s' % (ST, P, LEN, P, D[a2]),
           # closed forms of the tiling (consequences of the two clauses above: lemmas tiling_ordered, tiling_bounded)
           'forall(0, %s, lambda k2: forall(0, k2, lambda k1: %s[k1] + %s[k1] <= %s[k2]))' % (P, ST, LEN, ST),
           'forall(0, %s, lambda k: %s[k] + %s[k] <= %s)' % (P, ST, LEN, D[a2]),
           'forall(0, %s, lambda k: 0 <= %s[k] and %s[k] <= %s)' % (P, LEN, LEN, m),
           '%s >= 0 and layout_dest._max_shape[%d] >= 0' % (m, a0),
           '0 <= %s and %s <= layout_dest._max_shape[%d]' % (D[a0], D[a0], a0),
           'layout_dest._size == prodof([%s])' % ', '.join(D)]
    req += ['%s >= 0 and %s >= 0' % (S[k], D[k]) for k in range(R)]
    # every other axis has the same local extent before and after (same dimension, same distribution): C02
    for k in range(R):
        if k not in (a2, a0):
            req.append('%s == %s' % (D[k], big[T[k]]))
    SIZE = 'prodof([%s])' % ', '.join(big)
    req += ['%s <= len(data) and %s <= len(buf)' % (SIZE, SIZE), 'layout_dest._size <= len(data)',
            # if both extents divide evenly every block is full (C02: balanced partition) - the condition of the fast branch
            'implies({Da2} % {P} == 0 and {Sa1} % {P} == 0, forall(0, {P}, lambda k: {LEN}[k] == {m} and {ST}[k] == k * {m}) and '
            '{Da0} == layout_dest._max_shape[{a0}])'.format(Da2=D[a2], Sa1=S[a1], P=P, LEN=LEN, ST=ST, m=m, Da0=D[a0], a0=a0)]
    return dict(
        params={'data': 'arr1', 'buf': 'arr1', 'layout_source': layout_spec(R, order_src, 'src'),
                'layout_dest': layout_spec(R, order_dst, 'dst'), 'axis': ('const', [a0, a1, a2]), 'comm': 'comm'},
        requires=req, modifies=['data', 'buf'],
        alltoall=(CHUNK, lens),
        # every destination element comes from the right place of the right member's send buffer
        ensures=[moved('r', P)],
        loops={'for r in range(mpi_size)': dict(inv=[moved('rr', 'r')], case_split={'rr': ['r - 1']})})


def cases(tier, rng=None):
    out = []
    std = {'flux_surface': (0, 3, 1, 2), 'v_parallel': (0, 2, 1, 3), 'poloidal': (3, 2, 1, 0)}
    pairs = [('flux_surface', 'v_parallel', '22'), ('v_parallel', 'flux_surface', '22'), ('v_parallel', 'poloidal', '22'),
             ('poloidal', 'v_parallel', '22'), ('poloidal', 'v_parallel', '21'),
             # leading process count 1: the swapped axis is position 0 (axis[1] == 0), the case of the repaired defect
             ('poloidal', 'flux_surface', '12'), ('flux_surface', 'poloidal', '12')]
    if tier == 'quick':
        keep = [0, 5]
        if rng is not None:
            keep.append(int(rng.choice([1, 2, 3, 4, 6])))
        pairs = [pairs[k] for k in keep]
    for (a, b, pat) in pairs:
        C = {L + '::LayoutHandler._extract_from_source': extract_contract(4, list(std[a]), list(std[b]), pat)}
        out.append(dict(label='_extract_from_source %s->%s grid %s' % (a, b, pat), struct=None,
                        key=L + '::LayoutHandler._extract_from_source', contracts=C))
        C2 = {L + '::LayoutHandler._rearrange_from_buffer': rearrange_contract(4, list(std[a]), list(std[b]), pat)}
        out.append(dict(label='_rearrange_from_buffer %s->%s grid %s' % (a, b, pat), struct=None,
                        key=L + '::LayoutHandler._rearrange_from_buffer', contracts=C2))
    return out
