"""Contracts for LayoutHandler._extract_from_source / _rearrange_from_buffer (C01 steps 2-4) over flat buffers seen
through C-order lenses (vf/flat.py).  One structural case = (rank, source ordering, destination ordering, which of the
leading positions are distributed); extents, process counts, block lengths and starts are symbolic."""
L = 'pygyro/model/layout.py'
FLAT_MODE = True
SPECS = []
CONTRACTS = {}


def swap_axes(order_src, order_dst, pattern):
    """axis triple of LayoutHandler._get_swap_axes for a compatible pair (exactly one distributed position differs)."""
    diff = [k for k in range(len(pattern)) if pattern[k] == '2' and order_src[k] != order_dst[k]]
    assert len(diff) == 1
    a0 = diff[0]
    return [a0, order_src.index(order_dst[a0]), order_dst.index(order_src[a0])]


def layout_spec(R, order, name):
    return {'__class__': L + '::Layout', '_name': ('const', name), '_ndims': ('const', R), '_dims_order': ('const', tuple(order)),
            '_shape': 'tuple%dint' % R, '_max_shape': 'iarr1:%d' % R, '_nprocs': 'list%dint' % R,
            '_mpi_lengths': ('list', ['iarr1'] * R), '_mpi_starts': ('list', ['iarr1'] * R), '_size': 'int'}


def extract_contract(R, order_src, order_dst, pattern):
    a0, a1, a2 = swap_axes(order_src, order_dst, pattern)
    a1p = a0 if a1 == 0 else a1                         # position of axis a1 after the swap with position 0
    S = ['layout_source._shape[%d]' % k for k in range(R)]
    pad = list(S)
    pad[a0] = 'layout_source._max_shape[%d]' % a0
    pad[a1] = 'layout_dest._max_shape[%d]' % a0
    lens = list(pad)
    ext = list(S)                                       # extents written in block k (before the swap)
    if a0 != 0:
        lens[0], lens[a0] = lens[a0], lens[0]
        ext[0], ext[a0] = ext[a0], ext[0]
    LEN = 'layout_dest._mpi_lengths[%d]' % a0
    ST = 'layout_dest._mpi_starts[%d]' % a0
    P = 'len(%s)' % LEN
    SIZE = 'prodof([%s])' % ', '.join(lens)
    jv = ['j%d' % k for k in range(R)]
    # element j of the (swapped) block comes from source index "unswap(j)" shifted by the block start along a1
    src_idx = list(jv)
    if a0 != 0:
        src_idx[0], src_idx[a0] = src_idx[a0], src_idx[0]
    src_idx[a1] = '%s[{b}] + %s' % (ST, src_idx[a1])

    def block(b, upto):
        bounds = []
        for k in range(R):
            hi = ('%s[%s]' % (LEN, b)) if k == a1p else ext[k]
            bounds += ['0', hi]
        body = 'tobuffer[{b} * {size} + flatidx([{lens}], [{j}])] == source[{src}]'.format(
            b=b, size=SIZE, lens=', '.join(lens), j=', '.join(jv), src=', '.join(x.format(b=b) for x in src_idx))
        return 'forall(0, %s, lambda %s: forall(%s, lambda %s: %s))' % (upto, b, ', '.join(bounds), ', '.join(jv), body)
    req = ['len(%s) == len(%s)' % (LEN, ST), 'len(%s) >= 1' % LEN,
           'forall(0, %s, lambda k: %s[k] >= 0 and %s[k] >= 0 and %s[k] <= layout_dest._max_shape[%d])' % (P, ST, LEN, LEN, a0),
           # the source holds the whole extent of the dimension that becomes distributed (C02 invariant of the destination layout)
           'forall(0, %s, lambda k: %s[k] + %s[k] <= layout_source._shape[%d])' % (P, ST, LEN, a1),
           'layout_source._shape[%d] <= layout_source._max_shape[%d]' % (a0, a0)]
    req += ['shape(source)[%d] == layout_source._shape[%d] and layout_source._shape[%d] >= 0' % (k, k, k) for k in range(R)]
    req += ['layout_source._max_shape[%d] >= 0 and layout_dest._max_shape[%d] >= 0' % (a0, a0),
            # arrays of bufferSize suffice (C02 clause): p padded blocks fit
            '%s * %s <= len(tobuffer)' % (P, SIZE)]
    loopkey = 'for (split_length, mpi_start) in zip(layout_dest.mpi_lengths(axis[0]), layout_dest.mpi_starts(axis[0]))'
    return dict(
        params={'source': 'arr%d' % R, 'tobuffer': 'arr1', 'layout_source': layout_spec(R, order_src, 'src'),
                'layout_dest': layout_spec(R, order_dst, 'dst'), 'axis': ('const', [a0, a1, a2]), 'comm': 'comm'},
        requires=req, modifies=['tobuffer'],
        ensures=[block('b', P)],
        loops={loopkey: dict(inv=['start == _i * %s' % SIZE, 'start >= 0', '%s >= 0' % SIZE,
                                  'start + (%s - _i) * %s <= len(tobuffer)' % (P, SIZE), block('b', '_i')])})


def cases(tier, rng=None):
    out = []
    std = {'flux_surface': (0, 3, 1, 2), 'v_parallel': (0, 2, 1, 3), 'poloidal': (3, 2, 1, 0)}
    pairs = [('flux_surface', 'v_parallel', '22'), ('v_parallel', 'flux_surface', '22'), ('v_parallel', 'poloidal', '22'),
             ('poloidal', 'v_parallel', '22'), ('poloidal', 'v_parallel', '21'),
             # leading process count 1: the swapped axis is position 0 (axis[1] == 0), the case of the repaired defect
             ('poloidal', 'flux_surface', '12'), ('flux_surface', 'poloidal', '12')]
    for (a, b, pat) in pairs:
        C = {L + '::LayoutHandler._extract_from_source': extract_contract(4, list(std[a]), list(std[b]), pat)}
        out.append(dict(label='_extract_from_source %s->%s grid %s' % (a, b, pat), struct=None,
                        key=L + '::LayoutHandler._extract_from_source', contracts=C))
    return out
