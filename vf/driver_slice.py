"""Mechanical slice of fullSimulation.main on the step / checkpoint counters (property C18).

Rule (applied to the statements of main() from `ti = ...` to the end of the final checkpoint block):
  keep   an assignment whose target is a tracked counter;
  keep   a compound statement (if / while / for) if, after slicing its body, something is left; its test is kept as is
         (tests that read untracked, rank-local or wall-clock values become nondeterministic in the trace abstraction);
  rewrite a call  distribFunc.writeH5Dataset(foldername, <time>)  into the ghost assignment  last_written = <time>;
  drop   everything else (layout changes, operators, diagnostics, printing, timing).
The sliced function and the dropped line numbers are returned; nothing is written by hand.
"""
import ast
import os

TRACKED = {'t', 'ti', 'tN', 'nLoops', 'saveStep', 'saveStepCut', 'startPrint', 'timeForLoop', 'average_loop', 'average_output',
           'fullStep', 'halfStep', 'output_time', 'full_loop_time'}
PARAMS = ['t', 'tEnd', 'dt', 'saveStep', 'loadable', 'last_written']


def _is_write(st):
    return (isinstance(st, ast.Expr) and isinstance(st.value, ast.Call) and isinstance(st.value.func, ast.Attribute)
            and st.value.func.attr == 'writeH5Dataset' and isinstance(st.value.func.value, ast.Name)
            and st.value.func.value.id == 'distribFunc')


def _slice(stmts, dropped):
    out = []
    for st in stmts:
        if _is_write(st):
            new = ast.Assign(targets=[ast.Name('last_written', ast.Store())], value=st.value.args[1], lineno=st.lineno)
            out.append(ast.copy_location(new, st))
        elif isinstance(st, (ast.Assign, ast.AugAssign)):
            tgts = st.targets if isinstance(st, ast.Assign) else [st.target]
            names = {n.id for t in tgts for n in ast.walk(t) if isinstance(n, ast.Name)}
            if names and names <= TRACKED:
                out.append(st)
            else:
                dropped.append(st.lineno)
        elif isinstance(st, (ast.If, ast.While, ast.For)):
            body = _slice(st.body, dropped)
            orelse = _slice(st.orelse, dropped)
            if body or orelse:
                new = type(st)(**{k: getattr(st, k) for k in st._fields})
                new.body = body or [ast.Pass()]
                new.orelse = orelse
                out.append(ast.copy_location(new, st))
            else:
                dropped.append(st.lineno)
        else:
            dropped.append(st.lineno)
    return out


def sliced_source(repo):
    src = open(os.path.join(repo, 'fullSimulation.py')).read()
    tree = ast.parse(src)
    main = [n for n in tree.body if isinstance(n, ast.FunctionDef) and n.name == 'main'][0]
    start = None
    for k, st in enumerate(main.body):
        if isinstance(st, ast.Assign) and any(isinstance(t, ast.Name) and t.id == 'ti' for t in st.targets):
            start = k
            break
    # before the counters are initialised: the block that writes the first checkpoint of a fresh run, and assignments to
    # tracked names whose right-hand side only reads tracked names or inputs of the slice
    pre = []
    for st in main.body[:start]:
        if isinstance(st, ast.If) and any(_is_write(x) for x in ast.walk(st) if isinstance(x, ast.Expr)):
            pre.append(st)
        elif isinstance(st, ast.Assign) and all(isinstance(t, ast.Name) and t.id in TRACKED for t in st.targets):
            rhs = {n.id for n in ast.walk(st.value) if isinstance(n, ast.Name)}
            if rhs and rhs <= (TRACKED | set(PARAMS)):
                pre.append(st)
    dropped = []
    body = _slice(pre + main.body[start:], dropped)
    # names of the driver that the slice reads but that are inputs here
    fn = ast.FunctionDef(name='driver_counters', args=ast.arguments(posonlyargs=[], args=[ast.arg(p) for p in PARAMS], kwonlyargs=[],
                                                                     kw_defaults=[], defaults=[]),
                         body=body
                         + [ast.parse('return (t, ti, last_written)').body[0]], decorator_list=[], lineno=1)
    mod = ast.Module(body=[fn], type_ignores=[])
    ast.fix_missing_locations(mod)
    text = ast.unparse(mod).replace('constants.dt', 'dt')
    return text, sorted(set(dropped))


if __name__ == '__main__':
    import sys
    t, d = sliced_source(sys.argv[1] if len(sys.argv) > 1 else '/repo')
    print(t)
    print('# dropped lines:', d)
