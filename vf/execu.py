"""The executor proper: expressions, statements, loops, calls, contracts."""
import ast
import os
import re
from fractions import Fraction

import z3

from . import smt
from .smt import FForall, FAnd, FImp, FExists, QFact, f_and, f_imp, fresh, is_qf, zbool
from . import vals as V
from .vals import (OutOfReach, Arr, ExprArr, ArrView, SpecArr, FunVal, Obj, INT, REAL, BOOL, is_sym, is_cint,
                   is_creal, is_intlike, is_reallike, is_boollike, is_num, Z, ZR, ZI, simp, binop, compare,
                   truth, b_not, b_and, b_or, ite)
from .interp import Module, load_module, State, Obligation, Contract, Ctx

MAX_UNROLL = 64


COLLECTIVES = {'reduce', 'Reduce', 'gather', 'Gatherv', 'bcast', 'Bcast', 'allreduce', 'Alltoall', 'Allgather', 'Barrier', 'Split',
               'Create_cart', 'Sub', 'allgather', 'scatter'}


def has_collective(node):
    for n in ast.walk(node):
        if isinstance(n, ast.Attribute) and n.attr in COLLECTIVES:
            return True
        if isinstance(n, ast.Call) and isinstance(n.func, (ast.Name, ast.Attribute)):
            nm = n.func.id if isinstance(n.func, ast.Name) else n.func.attr
            if nm in ('_transpose', '_transpose_source_intact', '_transposeRedirect', '_transposeRedirect_source_intact', 'setLayout', 'getLayoutHandler', 'LayoutHandler',
                      'LayoutSwapper', '_extract_from_source', '_rearrange_from_buffer', 'getMin', 'getMax', 'getBlockForFig',
                      'setupSave'):
                return True
    return False


class Frame:
    def __init__(self, module, qual, node, contract, depth=0):
        self.module = module
        self.qual = qual
        self.node = node
        self.contract = contract
        self.entry = None
        self.depth = depth
        self.lambda_names = []
        self.loop_counts = {}
        self.in_old = False
        self.spec_only = False
        self.self_obj = None

    @property
    def fname(self):
        return self.module.relpath + '::' + self.qual


def parse_annotation(s):
    """pyccel annotation string -> (kind, rank, elem). kind in scalar/array/fun."""
    if s is None:
        return None
    s = s.strip()
    m = re.match(r'^Final\[(.*)\]$', s)
    final = False
    if m:
        s = m.group(1).strip()
        final = True
    if s.startswith('('):
        return ('fun', 0, None, final)
    m = re.match(r'^(\w+)\s*(\[(.*)\])?$', s)
    if not m:
        return None
    base, _, dims = m.groups()
    elem = {'float': REAL, 'float64': REAL, 'double': REAL, 'int': INT, 'int64': INT, 'bool': BOOL,
            'complex128': REAL, 'complex': REAL}.get(base)
    if elem is None:
        return None
    if dims is None:
        return ('scalar', 0, elem, final)
    rank = dims.count(':')
    return ('array', rank, elem, final)


def loop_fingerprint(node):
    if isinstance(node, ast.For):
        return 'for %s in %s' % (ast.unparse(node.target), ast.unparse(node.iter))
    return 'while %s' % ast.unparse(node.test)


def assigned_names(stmts):
    names = set()
    arrs = set()
    calls = []
    for s in stmts:
        for n in ast.walk(s):
            if isinstance(n, (ast.Assign, ast.AugAssign, ast.AnnAssign, ast.For)):
                tgts = n.targets if isinstance(n, ast.Assign) else [n.target]
                for t in tgts:
                    for e in ast.walk(t):
                        if isinstance(e, ast.Name) and isinstance(e.ctx, ast.Store):
                            names.add(e.id)
                    base = t
                    if isinstance(t, (ast.Tuple, ast.List)):
                        subs = t.elts
                    else:
                        subs = [t]
                    for u in subs:
                        b = u
                        while isinstance(b, ast.Subscript):
                            b = b.value
                        if b is not u:
                            arrs.add(ast.unparse(b))
                if isinstance(n, ast.AugAssign) and isinstance(n.target, ast.Name):
                    names.add(n.target.id)
            elif isinstance(n, ast.Call):
                calls.append(n)
    return names, arrs, calls


from .bufs import BufMixin, Buf, BufRef, BufView, BufCopy
from .flat import FlatMixin, FlatView, prod_term


class Exec(BufMixin, FlatMixin):
    def __init__(self, ctx):
        self.ctx = ctx

    # ------------------------------------------------------------------
    # obligations
    # ------------------------------------------------------------------
    def prove(self, st, fr, kind, form, node=None, clause=None, name=None, splits=None):
        lineno = getattr(node, 'lineno', 0)
        nm = name or '%s:%s@%d' % (fr.fname if fr else '?', kind, lineno)
        for (h, g, sk) in smt.to_goals(form):
            g = simp(g)
            hq = [x for x in h if isinstance(x, smt.QFact)]
            h = [x for x in h if not isinstance(x, smt.QFact)]
            ob = Obligation(nm, kind, fr.fname if fr else '?', lineno, list(st.pc) + list(h), list(st.qfacts) + hq, g, sk, clause)
            ob.flatten = smt.FLATTEN[0]
            if splits:
                # proof-by-cases hint of the contract: bound variable name -> terms it should be compared with
                ob.split_terms = {}
                for k in sk:
                    pn = smt.SK_NAMES.get(k.get_id())
                    if pn in splits:
                        ob.split_terms[k.get_id()] = (k, [ZI(t) for t in splits[pn]])
            if isinstance(g, bool):
                g = z3.BoolVal(g)
                ob.goal = g
            self.ctx.obligations.append(ob)
        self.ctx.reached.add((fr.fname if fr else '?', lineno))

    def safety(self, st, fr, kind, cond, node):
        if fr is not None and fr.spec_only:
            return
        if isinstance(cond, bool) and cond:
            return
        self.prove(st, fr, kind, cond, node)
        # after the check the condition may be assumed (execution continues only if it held)
        if not isinstance(cond, bool):
            st.pc.append(cond)

    def feasible(self, st, extra=None):
        hyps = list(self.ctx.axioms) + st.pc + ([extra] if extra is not None else [])
        r = smt.quick_sat(hyps)
        return r != 'unsat'

    # ------------------------------------------------------------------
    # arrays
    # ------------------------------------------------------------------
    def new_arr(self, st, rank, shape, elem=REAL, name='a'):
        a = Arr(rank, shape, elem, name)
        st.heap[a.aid] = z3.Const('%s!%d' % (name, a.aid), a.sort())
        return a

    def havoc_arr(self, st, a):
        V._arr_counter[0] += 1
        st.heap[a.aid] = z3.Const('%s!h%d' % (a.name, V._arr_counter[0]), a.sort())

    def arr_term(self, st, a):
        if isinstance(a, Arr):
            return st.heap[a.aid]
        if isinstance(a, SpecArr):
            return a.term
        if isinstance(a, ExprArr):
            ids = [z3.Int('lam!%d' % k) for k in range(a.rank)]
            return z3.Lambda(ids, Z(self.elem_fn(st, a)(tuple(ids))))
        raise OutOfReach('array expected')

    def elem_fn(self, st, a):
        """Element access function of any array-like value (no bounds checks)."""
        if isinstance(a, Arr):
            t = st.heap[a.aid]
            return lambda idx: z3.Select(t, *[ZI(i) for i in idx])
        if isinstance(a, SpecArr):
            t = a.term
            return lambda idx: z3.Select(t, *[ZI(i) for i in idx])
        if isinstance(a, FlatView):
            return self.flat_elem_fn(st, a)
        if isinstance(a, ArrView):
            t = st.heap[a.base.aid]
            return lambda idx, a=a, t=t: z3.Select(t, *[ZI(i) for i in a.base_index(idx)])
        if isinstance(a, ExprArr):
            return a.fn
        raise OutOfReach('array expected')

    def is_arr(self, v):
        return isinstance(v, (Arr, SpecArr, ExprArr))

    def norm_index(self, st, fr, i, n, node):
        """Python index i on axis of length n -> non-negative index, with bounds obligation."""
        if is_cint(i) and i < 0:
            i = binop('Add', n, i)
        if fr is not None and fr.spec_only:
            return i
        top = fr
        if fr is not None and fr.contract is not None and fr.contract.allow_negative_index and is_sym(i):
            # numpy: -n <= i < n, negative indices count from the end
            self.safety(st, fr, 'index_bounds', b_and(compare('GtE', i, V.neg(n)), compare('Lt', i, n)), node)
            return ite(compare('Lt', i, 0), binop('Add', i, n), i)
        lo = compare('GtE', i, 0)
        hi = compare('Lt', i, n)
        self.safety(st, fr, 'index_bounds', b_and(lo, hi), node)
        return i

    def subscript(self, st, fr, base, idx, node):
        if isinstance(base, V.Opaque) or isinstance(idx, V.Opaque) or (isinstance(idx, tuple) and any(isinstance(i, V.Opaque) for i in idx)):
            return V.Opaque()
        r = self.buf_subscript(st, fr, base, idx, node)
        if r is not NotImplemented:
            return r
        if isinstance(base, V.SymList):
            if isinstance(idx, slice):
                if idx.start is None and idx.step is None and is_cint(idx.stop) and idx.stop < 0:
                    return V.SymList(base.n, base.fn, base.drop_last - idx.stop)
                raise OutOfReach('slice of a list of symbolic length')
            self.safety(st, fr, 'index_bounds', b_and(compare('GtE', idx, 0), compare('Lt', idx, base.length())), node)
            return base.fn(st, idx, known_not_last=base.drop_last > 0)
        if isinstance(base, (list, tuple)):
            if isinstance(idx, slice):
                return base[idx]
            if is_cint(idx):
                if not (-len(base) <= idx < len(base)):
                    self.safety(st, fr, 'index_bounds', False, node)
                    return 0
                return base[idx]
            # symbolic index into a concrete list of scalars
            if all(is_num(x) for x in base) and len(base) > 0:
                self.safety(st, fr, 'index_bounds', b_and(compare('GtE', idx, 0), compare('Lt', idx, len(base))), node)
                r = base[-1]
                for k in range(len(base) - 2, -1, -1):
                    r = ite(compare('Eq', idx, k), base[k], r)
                return r
            raise OutOfReach('symbolic index into list')
        if isinstance(base, dict):
            if is_sym(idx):
                raise OutOfReach('symbolic dict key')
            return base[idx]
        if not self.is_arr(base):
            raise OutOfReach('subscript of %r' % (base,))
        if isinstance(base, FlatView):
            return self.flat_subscript(st, fr, base, idx, node)
        if isinstance(idx, V.SymRange):
            # fancy indexing by a range copies the rows lo..hi-1: same elements as the slice lo:hi
            idx = slice(idx.lo, idx.hi)
        if not isinstance(idx, tuple):
            idx = (idx,)
        nreal = sum(1 for i in idx if i is not None)
        if nreal > base.rank:
            raise OutOfReach('too many indices')
        idx = list(idx) + [slice(None)] * (base.rank - nreal)
        if all(not isinstance(i, slice) and i is not None for i in idx):
            ii = [self.norm_index(st, fr, i, base.shape[k], node) for k, i in enumerate(idx)]
            return simp(self.elem_fn(st, base)(tuple(ii)))
        # view: per source axis a fixed index or a slice; None inserts an axis of length 1
        starts, shape, kinds = [], [], []
        k = 0
        for i in idx:
            if i is None:
                kinds.append('new')
                shape.append(1)
                continue
            n = base.shape[k]
            k += 1
            if isinstance(i, slice):
                if i.step is not None and i.step != 1:
                    raise OutOfReach('strided slice')
                lo = 0 if i.start is None else i.start
                hi = n if i.stop is None else i.stop
                if is_cint(lo) and lo < 0:
                    lo = binop('Add', n, lo)
                if is_cint(hi) and hi < 0:
                    hi = binop('Add', n, hi)
                # numpy clips slices silently; we require them to be within bounds (stronger, no silent clipping)
                self.safety(st, fr, 'slice_bounds', b_and(compare('GtE', lo, 0), compare('LtE', lo, hi), compare('LtE', hi, n)), node)
                starts.append(lo)
                kinds.append('s')
                shape.append(binop('Sub', hi, lo))
            else:
                starts.append(self.norm_index(st, fr, i, n, node))
                kinds.append('i')
        if 'new' not in kinds and isinstance(base, (Arr, ArrView)):
            # live view of allocated storage
            spec = [('i' if kd == 'i' else 's', v) for kd, v in zip(kinds, starts)]
            if isinstance(base, ArrView):
                it = iter(spec)
                comp = []
                for (bk, bv) in base.spec:
                    if bk == 'i':
                        comp.append((bk, bv))
                    else:
                        (vk, vv) = next(it)
                        comp.append((vk, binop('Add', bv, vv)))
                return ArrView(base.base, comp, shape)
            return ArrView(base, spec, shape)
        ef = self.elem_fn(st, base)

        def fn(j, ef=ef, starts=starts, kinds=kinds):
            full = []
            si = iter(starts)
            for kd, jv in zip(kinds, j) if False else []:
                pass
            jj = iter(j)
            for kd in kinds:
                if kd == 'new':
                    next(jj)
                elif kd == 's':
                    full.append(binop('Add', next(si), next(jj)))
                else:
                    full.append(next(si))
            return ef(tuple(full))
        return ExprArr(shape, fn, base.elem)

    def store(self, st, fr, base, idx, val, node):
        r = self.buf_store(st, fr, base, idx, val, node)
        if r is not NotImplemented:
            return
        if isinstance(base, FlatView):
            return self.flat_store(st, fr, base, idx, val, node)
        if isinstance(base, ArrView):
            if not isinstance(idx, tuple):
                idx = (idx,)
            idx = list(idx) + [slice(None)] * (base.rank - len(idx))
            it = iter(zip(idx, base.shape))
            comp = []
            for (bk, bv) in base.spec:
                if bk == 'i':
                    comp.append(bv)
                    continue
                (i, n) = next(it)
                if isinstance(i, slice):
                    lo = 0 if i.start is None else i.start
                    hi = n if i.stop is None else i.stop
                    if is_cint(lo) and lo < 0:
                        lo = binop('Add', n, lo)
                    if is_cint(hi) and hi < 0:
                        hi = binop('Add', n, hi)
                    self.safety(st, fr, 'slice_bounds', b_and(compare('GtE', lo, 0), compare('LtE', lo, hi), compare('LtE', hi, n)), node)
                    comp.append(slice(binop('Add', bv, lo), binop('Add', bv, hi)))
                else:
                    comp.append(binop('Add', bv, self.norm_index(st, fr, i, n, node)))
            if self.is_arr(val) and isinstance(val, ArrView) and val.base is base.base:
                # reading and writing the same storage: take a snapshot of the right-hand side first (numpy copies on overlap)
                f0 = self.elem_fn(st, val)
                val = ExprArr(val.shape, f0, val.elem)
            return self.store(st, fr, base.base, tuple(comp), val, node)
        if isinstance(base, list):
            if is_cint(idx):
                base[idx] = val
                return
            raise OutOfReach('symbolic index store into list')
        if isinstance(base, dict):
            base[idx] = val
            return
        if not isinstance(base, Arr):
            raise OutOfReach('store into %r' % (base,))
        if not isinstance(idx, tuple):
            idx = (idx,)
        idx = list(idx) + [slice(None)] * (base.rank - len(idx))
        t = st.heap[base.aid]
        if all(not isinstance(i, slice) for i in idx):
            ii = [ZI(self.norm_index(st, fr, i, base.shape[k], node)) for k, i in enumerate(idx)]
            if self.is_arr(val):
                raise OutOfReach('array stored into element')
            v = ZR(val) if base.elem == REAL else (ZI(val) if base.elem == INT else Z(val))
            st.heap[base.aid] = z3.Store(t, *ii, v)
            return
        # slice assignment
        starts, shape, is_slice = [], [], []
        for k, i in enumerate(idx):
            n = base.shape[k]
            if isinstance(i, slice):
                lo = 0 if i.start is None else i.start
                hi = n if i.stop is None else i.stop
                if is_cint(lo) and lo < 0:
                    lo = binop('Add', n, lo)
                if is_cint(hi) and hi < 0:
                    hi = binop('Add', n, hi)
                self.safety(st, fr, 'slice_bounds', b_and(compare('GtE', lo, 0), compare('LtE', lo, hi), compare('LtE', hi, n)), node)
                starts.append(lo)
                shape.append(binop('Sub', hi, lo))
                is_slice.append(True)
            else:
                starts.append(self.norm_index(st, fr, i, n, node))
                is_slice.append(False)
        if self.is_arr(val):
            if val.rank != len(shape):
                raise OutOfReach('broadcast in slice assignment (rank %d into %d)' % (val.rank, len(shape)))
            for a, b in zip(val.shape, shape):
                self.safety(st, fr, 'shape_agreement', compare('Eq', a, b), node)
            vf = self.elem_fn(st, val)
        else:
            vf = (lambda j, val=val: val)
        ids = [z3.Int('lam!%d' % k) for k in range(base.rank)]
        inbox = []
        rel = []
        for k in range(base.rank):
            if is_slice[k]:
                inbox.append(z3.And(ids[k] >= ZI(starts[k]), ids[k] < ZI(binop('Add', starts[k], shape[len(rel)]))))
                rel.append(ids[k] - ZI(starts[k]))
            else:
                inbox.append(ids[k] == ZI(starts[k]))
        newv = vf(tuple(rel))
        newv = ZR(newv) if base.elem == REAL else Z(newv)
        newt = z3.Lambda(ids, z3.If(z3.And(*inbox), newv, z3.Select(t, *ids)))
        st.heap[base.aid] = newt
        ef = getattr(val, 'elem_facts', None)
        if ef is not None:
            box = z3.And(*inbox)

            def fact(*idx, newt=newt, ids=ids, box=box, ef=ef):
                sub = list(zip(ids, [ZI(i) for i in idx]))
                return f_imp(z3.substitute(box, *sub), ef(z3.Select(newt, *[ZI(i) for i in idx])))
            st.qfacts.append(QFact(base.rank, fact, 'elementwise range of %'))

    def ew(self, st, op, a, b):
        """Elementwise binary op with scalar broadcasting."""
        aa, ba = self.is_arr(a), self.is_arr(b)
        def et(x):
            if self.is_arr(x):
                return x.elem
            return INT if is_intlike(x) or isinstance(x, bool) else REAL
        elem = INT if (et(a) == INT and et(b) == INT and not getattr(op, 'real_result', False)) else REAL
        if aa and ba:
            fa, fb = self.elem_fn(st, a), self.elem_fn(st, b)
            sa, sb = list(a.shape), list(b.shape)
            ra, rb = len(sa), len(sb)
            r = max(ra, rb)
            sa = [1] * (r - ra) + sa
            sb = [1] * (r - rb) + sb
            shape, pairs, ma, mb = [], [], [], []
            for x, y in zip(sa, sb):
                if is_cint(x) and x == 1 and not (is_cint(y) and y == 1):
                    shape.append(y)
                    ma.append(False)
                    mb.append(True)
                elif is_cint(y) and y == 1 and not (is_cint(x) and x == 1):
                    shape.append(x)
                    ma.append(True)
                    mb.append(False)
                else:
                    shape.append(x)
                    ma.append(True)
                    mb.append(True)
                    pairs.append((x, y))

            def pick(j, m, n):
                j = list(j)[r - n:]
                m = m[r - n:]
                return tuple(jv if mv else 0 for jv, mv in zip(j, m))
            return ExprArr(shape, lambda j: op(fa(pick(j, ma, ra)), fb(pick(j, mb, rb))), elem), pairs
        if aa:
            fa = self.elem_fn(st, a)
            return ExprArr(a.shape, lambda j: op(fa(j), b), elem), []
        fb = self.elem_fn(st, b)
        return ExprArr(b.shape, lambda j: op(a, fb(j)), elem), []

    # ------------------------------------------------------------------
    # names
    # ------------------------------------------------------------------
    def lookup(self, name, st, fr, node=None):
        if name in st.env:
            return st.env[name]
        mod = fr.module
        if name in mod.functions:
            return FunVal('repo', name, (mod.relpath, name))
        if name in mod.classes:
            return FunVal('class', name, (mod.relpath, name))
        if name in mod.imports:
            rel, nm, modname = mod.imports[name]
            if nm == 'pi' and modname and (modname.startswith('numpy') or modname.startswith('math')):
                return V.PI
            if modname and (modname.startswith('numpy') or modname.startswith('math') or modname.startswith('scipy')):
                return FunVal('builtin', nm)
            if modname and (modname.startswith('pyccel') or modname.startswith('typing') or modname.startswith('numba')):
                return FunVal('builtin', nm)
            try:
                m2 = load_module(rel, self.ctx.repo)
            except (FileNotFoundError, IsADirectoryError):
                # `from ..package import submodule [as alias]`: a repo module value
                sub = os.path.join(rel[:-3], nm + '.py')
                if os.path.isfile(os.path.join(self.ctx.repo, sub)):
                    return FunVal('module', nm, sub)
                return FunVal('builtin', nm)
            if nm in m2.functions:
                return FunVal('repo', nm, (rel, nm))
            if nm in m2.classes:
                return FunVal('class', nm, (rel, nm))
            if nm in m2.globals:
                return self.ev(m2.globals[nm], State(), Frame(m2, '<module>', None, None))
            raise OutOfReach('import %s from %s' % (nm, rel))
        if name in getattr(mod, 'modimports', {}):
            full = mod.modimports[name]
            return FunVal('builtin', 'np' if full == 'numpy' else full)
        if name in self.ctx.spec_funs:
            return FunVal('spec', name)
        if name in self.ctx.consts:
            return self.ctx.consts[name]
        if name in mod.globals:
            return self.ev(mod.globals[name], State(), Frame(mod, '<module>', None, None))
        if name == 'pi':
            return V.PI
        if name in self.ctx.contracts and self.ctx.contracts[name].abstract and self.ctx.contracts[name].pure:
            return FunVal('param', name, name)
        # pure repo functions under contract may be named in specifications of any module
        for k, c in self.ctx.contracts.items():
            if c.pure and k.endswith('::' + name) and '::' in k:
                return FunVal('repo', name, tuple(k.split('::')))
        if name in BUILTINS or name in SPEC_BUILTINS:
            return FunVal('builtin', name)
        raise OutOfReach('unknown name %s' % name)

    # ------------------------------------------------------------------
    # expressions
    # ------------------------------------------------------------------
    def ev(self, e, st, fr):
        m = getattr(self, 'ev_' + type(e).__name__, None)
        if m is None:
            if self.trace_mode(fr) and not has_collective(e):
                return V.Opaque()
            raise OutOfReach('expression %s at line %s' % (type(e).__name__, getattr(e, 'lineno', '?')))
        if self.trace_mode(fr) and not fr.spec_only:
            # trace abstraction (C06): anything that is not modelled becomes opaque, unless a collective is involved
            try:
                return m(e, st, fr)
            except OutOfReach:
                if has_collective(e):
                    raise
                return V.Opaque()
            except (TypeError, AttributeError, KeyError, IndexError, ValueError) as ex:
                if has_collective(e):
                    raise OutOfReach('trace mode: %r' % (ex,))
                return V.Opaque()
        return m(e, st, fr)

    def trace_mode(self, fr):
        return fr is not None and getattr(self.ctx, 'trace_mode', False)

    def ev_Constant(self, e, st, fr):
        v = e.value
        if isinstance(v, float):
            return V.lit_float(v)
        return v

    def ev_Name(self, e, st, fr):
        return self.lookup(e.id, st, fr, e)

    def ev_Tuple(self, e, st, fr):
        return tuple(self.ev(x, st, fr) for x in e.elts)

    def ev_List(self, e, st, fr):
        out = []
        for x in e.elts:
            if isinstance(x, ast.Starred):
                v = self.ev(x.value, st, fr)
                if self.is_arr(v) and v.rank == 1 and not is_cint(v.shape[0]):
                    out.append(V.StarredArr(v))
                else:
                    out.extend(v)
            else:
                out.append(self.ev(x, st, fr))
        return out

    def ev_ListComp(self, e, st, fr):
        if len(e.generators) != 1:
            raise OutOfReach('nested comprehension')
        g = e.generators[0]
        it = self.ev(g.iter, st, fr)
        if self.is_arr(it):
            if it.rank != 1 or not is_cint(it.shape[0]):
                raise OutOfReach('comprehension over a symbolic-length array')
            f = self.elem_fn(st, it)
            it = [f((k,)) for k in range(it.shape[0])]
        if isinstance(it, dict):
            it = list(it.keys())
        out = []
        saved = dict(st.env)
        try:
            for v in list(it):
                self.assign(g.target, v, st, fr)
                ok = True
                for c in g.ifs:
                    t = truth(self.ev(c, st, fr))
                    if not isinstance(t, bool):
                        raise OutOfReach('comprehension filter with symbolic condition')
                    ok = ok and t
                if ok:
                    out.append(self.ev(e.elt, st, fr))
        finally:
            st.env = saved
        return out

    def ev_GeneratorExp(self, e, st, fr):
        return self.ev_ListComp(e, st, fr)

    def ev_Slice(self, e, st, fr):
        return slice(None if e.lower is None else self.ev(e.lower, st, fr),
                     None if e.upper is None else self.ev(e.upper, st, fr),
                     None if e.step is None else self.ev(e.step, st, fr))

    def ev_UnaryOp(self, e, st, fr):
        v = self.ev(e.operand, st, fr)
        if isinstance(v, V.Opaque):
            if isinstance(e.op, ast.Not):
                return b_not(truth(v))
            return v
        if isinstance(e.op, ast.USub):
            if self.is_arr(v):
                f = self.elem_fn(st, v)
                return ExprArr(v.shape, lambda j: V.neg(f(j)), v.elem)
            return V.neg(v)
        if isinstance(e.op, ast.UAdd):
            return v
        if isinstance(e.op, ast.Not):
            if isinstance(v, smt.Form):
                raise OutOfReach('negation of quantified formula')
            return b_not(v)
        raise OutOfReach('unary op')

    def ev_BinOp(self, e, st, fr):
        a = self.ev(e.left, st, fr)
        b = self.ev(e.right, st, fr)
        return self.do_binop(type(e.op).__name__, a, b, st, fr, e)

    def do_binop(self, opn, a, b, st, fr, node):
        if isinstance(a, V.Opaque) or isinstance(b, V.Opaque):
            if opn in ('Div', 'FloorDiv', 'Mod') and not isinstance(b, V.Opaque) and is_num(b):
                # the divisor is modelled even if the dividend is not: division by zero is still an obligation
                self.safety(st, fr, 'div_nonzero', compare('NotEq', b, 0), node)
            return V.Opaque()
        if self.is_arr(a) or self.is_arr(b):
            def ob(kind, cond):
                pass  # elementwise division: obligations are generated on materialisation only for scalars
            opf = (lambda x, y: binop(opn, x, y, None))
            if opn == 'Div':
                opf.real_result = True
            r, pairs = self.ew(st, opf, a, b)
            for x, y in pairs:
                self.safety(st, fr, 'shape_agreement', compare('Eq', x, y), node)
            if opn == 'Mod' and not self.is_arr(b) and is_reallike(b):
                # range of the floor-based real modulo (trusted arithmetic fact), attached to the elements
                r.elem_facts = lambda t, b=b: z3.Implies(ZR(b) > 0, z3.And(t >= 0, t < ZR(b)))
            return r

        def ob(kind, cond):
            self.safety(st, fr, kind, cond, node)
        r = binop(opn, a, b, ob)
        if opn == 'Mod' and is_sym(r) and r.sort() == REAL and not (is_intlike(a) and is_intlike(b)):
            st.pc.append(z3.Implies(ZR(b) > 0, z3.And(r >= 0, r < ZR(b))))
        return r

    def ev_BoolOp(self, e, st, fr):
        isand = isinstance(e.op, ast.And)
        vals = []
        saved = len(st.pc)
        forms = []
        try:
            for x in e.values:
                v = self.ev(x, st, fr)
                if isinstance(v, smt.Form):
                    forms.append(v)
                    continue
                t = truth(v)
                if isinstance(t, bool):
                    if isand and not t:
                        return False if not forms else False
                    if not isand and t:
                        return True
                    continue
                vals.append(t)
                # short circuit: later operands are evaluated under the assumption that this one did not decide
                st.pc.append(t if isand else z3.Not(t))
        finally:
            del st.pc[saved:]
        if forms:
            if not isand:
                raise OutOfReach('disjunction of quantified formulas')
            return f_and(vals + forms)
        if not vals:
            return isand
        return simp(z3.And(*vals) if isand else z3.Or(*vals)) if len(vals) > 1 else vals[0]

    def ev_Compare(self, e, st, fr):
        left = self.ev(e.left, st, fr)
        res = []
        for op, right in zip(e.ops, e.comparators):
            r = self.ev(right, st, fr)
            res.append(self.do_compare(type(op).__name__, left, r, st, fr, e))
            left = r
        return b_and(*res) if len(res) > 1 else res[0]

    def do_compare(self, opn, a, b, st, fr, node):
        if isinstance(a, V.Opaque) or isinstance(b, V.Opaque):
            if opn in ('Is', 'IsNot') and (a is None or b is None):
                return opn == 'IsNot'
            return V.Opaque()
        if opn in ('Is', 'IsNot'):
            r = self.buf_is(a, b)
            if r is not NotImplemented:
                return r if opn == 'Is' else b_not(r)
        if isinstance(a, Obj) and isinstance(b, Obj) and opn in ('Is', 'IsNot', 'Eq', 'NotEq'):
            return (a.oid == b.oid) == (opn in ('Is', 'Eq'))
        if isinstance(a, Arr) and isinstance(b, Arr) and opn in ('Is', 'IsNot'):
            return (a is b) == (opn == 'Is')
        if isinstance(a, V.ObjArray) and b is None and opn in ('Eq', 'NotEq'):
            return V.ObjArray([(x is None) == (opn == 'Eq') for x in a])
        if (a is None or b is None) and opn in ('Is', 'IsNot', 'Eq', 'NotEq'):
            same = (a is None and b is None)
            return same == (opn in ('Is', 'Eq'))
        if opn in ('In', 'NotIn') and isinstance(b, (tuple, list)) and (isinstance(a, Obj) or a is None) \
                and all(isinstance(x, Obj) or x is None for x in b):
            found = any((x is a) or (isinstance(x, Obj) and isinstance(a, Obj) and x.oid == a.oid) for x in b)
            return found == (opn == 'In')
        if isinstance(a, (str, tuple, list)) or isinstance(b, (str, tuple, list)):
            if opn in ('In', 'NotIn') and isinstance(b, (tuple, list)) and (is_sym(a) or any(is_sym(x) for x in b)):
                return compare(opn, a, b)
            if opn in ('Eq', 'NotEq') and isinstance(a, (tuple, list)) and isinstance(b, (tuple, list)):
                if len(a) != len(b):
                    return opn == 'NotEq'
                r = b_and(*[self.do_compare('Eq', x, y, st, fr, node) for x, y in zip(a, b)]) if len(a) else True
                return r if opn == 'Eq' else b_not(r)
        return compare(opn, a, b)

    def ev_IfExp(self, e, st, fr):
        tv = self.ev(e.test, st, fr)
        if isinstance(tv, V.Opaque):
            return V.Opaque()
        c = truth(tv)
        if isinstance(c, bool):
            return self.ev(e.body if c else e.orelse, st, fr)
        st.pc.append(c)
        try:
            a = self.ev(e.body, st, fr)
        finally:
            st.pc.pop()
        st.pc.append(z3.Not(c))
        try:
            b = self.ev(e.orelse, st, fr)
        finally:
            st.pc.pop()
        if isinstance(a, smt.Form) or isinstance(b, smt.Form):
            return f_and([f_imp(c, a), f_imp(z3.Not(c), b)])
        return ite(c, a, b)

    def ev_Subscript(self, e, st, fr):
        base = self.ev(e.value, st, fr)
        idx = self.ev(e.slice, st, fr)
        return self.subscript(st, fr, base, idx, e)

    def ev_Attribute(self, e, st, fr):
        base = self.ev(e.value, st, fr)
        a = e.attr
        r = self.buf_attribute(st, fr, base, a, e)
        if r is not NotImplemented:
            return r
        if isinstance(base, Obj) and base.cls[0] == '<mpi>':
            return FunVal('mpi', a, base)
        if isinstance(base, V.Opaque):
            return V.Opaque()
        if self.is_arr(base):
            if a in ('reshape', 'transpose', 'copy'):
                return FunVal('arrmethod', a, base)
            if a == 'base':
                if isinstance(base, (ArrView, FlatView)):
                    return base.base
                return None
            if a == 'shape':
                return tuple(base.shape)
            if a == 'size':
                r = 1
                for s in base.shape:
                    r = binop('Mult', r, s)
                return r
            if a == 'ndim':
                return base.rank
            if a == 'flat':
                return V.FlatOf(base)
            if a == 'T' and base.rank == 2:
                f = self.elem_fn(st, base)
                return ExprArr([base.shape[1], base.shape[0]], lambda j: f((j[1], j[0])), base.elem)
            raise OutOfReach('array attribute ' + a)
        if isinstance(base, Obj):
            attrs = st.objs.setdefault(base.oid, {})
            if a in attrs:
                return attrs[a]
            # property or method
            cls = base.cls
            if cls[0].startswith('<ext'):
                # object of an external library: its methods exist only as abstract (assumed) contracts
                key = '%s::%s.%s' % (cls[0], cls[1], a)
                if key in self.ctx.contracts:
                    return FunVal('param', a, key)
                raise OutOfReach('external method %s without an assumed contract' % key)
            r = self.find_method(cls, a)
            if r is not None:
                mod, qual, node = r
                if any(isinstance(d, ast.Name) and d.id == 'property' for d in node.decorator_list):
                    return self.call_function(FunVal('repo', qual, (mod.relpath, qual)), [base], {}, st, fr, e)
                return FunVal('method', a, (mod.relpath, qual, base))
            self.safety(st, fr, 'attribute_exists', False, e)
            raise OutOfReach('missing attribute %s.%s' % (cls, a))
        if isinstance(base, FunVal) and base.kind == 'module':
            m2 = load_module(base.ref, self.ctx.repo)
            if a in m2.functions:
                return FunVal('repo', a, (base.ref, a))
            if a in m2.classes:
                return FunVal('class', a, (base.ref, a))
            raise OutOfReach('attribute %s of module %s' % (a, base.ref))
        if isinstance(base, FunVal) and base.kind == 'builtin':
            if a == 'pi' and base.name in ('np', 'numpy', 'math'):
                return V.PI
            return FunVal('builtin', base.name + '.' + a)
        if isinstance(base, (list, tuple, dict, str)):
            return FunVal('pymethod', a, base)
        raise OutOfReach('attribute %s of %r' % (a, base))

    def find_method(self, cls, name):
        relpath, cname = cls
        mod = load_module(relpath, self.ctx.repo)
        q = cname + '.' + name
        if q in mod.functions:
            return mod, q, mod.functions[q]
        cnode = mod.classes.get(cname)
        if cnode is not None:
            for b in cnode.bases:
                if isinstance(b, ast.Name):
                    fv = self.lookup(b.id, State(), Frame(mod, '<module>', None, None))
                    if isinstance(fv, FunVal) and fv.kind == 'class':
                        r = self.find_method(fv.ref, name)
                        if r is not None:
                            return r
        return None

    def ev_Lambda(self, e, st, fr):
        params = [a.arg for a in e.args.args]
        snap = st.fork()   # closures see the state at creation time (quantified facts are instantiated later)

        def fn(*args):
            if len(args) != len(params):
                raise OutOfReach('lambda arity')
            saved = snap.env
            snap.env = dict(saved)
            for p, a in zip(params, args):
                snap.env[p] = a
            fr.lambda_names.append(params)
            saved_spec = fr.spec_only
            fr.spec_only = True
            try:
                return self.ev(e.body, snap, fr)
            finally:
                fr.spec_only = saved_spec
                fr.lambda_names.pop()
                snap.env = saved
        fn._params = params
        fn._src = ast.unparse(e)
        return fn

    def ev_Call(self, e, st, fr):
        # spec builtins with special evaluation
        if isinstance(e.func, ast.Name):
            nm = e.func.id
            if nm == 'old' and nm not in st.env:
                return self.ev_old(e, st, fr)
            if nm in ('forall', 'exists', 'sum_', 'implies', 'and_', 'iff', 'ite_', 'let') and nm not in st.env:
                return self.ev_spec(nm, e, st, fr)
        f = self.ev(e.func, st, fr)
        args = []
        for a in e.args:
            if isinstance(a, ast.Starred):
                args.extend(self.ev(a.value, st, fr))
            else:
                args.append(self.ev(a, st, fr))
        kwargs = {k.arg: self.ev(k.value, st, fr) for k in e.keywords}
        return self.call_value(f, args, kwargs, st, fr, e)

    # ------------------------------------------------------------------
    # spec constructs
    # ------------------------------------------------------------------
    def ev_old(self, e, st, fr):
        entry = fr.entry
        if entry is None:
            raise OutOfReach('old() outside a contract')
        env = dict(entry.env)
        for names in fr.lambda_names:
            for n in names:
                if n in st.env:
                    env[n] = st.env[n]
        for n in ('result',):
            if n in st.env:
                env[n] = st.env[n]
        tmp = State()
        tmp.env = env
        tmp.heap = entry.heap
        tmp.objs = entry.objs
        tmp.bufs = entry.bufs
        tmp.pc = st.pc
        old_spec = fr.spec_only
        fr.spec_only = True
        try:
            v = self.ev(e.args[0], tmp, fr)
        finally:
            fr.spec_only = old_spec
        if isinstance(v, Arr):
            return SpecArr(entry.heap[v.aid], v.shape, v.elem)
        return v

    def ev_spec(self, nm, e, st, fr):
        if nm == 'implies':
            c = truth(self.ev(e.args[0], st, fr))
            if isinstance(c, bool) and not c:
                return True
            if not isinstance(c, bool):
                st.pc.append(c)
            try:
                b = self.ev(e.args[1], st, fr)
            finally:
                if not isinstance(c, bool):
                    st.pc.pop()
            if not isinstance(b, smt.Form):
                b = truth(b)
            return f_imp(c, b)
        if nm == 'and_':
            parts = []
            for a in e.args:
                v = self.ev(a, st, fr)
                parts.append(v if isinstance(v, smt.Form) else truth(v))
            return f_and(parts)
        if nm == 'iff':
            a = truth(self.ev(e.args[0], st, fr))
            b = truth(self.ev(e.args[1], st, fr))
            return simp(Z(a) == Z(b))
        if nm == 'ite_':
            c = truth(self.ev(e.args[0], st, fr))
            a = self.ev(e.args[1], st, fr)
            b = self.ev(e.args[2], st, fr)
            return ite(c, a, b)
        if nm == 'let':
            v = self.ev(e.args[0], st, fr)
            lam = self.ev(e.args[1], st, fr)
            return lam(v)
        if nm in ('forall', 'exists'):
            # forall(lo, hi, lambda i: body)  or forall(lo1,hi1,lo2,hi2, lambda i,j: body)
            *bounds, lam_node = e.args
            bounds = [self.ev(b, st, fr) for b in bounds]
            lam = self.ev(lam_node, st, fr)
            n = len(bounds) // 2

            def body(*cs, lam=lam, bounds=bounds, n=n):
                guard = []
                for k in range(n):
                    guard.append(compare('LtE', bounds[2 * k], cs[k]))
                    guard.append(compare('Lt', cs[k], bounds[2 * k + 1]))
                g = b_and(*guard)
                if isinstance(g, bool) and not g:
                    return True
                b = lam(*cs)
                if not isinstance(b, smt.Form):
                    b = truth(b)
                return f_imp(g, b)
            # concrete small ranges are expanded
            if all(is_cint(b) for b in bounds) and n == 1 and bounds[1] - bounds[0] <= 64:
                parts = [body(k) for k in range(bounds[0], bounds[1])]
                if nm == 'forall':
                    return f_and(parts)
                return b_or(*[p for p in parts]) if parts else False
            if nm == 'forall':
                return FForall(n, body, ast.unparse(e)[:80], [(bounds[2 * k], bounds[2 * k + 1]) for k in range(n)],
                               names=list(getattr(lam, '_params', [])))
            wit = [self.ev(k.value, st, fr) for k in e.keywords if k.arg == 'witness']

            def ebody(c, lam=lam, bounds=bounds):
                g = b_and(compare('LtE', bounds[0], c), compare('Lt', c, bounds[1]))
                b = lam(c)
                return b_and(g, truth(b))
            return FExists(ebody, wit)
        if nm == 'sum_':
            lo = self.ev(e.args[0], st, fr)
            hi = self.ev(e.args[1], st, fr)
            lam = self.ev(e.args[2], st, fr)
            if is_cint(lo) and is_cint(hi) and hi - lo <= 64:
                r = 0
                for k in range(lo, hi):
                    r = binop('Add', r, lam(k))
                return r
            K = fresh('K')
            old_spec = fr.spec_only
            fr.spec_only = True
            try:
                T = lam(K)
            finally:
                fr.spec_only = old_spec
            T = Z(T)
            # captured variables: every free constant of the summand except the index (explicit arguments of the
            # sum function, so that substitution under an enclosing binder reaches them)
            caps = smt.free_consts(T, exclude=K)
            canon = [z3.Int('K!canon')] + [z3.Const('cap!%d' % n, c.sort()) for n, c in enumerate(caps)]
            cT = z3.substitute(T, (K, canon[0]), *[(c, canon[n + 1]) for n, c in enumerate(caps)])
            key = cT.get_id()
            self.ctx.registry.keep.append(cT)
            real = T.sort() == REAL

            def term(k, *cv, cT=cT, canon=canon):
                return z3.substitute(cT, (canon[0], k), *[(canon[n + 1], v) for n, v in enumerate(cv)])
            sf = self.ctx.registry.sum_fun(key, [c.sort() for c in caps], term, real)
            return sf.decl(ZI(lo), ZI(hi), *caps)
        raise OutOfReach('spec construct ' + nm)

    def spec_call(self, name, args, st, fr):
        """Application of a registered spec function (uninterpreted + unfolding)."""
        sp = self.ctx.spec_funs[name]
        zargs = []
        for a, srt in zip(args, sp['sorts']):
            if self.is_arr(a):
                zargs.append(self.arr_term(st, a))
            elif srt == REAL:
                zargs.append(ZR(a))
            elif srt == INT:
                zargs.append(ZI(a))
            else:
                zargs.append(Z(a))
        if len(zargs) != len(sp['sorts']):
            raise OutOfReach('spec function arity ' + name)
        return sp['decl'](*zargs)
