"""Flat buffers seen through C-order lenses (DESIGN 2.4, "buffers and views") - used for the transpose helpers.

A flat buffer is an ordinary rank-1 array of the engine.  A FlatView reads/writes it through
    address(j) = off + FLAT_R(S ; L(j)),   L(j)[perm[k]] = starts[perm[k]] + j[k]
where S is the lens shape given to reshape(), FLAT_R is an *uninterpreted* function per rank and PROD_R(S) is the
(uninterpreted) element count.  What the proofs may use about them is instantiated per occurrence:
    bounds       0 <= L < S componentwise  =>  0 <= FLAT(S;L) < PROD(S)
    injectivity  FLAT(S;L) = FLAT(S;L') for in-box L, L'  =>  L = L'      (proved; only handed to the solver with VF_FLAT_INJ=1)
    concat       FLAT([p*s0,s1..]; r*s0+i0, i1..) = r*PROD([s0,s1..]) + FLAT([s0,s1..]; i0,i1..)   (C order, axis 0)
    PROD([p*s0,s1..]) = p*PROD([s0,s1..]),  PROD >= 0
These are facts about row-major addressing; vf/lemmas_flat.py proves each of them with z3 from the definition
FLAT = sum_k L_k * prod_{l>k} S_l for ranks 2-4 (run at the start of every check that uses this module).
Writing through a view replaces the buffer by a fresh array constrained by three quantified facts (written box,
rest of the lens region, outside the region), so no inverse of FLAT is ever needed.
"""
import itertools

import z3

from . import smt
from .smt import QFact, f_imp, f_and, fresh
from . import vals as V
from .vals import OutOfReach, Arr, ExprArr, ArrView, INT, REAL, is_cint, is_sym, ZI, ZR, Z, binop, compare, b_and, simp

_FLAT = {}
_PROD = {}


def FLAT(rank):
    if rank not in _FLAT:
        _FLAT[rank] = z3.Function('flat%d' % rank, *([INT] * (2 * rank + 1)))
    return _FLAT[rank]


def PROD(rank):
    if rank not in _PROD:
        _PROD[rank] = z3.Function('prod%d' % rank, *([INT] * (rank + 1)))
    return _PROD[rank]


def flat_term(S, L):
    if len(S) == 1:
        return ZI(L[0])
    return FLAT(len(S))(*([ZI(s) for s in S] + [ZI(x) for x in L]))


def prod_term(S):
    S = list(S)
    if len(S) == 1:
        return ZI(S[0])
    if all(is_cint(s) for s in S):
        r = 1
        for s in S:
            r *= s
        return z3.IntVal(r)
    # multiplication is commutative: canonical argument order, so that permuted lenses have the same element count
    args = sorted([ZI(s) for s in S], key=lambda t: t.sexpr())
    return PROD(len(S))(*args)


class FlatView(ExprArr):
    """Live view of a flat buffer through a C-order lens, possibly permuted and restricted to a sub-box."""

    def __init__(self, base, off, lens, perm=None, starts=None, shape=None):
        self.base = base
        self.off = off
        self.lens = list(lens)
        R = len(self.lens)
        self.perm = list(perm) if perm is not None else list(range(R))
        self.starts = list(starts) if starts is not None else [0] * R      # per LENS axis
        self.shape = list(shape) if shape is not None else [self.lens[self.perm[k]] for k in range(R)]   # per VIEW axis
        self.rank = R
        self.elem = base.elem
        self.fn = None

    def lens_index(self, j):
        L = [None] * self.rank
        for k in range(self.rank):
            L[self.perm[k]] = binop('Add', self.starts[self.perm[k]], j[k])
        return L

    def address(self, j):
        return simp(ZI(binop('Add', self.off, flat_term(self.lens, self.lens_index(j)))))


class FlatMixin:

    # ---- construction ------------------------------------------------------------------------------
    def flat_reshape(self, st, fr, v, shape, node):
        """v.reshape(shape) for a contiguous rank-1 view / array."""
        shape = list(shape) if isinstance(shape, (list, tuple)) else [shape]
        if isinstance(v, Arr) and v.rank == 1:
            base, off, n = v, 0, v.shape[0]
        elif isinstance(v, ArrView) and v.rank == 1 and v.base.rank == 1:
            base, off, n = v.base, v.spec[0][1], v.shape[0]
        elif isinstance(v, FlatView) and v.perm == list(range(v.rank)) and all(is_cint(s) and s == 0 for s in v.starts) \
                and all(self._same(a, b) for a, b in zip(v.shape, v.lens)):
            base, off, n = v.base, v.off, prod_term(v.lens)
        else:
            raise OutOfReach('reshape of a non-contiguous array')
        # numpy: the number of elements must agree
        self.safety(st, fr, 'reshape_size', compare('Eq', n, simp(prod_term(shape))), node)
        for s in shape:
            self.safety(st, fr, 'reshape_nonneg', compare('GtE', s, 0), node)
        if len(shape) == 1:
            return ArrView(base, [('s', off)], [shape[0]])
        return FlatView(base, off, shape)

    def _same(self, a, b):
        if not is_sym(a) and not is_sym(b):
            return a == b
        return Z(a).eq(Z(b)) or z3.simplify(Z(a) - Z(b)).eq(z3.IntVal(0))

    def flat_subscript(self, st, fr, v, idx, node):
        if not isinstance(idx, tuple):
            idx = (idx,)
        idx = list(idx) + [slice(None)] * (v.rank - len(idx))
        if all(not isinstance(i, slice) for i in idx):
            j = [self.norm_index(st, fr, i, v.shape[k], node) for k, i in enumerate(idx)]
            return simp(z3.Select(st.heap[v.base.aid], v.address(j)))
        if any(not isinstance(i, slice) for i in idx):
            raise OutOfReach('mixed index / slice on a reshaped view')
        starts = list(v.starts)
        shape = []
        for k, i in enumerate(idx):
            n = v.shape[k]
            lo = 0 if i.start is None else i.start
            hi = n if i.stop is None else i.stop
            if i.step is not None and i.step != 1:
                raise OutOfReach('strided slice')
            self.safety(st, fr, 'slice_bounds', b_and(compare('GtE', lo, 0), compare('LtE', lo, hi), compare('LtE', hi, n)), node)
            starts[v.perm[k]] = binop('Add', starts[v.perm[k]], lo)
            shape.append(binop('Sub', hi, lo))
        return FlatView(v.base, v.off, v.lens, v.perm, starts, shape)

    def flat_transpose(self, st, v, order):
        order = [int(o) for o in order]
        if sorted(order) != list(range(v.rank)):
            raise OutOfReach('transpose with a non-permutation')
        if isinstance(v, FlatView):
            return FlatView(v.base, v.off, v.lens, [v.perm[o] for o in order], v.starts, [v.shape[o] for o in order])
        f = self.elem_fn(st, v)
        inv = [order.index(k) for k in range(v.rank)]
        # result[j] = v[j o order^-1]: axis k of the result is axis order[k] of v
        return ExprArr([v.shape[o] for o in order], lambda j, f=f: f(tuple(j[inv[k]] for k in range(len(j)))), v.elem)

    def flat_elem_fn(self, st, v):
        t = st.heap[v.base.aid]
        return lambda j, v=v, t=t: z3.Select(t, v.address(j))

    # ---- writing -------------------------------------------------------------------------------------
    def flat_store(self, st, fr, v, idx, val, node):
        if idx is not None:
            v = self.flat_subscript(st, fr, v, idx, node)
            if not isinstance(v, FlatView):
                raise OutOfReach('element store through a reshaped view')
        if self.is_arr(val):
            if val.rank != v.rank:
                raise OutOfReach('broadcast in assignment through a reshaped view')
            for a, b in zip(val.shape, v.shape):
                self.safety(st, fr, 'shape_agreement', compare('Eq', a, b), node)
            vf = self.elem_fn(st, val)       # snapshot of the right-hand side (numpy copies on overlap)
        else:
            vf = (lambda j, val=val: val)
        base = v.base
        old = st.heap[base.aid]
        V._arr_counter[0] += 1
        new = z3.Const('%s!w%d' % (base.name, V._arr_counter[0]), base.sort())
        st.heap[base.aid] = new
        R = v.rank
        region_lo = ZI(v.off)
        region_hi = ZI(binop('Add', v.off, prod_term(v.lens)))

        def written(*L):
            # stated over lens coordinates (the address is then a plain FLAT(lens; L) term that matches reads directly);
            # the view index is j[k] = L[perm[k]] - starts[perm[k]]
            j = [binop('Sub', L[v.perm[k]], v.starts[v.perm[k]]) for k in range(R)]
            g = b_and(*[b_and(compare('GtE', j[k], 0), compare('Lt', j[k], v.shape[k])) for k in range(R)])
            x = vf(tuple(j))
            x = ZR(x) if base.elem == REAL else Z(x)
            return f_imp(g, z3.Select(new, ZI(binop('Add', v.off, flat_term(v.lens, L)))) == x)

        def rest_of_region(*L):
            inlens = b_and(*[b_and(compare('GtE', L[k], 0), compare('Lt', L[k], v.lens[k])) for k in range(R)])
            inbox = b_and(*[b_and(compare('GtE', L[k], v.starts[k]),
                                  compare('Lt', L[k], binop('Add', v.starts[k], v.shape[v.perm.index(k)]))) for k in range(R)])
            a = ZI(binop('Add', v.off, flat_term(v.lens, L)))
            return f_imp(b_and(inlens, V.b_not(inbox)), z3.Select(new, a) == z3.Select(old, a))

        def outside(k):
            return f_imp(V.b_or(compare('Lt', k, region_lo), compare('GtE', k, region_hi)), z3.Select(new, k) == z3.Select(old, k))
        st.qfacts.append(QFact(R, written, 'view write: written box'))
        st.qfacts.append(QFact(R, rest_of_region, 'view write: rest of the lens region'))
        st.qfacts.append(QFact(1, outside, 'view write: outside the region'))


def flat_axioms(rank, app):
    """Facts about one occurrence FLAT_R(S; L)."""
    ch = app.children()
    S, L = ch[:rank], ch[rank:]
    inbox = z3.And(*[z3.And(L[k] >= 0, L[k] < S[k]) for k in range(rank)])
    P = prod_term(S)
    return [z3.Implies(inbox, z3.And(app >= 0, app < P)), z3.Implies(z3.And(*[s >= 0 for s in S]), P >= 0)]


def _factors(t):
    """(a, b) if t is syntactically a product of two terms."""
    if z3.is_app(t) and t.decl().kind() == z3.Z3_OP_MUL and t.num_args() == 2:
        return t.arg(0), t.arg(1)
    return None


def prod_axioms(rank, app):
    out = [z3.Implies(z3.And(*[s >= 0 for s in app.children()]), app >= 0)]
    args = app.children()
    for k, a in enumerate(args):
        f = _factors(a)
        if f is not None:
            for (x, y) in (f, (f[1], f[0])):
                # multiplicativity: prod(.., x*y, ..) = y * prod(.., x, ..)
                out.append(app == y * prod_term(args[:k] + [x] + args[k + 1:]))
    return out


def prod_pair_axioms(rank, a1, a2):
    """Monotonicity of the element count: two occurrences whose argument multisets differ in exactly one element."""
    A, B = list(a1.children()), list(a2.children())
    restA, restB = list(A), []
    for b in B:
        hit = None
        for k, a in enumerate(restA):
            if a.eq(b):
                hit = k
                break
        if hit is None:
            restB.append(b)
        else:
            restA.pop(hit)
    if len(restA) != 1 or len(restB) != 1:
        return []
    x, y = restA[0], restB[0]
    common = list(B)
    common.remove(y)
    nonneg = [c >= 0 for c in common]
    return [z3.Implies(z3.And(*(nonneg + [0 <= x, x <= y])), a1 <= a2), z3.Implies(z3.And(*(nonneg + [0 <= y, y <= x])), a2 <= a1)]


def concat_block_axioms(rank, app):
    """Row-major concatenation along axis 0 (DESIGN 2.4), block form: for a lens whose first extent is a product m*p and a
    first index of the shape m*r + i0:  FLAT([m*p, rest]; m*r + i0, rest_idx) = r*PROD([m, rest]) + FLAT([m, rest]; i0, rest_idx)."""
    ch = app.children()
    S, L = ch[:rank], ch[rank:]
    f = _factors(S[0])
    if f is None:
        return []
    out = []
    L0 = z3.simplify(L[0])
    adds = L0.children() if (z3.is_app(L0) and L0.decl().kind() == z3.Z3_OP_ADD) else [L0]
    for (m, p) in (f, (f[1], f[0])):
        for t in adds:
            g = _factors(t)
            if g is None:
                continue
            for (u, r) in (g, (g[1], g[0])):
                if u.eq(m):
                    i0 = z3.simplify(L0 - t)
                    small = [m] + list(S[1:])
                    out.append(z3.Implies(z3.And(r >= 0, r < p, i0 >= 0, i0 < m),
                                          app == r * prod_term(small) + FLAT(rank)(*(small + [i0] + list(L[1:])))))
    return out


def concat_rel_axioms(rank, app, r):
    """Relational block form, valid for every integer r: for a lens whose first extent is a product m*p,
    0 <= r < p and 0 <= x - m*r < m  =>  FLAT([m*p, rest]; x, rest_idx) = r*PROD([m, rest]) + FLAT([m, rest]; x - m*r, rest_idx)."""
    ch = app.children()
    S, L = ch[:rank], ch[rank:]
    f = _factors(S[0])
    if f is None:
        return []
    out = []
    for (m, p) in (f, (f[1], f[0])):
        i0 = L[0] - m * r
        small = [m] + list(S[1:])
        out.append(z3.Implies(z3.And(r >= 0, r < p, i0 >= 0, i0 < m),
                              app == r * prod_term(small) + FLAT(rank)(*(small + [i0] + list(L[1:])))))
    return out


def flat_pair_axiom(rank, a1, a2):
    """Injectivity for two occurrences with the same lens."""
    c1, c2 = a1.children(), a2.children()
    S1, L1, S2, L2 = c1[:rank], c1[rank:], c2[:rank], c2[rank:]
    same = z3.And(*[x == y for x, y in zip(S1, S2)])
    in1 = z3.And(*[z3.And(L1[k] >= 0, L1[k] < S1[k]) for k in range(rank)])
    in2 = z3.And(*[z3.And(L2[k] >= 0, L2[k] < S2[k]) for k in range(rank)])
    return z3.Implies(z3.And(same, in1, in2, a1 == a2), z3.And(*[x == y for x, y in zip(L1, L2)]))


def concat_axiom(rank, app, p, s0):
    """C-order concatenation along axis 0 for an occurrence FLAT([p*s0, rest]; x, rest_idx) split as x = r*s0 + i0
    (the caller supplies p and s0; r, i0 are div/mod - which z3 gets as fresh integers constrained linearly)."""
    ch = app.children()
    S, L = ch[:rank], ch[rank:]
    r, i0 = fresh('blk'), fresh('rem')
    small = [s0] + list(S[1:])
    return z3.Implies(z3.And(S[0] == p * s0, s0 > 0, L[0] >= 0, L[0] < S[0]),
                      z3.And(L[0] == r * s0 + i0, 0 <= i0, i0 < s0, 0 <= r, r < p,
                             app == r * prod_term(small) + FLAT(rank)(*(small + [i0] + list(L[1:]))),
                             prod_term(S) == p * prod_term(small)))
