"""Mechanical backward slice of one repo function on a set of tracked targets (used when the tail of a function is
outside the executor's subset but the property clause only concerns values computed before it).

Module path syntax:  <file.py>#slice:<Class.method>:<target>,<target>,...[:<callee>,<callee>]   (targets: local names or
`self.attr`; optional callees = repo constructors ASSUMED not to change their arguments, listed as an assumption)

Rule, applied to the top-level statements of the function from the last to the first (`with` blocks are entered):
  keep  an assignment with a target whose root (the name, `self.attr`, or the base of a subscript) is needed; its reads
        (every name and every `self.attr` occurring in it) become needed; a plain rebinding of the root ends the need for
        earlier definitions of it, a subscript store does not;
  keep  every other kind of statement (loops, branches, calls, returns, asserts, docstring) and make all its reads needed;
  drop  an assignment none of whose targets is needed - ONLY IF it cannot change a needed object: all its targets are plain
        rebindings (a local name or `self.attr`, no subscript, no augmented assignment) and every call on its right-hand side
        is a `np.<function>(...)` call (numpy expression functions do not mutate their arguments).  Anything else that is
        not needed makes the slice fail (engine error, never a verdict).
The function node of the module tree is rewritten in place; nothing is written by hand.  The dropped line numbers are
reported in the evidence.
"""
import ast


class SliceError(Exception):
    pass


def _dotted(n):
    if isinstance(n, ast.Name):
        return n.id
    if isinstance(n, ast.Attribute) and isinstance(n.value, ast.Name):
        return n.value.id + '.' + n.attr
    return None


def _root(t):
    """(root, partial) of an assignment target."""
    partial = False
    while isinstance(t, ast.Subscript):
        t = t.value
        partial = True
    return _dotted(t), partial


def _reads(node):
    out = set()
    for n in ast.walk(node):
        d = _dotted(n)
        if d is not None:
            out.add(d)
    return out


_ALLOWED = set()      # extra callee names accepted as non-mutating (4th field of the module path; reported as an assumption)


def _pure_rhs(v):
    for n in ast.walk(v):
        if isinstance(n, ast.Call):
            f = n.func
            if isinstance(f, ast.Name) and f.id in (_ALLOWED | {'range', 'len'}):
                continue
            if not (isinstance(f, ast.Attribute) and isinstance(f.value, ast.Name) and f.value.id == 'np'):
                return False
    return True


def _slice(stmts, needed, dropped):
    out = []
    for st in reversed(stmts):
        if isinstance(st, ast.With):
            body = _slice(st.body, needed, dropped)
            if body:
                new = ast.With(items=st.items, body=body)
                out.append(ast.copy_location(new, st))
                for it in st.items:
                    needed |= _reads(it.context_expr)
            else:
                dropped.append(st.lineno)
            continue
        if isinstance(st, ast.Assign):
            roots = [_root(t) for t in st.targets]
            if any(r in needed for r, _ in roots if r is not None):
                out.append(st)
                for (r, partial), t in zip(roots, st.targets):
                    if r is not None and not partial:
                        needed.discard(r)
                for t in st.targets:
                    if isinstance(t, ast.Subscript):
                        needed |= _reads(t)
                needed |= _reads(st.value)
                continue
            ok = all(r is not None and not partial for r, partial in roots) and _pure_rhs(st.value)
            if not ok:
                raise SliceError('line %d: unneeded statement might change a needed object' % st.lineno)
            dropped.append(st.lineno)
            continue
        out.append(st)
        needed |= _reads(st)
    out.reverse()
    return out


def apply(tree, qual, targets, allowed=()):
    """Rewrite function `qual` (Class.method or function) of the module tree; return the dropped line numbers."""
    _ALLOWED.clear()
    _ALLOWED.update(allowed)
    parts = qual.split('.')
    body = tree.body
    node = None
    for p in parts:
        node = next((n for n in body if isinstance(n, (ast.FunctionDef, ast.ClassDef)) and n.name == p), None)
        if node is None:
            raise SliceError('function %s not found' % qual)
        body = node.body
    dropped = []
    needed = set(targets)
    node.body = _slice(node.body, needed, dropped) or [ast.Pass()]
    if not dropped:
        raise SliceError('slice of %s drops nothing: use the plain module' % qual)
    return sorted(dropped)
