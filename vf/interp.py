"""Symbolic executor for the Python subset used by the pygyro kernels and index code.

The AST that is executed is re-read from /repo on every run (DESIGN.md 2.1).
"""
import ast
import copy
import hashlib
import os
from fractions import Fraction

import z3

from . import smt
from .smt import FForall, FAnd, FImp, FExists, QFact, f_and, f_imp, fresh, is_qf, zbool
from .vals import *  # noqa
from . import vals as V

REPO = os.environ.get('VF_REPO', '/repo')


# --------------------------------------------------------------------------
# modules
# --------------------------------------------------------------------------

class Module:
    def __init__(self, relpath, repo=None):
        self.relpath = relpath
        self.repo = repo or REPO
        self.path = os.path.join(self.repo, relpath)
        if relpath == 'fullSimulation.py#counters':
            # mechanical slice of the driver (rule and dropped lines: vf/driver_slice.py)
            from .driver_slice import sliced_source
            self.source, self.dropped_lines = sliced_source(self.repo)
        elif '#slice:' in relpath:
            # mechanical backward slice of one function (rule: vf/func_slice.py); the rest of the module is unchanged
            real, _, spec = relpath.partition('#slice:')
            self.path = os.path.join(self.repo, real)
            with open(self.path) as fh:
                self.source = fh.read()
        else:
            with open(self.path) as fh:
                self.source = fh.read()
        self.tree = ast.parse(self.source)
        if '#slice:' in relpath:
            from .func_slice import apply as _apply_slice
            q_, _, tg_ = relpath.partition('#slice:')[2].partition(':')
            tg_, _, al_ = tg_.partition(':')
            self.dropped_lines = _apply_slice(self.tree, q_, [t for t in tg_.split(',') if t], [a for a in al_.split(',') if a])
        self.lines = self.source.splitlines()
        self.functions = {}
        self.classes = {}
        self.imports = {}     # local name -> (module relpath, name)
        self.modimports = {}  # import x as y
        self.globals = {}
        for node in self.tree.body:
            if isinstance(node, ast.FunctionDef):
                self.functions[node.name] = node
            elif isinstance(node, ast.ClassDef):
                self.classes[node.name] = node
                for sub in node.body:
                    if isinstance(sub, ast.FunctionDef):
                        self.functions[node.name + '.' + sub.name] = sub
            elif isinstance(node, ast.ImportFrom):
                self._import_from(node)
            elif isinstance(node, ast.Import):
                for alias in node.names:
                    self.modimports[(alias.asname or alias.name).split('.')[0]] = alias.name
            elif isinstance(node, ast.Assign) and len(node.targets) == 1 and isinstance(node.targets[0], ast.Name):
                self.globals[node.targets[0].id] = node.value

    def _import_from(self, node):
        base = os.path.dirname(self.relpath)
        if node.level:
            for _ in range(node.level - 1):
                base = os.path.dirname(base)
            mod = node.module or ''
            rel = os.path.join(base, *mod.split('.')) if mod else base
        else:
            rel = os.path.join(*node.module.split('.'))
        for alias in node.names:
            self.imports[alias.asname or alias.name] = (rel + '.py', alias.name, node.module)

    def segment(self, node):
        return ast.get_source_segment(self.source, node)

    def fhash(self, qual):
        return hashlib.sha256(self.segment(self.functions[qual]).encode()).hexdigest()[:16]


_modules = {}


def load_module(relpath, repo=None):
    key = (repo or REPO, relpath)
    if key not in _modules:
        _modules[key] = Module(relpath, repo)
    return _modules[key]


def clear_modules():
    _modules.clear()


# --------------------------------------------------------------------------
# state
# --------------------------------------------------------------------------

class State:
    def __init__(self):
        self.env = {}
        self.heap = {}        # aid -> z3 array term
        self.pc = []          # qf hypotheses
        self.qfacts = []      # quantified hypotheses
        self.status = 'normal'
        self.retval = None
        self.exc = None
        self.trace = []       # ghost trace of branch decisions (line, taken)
        self.ghost = {}
        self.objs = {}
        self.bufs = {}

    def fork(self):
        s = State.__new__(State)
        # mutable Python containers (lists / dicts built by the code under verification) are copied, with aliasing inside the
        # state preserved: a list appended to on one path must not change on its sibling paths
        memo = {}
        s.env = {k: _cp(v, memo) for k, v in self.env.items()}
        s._memo = memo
        s.heap = dict(self.heap)
        s.pc = list(self.pc)
        s.qfacts = list(self.qfacts)
        s.status = self.status
        s.retval = self.retval
        s.exc = self.exc
        s.trace = list(self.trace)
        s.ghost = dict(self.ghost)
        s.objs = {k: {a: _cp(x, memo) for a, x in v.items()} for k, v in self.objs.items()}
        del s._memo
        s.bufs = dict(self.bufs)
        return s

    def assume(self, f):
        qf, q = [], []
        smt.to_facts(f, qf, q)
        for g in qf:
            if not z3.is_true(g):
                self.pc.append(g)
        self.qfacts.extend(q)


def _cp(v, memo):
    t = type(v)
    if t is list:
        r = memo.get(id(v))
        if r is None:
            r = []
            memo[id(v)] = r
            r.extend(_cp(x, memo) for x in v)
        return r
    if t is dict:
        r = memo.get(id(v))
        if r is None:
            r = {}
            memo[id(v)] = r
            for k, x in v.items():
                r[k] = _cp(x, memo)
        return r
    return v


class Obligation:
    def __init__(self, name, kind, func, lineno, hyps, qfacts, goal, skolems=(), clause=None):
        self.name = name
        self.kind = kind
        self.func = func
        self.lineno = lineno
        self.hyps = hyps
        self.qfacts = qfacts
        self.goal = goal
        self.skolems = list(skolems)
        self.clause = clause
        self.status = None
        self.backend = None
        self.seconds = 0.0
        self.env = None
        self.hints = []


class Contract:
    def __init__(self, key, d):
        self.key = key
        self.requires = list(d.get('requires', []))
        self.ensures = list(d.get('ensures', []))
        self.modifies = d.get('modifies', None)   # list of array param names; None = all non-Final arrays
        self.loops = d.get('loops', {})
        self.pure = d.get('pure', False)
        self.params = d.get('params', {})
        self.returns = d.get('returns', None)
        self.funparams = d.get('funparams', {})   # param name -> abstract contract key
        self.raises = d.get('raises', [])          # list of (ExcName, when-clause)
        self.ghost = d.get('ghost', [])
        self.inline = d.get('inline', False)
        self.hints = d.get('hints', [])
        self.abstract = d.get('abstract', False)
        self.lemmas = d.get('lemmas', [])
        self.decreases_entry = d.get('decreases', None)
        self.ghost_out = d.get('ghost_out', {})   # name -> (rank, [shape exprs]): ghost arrays the postcondition may mention
        self.alltoall = d.get('alltoall', None)   # (chunk size expr, [chunk lens exprs]) for the Alltoall issued by this function
        self.allgather = d.get('allgather')   # (chunk expr, [lens exprs, may mention r]) for MPI_Allgather
        self.creates = d.get('creates', {})   # attributes of self the method creates: name -> sort spec (fresh values constrained by ensures)
        self.allow_negative_index = d.get('allow_negative_index', False)
        self.interp_src = d.get('interp_src', None)   # (spline param, data param): records what the spline now interpolates
        self.elementwise = d.get('elementwise', False)   # pure one-argument function parameter that maps over arrays entry by entry (assumed)
        self.sets = d.get('sets', {})   # attribute of self -> expression (post-state); an ensures when verified, an assignment when used


class Ctx:
    """Verification context: registry of contracts, spec functions, obligations."""

    def __init__(self, repo=None):
        self.repo = repo or REPO
        self.contracts = {}
        self.registry = smt.Registry()
        self.spec_funs = {}      # name -> (argnames, body ast, sorts, ret sort, src)
        self.obligations = []
        self.notes = []
        self.paths = 0
        self.pruned = 0
        self.reached = set()
        self.pure_decls = {}
        self.axioms = list(V.PI_AXIOMS)
        self.global_qfacts = []
        self.consts = {}
        self.inline_depth = 4

    def add_contracts(self, table):
        for k, d in table.items():
            self.contracts[k] = Contract(k, d)

    def contract_for(self, relpath, qual):
        return self.contracts.get(relpath + '::' + qual)


class Return(Exception):
    pass
