"""Row-major addressing facts used by vf/flat.py, proved from the definition (ranks 2-4).

vf/flat.py keeps FLAT_R (flat index of a multi-index through a C-order lens) and PROD_R (element count) uninterpreted
and hands the solver, per occurrence, a few facts about them.  Here each fact is proved, for each rank, with FLAT and
PROD replaced by their definitions

    PROD(S)      = S_0 * ... * S_{R-1}
    FLAT(S ; L)  = sum_k L_k * prod_{l>k} S_l          (numpy C order)

over the mathematical integers (encoding assumption A2).  The proofs go rank by rank: the tail FLAT(S[1:] ; L[1:]) and the
tail product are replaced by variables constrained by the facts already proved for rank R-1 (bounds), which leaves small
nonlinear goals of the shape  (a - b) * P >= 0.  Each goal is given to z3 (nonlinear integer arithmetic) and, if z3 does
not answer, to the NRA abstraction with explicit product lemmas.  The result is reported as lemma obligations of the check.
"""
import time

import z3


def _prove(name, hyps, goal, timeout):
    t0 = time.time()
    for tactic in ('default', 'qfnia', 'nra'):
        s = z3.Solver() if tactic == 'default' else z3.Then('simplify', 'qfnia' if tactic == 'qfnia' else 'qfnra-nlsat').solver()
        s.set('timeout', int(timeout * 1000))
        s.add(*hyps)
        s.add(z3.Not(goal))
        try:
            r = s.check()
        except z3.Z3Exception:
            continue
        if r == z3.unsat:
            return dict(name=name, status='discharged', backend='z3py/' + tactic, seconds=round(time.time() - t0, 3))
        if r == z3.sat and tactic != 'nra':
            return dict(name=name, status='refuted', backend='z3py/' + tactic, seconds=round(time.time() - t0, 3), model=str(s.model()))
    return dict(name=name, status='undecided', backend='all-unknown', seconds=round(time.time() - t0, 3))


def flat_def(S, L):
    R = len(S)
    t = 0
    for k in range(R):
        w = 1
        for l in range(k + 1, R):
            w = w * S[l]
        t = t + L[k] * w
    return t


def prod_def(S):
    w = 1
    for s in S:
        w = w * s
    return w


def lemmas(rank):
    """(name, hyps, goal) list for one rank.  Tail quantities are abstracted: f = FLAT(tail), P = PROD(tail) with the
    rank-(R-1) facts as hypotheses; the step from the abstraction to the definition is the ring identity `unfold`."""
    I = z3.Int
    S = [I('S%d' % k) for k in range(rank)]
    L = [I('L%d' % k) for k in range(rank)]
    M = [I('M%d' % k) for k in range(rank)]
    out = []
    # unfold: FLAT(S;L) = L0 * PROD(S[1:]) + FLAT(S[1:];L[1:]),  PROD(S) = S0 * PROD(S[1:])   (ring identities)
    out.append(('unfold_flat', [], flat_def(S, L) == L[0] * prod_def(S[1:]) + (flat_def(S[1:], L[1:]) if rank > 1 else 0)))
    out.append(('unfold_prod', [], prod_def(S) == S[0] * prod_def(S[1:])))
    # step lemmas over the abstraction (f, P): these carry the induction on the rank
    f, g, P, a, b, s0 = I('f'), I('g'), I('P'), I('a'), I('b'), I('s0')
    out.append(('bounds_step', [0 <= a, a < s0, 0 <= f, f < P], z3.And(a * P + f >= 0, a * P + f < s0 * P)))
    out.append(('prod_nonneg_step', [s0 >= 0, P >= 0], s0 * P >= 0))
    out.append(('prod_monotone_step', [0 <= a, a <= b, P >= 0], a * P <= b * P))
    out.append(('injective_step', [0 <= f, f < P, 0 <= g, g < P, a * P + f == b * P + g], z3.And(a == b, f == g)))
    # the full statements at this rank, from the definition (direct attempt; the step lemmas above are the fallback argument)
    inbox = [z3.And(L[k] >= 0, L[k] < S[k]) for k in range(rank)]
    inbox2 = [z3.And(M[k] >= 0, M[k] < S[k]) for k in range(rank)]
    # concatenation along axis 0 (ring identity): FLAT([m*p, rest]; m*r + i0, rest) = r*PROD([m, rest]) + FLAT([m, rest]; i0, rest)
    m, p, r, i0 = I('m'), I('p'), I('r'), I('i0')
    out.append(('concat', [], flat_def([m * p] + S[1:], [m * r + i0] + L[1:]) ==
                r * prod_def([m] + S[1:]) + flat_def([m] + S[1:], [i0] + L[1:])))
    x = I('x')
    out.append(('concat_rel', [], flat_def([m * p] + S[1:], [x] + L[1:]) ==
                r * prod_def([m] + S[1:]) + flat_def([m] + S[1:], [x - m * r] + L[1:])))
    # multiplicativity of the element count in every argument, and its invariance under permutation of the arguments
    y = I('y')
    for k in range(rank):
        S2 = list(S)
        S2[k] = S[k] * y
        out.append(('prod_mult_%d' % k, [], prod_def(S2) == y * prod_def(S)))
    for k in range(rank):
        # monotone in every argument (the others non-negative): by prod_monotone_step with P = product of the others
        S2 = list(S)
        S2[k] = y
        others = [S[l] for l in range(rank) if l != k]
        Pv = I('Pothers')
        out.append(('prod_monotone_%d' % k, [Pv == prod_def(others), Pv >= 0, 0 <= S[k], S[k] <= y, z3.Implies(z3.And(0 <= S[k], S[k] <= y, Pv >= 0), S[k] * Pv <= y * Pv)],
                    prod_def(S) <= prod_def(S2)))
    for k in range(rank - 1):
        S2 = list(S)
        S2[k], S2[k + 1] = S2[k + 1], S2[k]
        out.append(('prod_swap_%d' % k, [], prod_def(S2) == prod_def(S)))
    return out, (S, L, M, inbox, inbox2)


def derived(rank):
    """bounds / injectivity / non-negativity at rank R from the step lemmas, by unrolling the rank induction with the tail
    quantities as variables (linear reasoning plus instances of the step lemmas)."""
    I = z3.Int
    # variables: P_k = PROD(S[k:]), f_k = FLAT(S[k:]; L[k:]), g_k likewise for M
    S = [I('S%d' % k) for k in range(rank)]
    L = [I('L%d' % k) for k in range(rank)]
    M = [I('M%d' % k) for k in range(rank)]
    P = [I('P%d' % k) for k in range(rank + 1)]
    F = [I('f%d' % k) for k in range(rank + 1)]
    G = [I('g%d' % k) for k in range(rank + 1)]
    defs = [P[rank] == 1, F[rank] == 0, G[rank] == 0]
    # unfolding equations stay nonlinear (L_k * P_{k+1}) but only occur through the step-lemma instances below
    prods = {}

    def mul(u, v):
        key = (u.get_id(), v.get_id())
        if key not in prods:
            prods[key] = z3.Int('mul!%d' % len(prods))
        return prods[key]
    hyps = list(defs)
    inst = []
    for k in reversed(range(rank)):
        lp, mp_, sp = mul(L[k], P[k + 1]), mul(M[k], P[k + 1]), mul(S[k], P[k + 1])
        hyps += [F[k] == lp + F[k + 1], G[k] == mp_ + G[k + 1], P[k] == sp]
        # instances of the step lemmas (each proved separately, with a*P the real product)
        inst.append(z3.Implies(z3.And(0 <= L[k], L[k] < S[k], 0 <= F[k + 1], F[k + 1] < P[k + 1]), z3.And(lp + F[k + 1] >= 0, lp + F[k + 1] < sp)))
        inst.append(z3.Implies(z3.And(0 <= M[k], M[k] < S[k], 0 <= G[k + 1], G[k + 1] < P[k + 1]), z3.And(mp_ + G[k + 1] >= 0, mp_ + G[k + 1] < sp)))
        inst.append(z3.Implies(z3.And(S[k] >= 0, P[k + 1] >= 0), sp >= 0))
        inst.append(z3.Implies(z3.And(0 <= F[k + 1], F[k + 1] < P[k + 1], 0 <= G[k + 1], G[k + 1] < P[k + 1], lp + F[k + 1] == mp_ + G[k + 1]),
                               z3.And(L[k] == M[k], F[k + 1] == G[k + 1])))
    inL = [z3.And(L[k] >= 0, L[k] < S[k]) for k in range(rank)]
    inM = [z3.And(M[k] >= 0, M[k] < S[k]) for k in range(rank)]
    # rank-1 base: f_{R-1} = L_{R-1} * 1: the product with P_R = 1 is the factor itself
    base = [mul(L[rank - 1], P[rank]) == L[rank - 1], mul(M[rank - 1], P[rank]) == M[rank - 1], mul(S[rank - 1], P[rank]) == S[rank - 1]]
    H = hyps + inst + base
    return [('rank%d:bounds' % rank, H + inL, z3.And(F[0] >= 0, F[0] < P[0])),
            ('rank%d:prod_nonneg' % rank, H + [s >= 0 for s in S], P[0] >= 0),
            ('rank%d:injective' % rank, H + inL + inM + [F[0] == G[0]], z3.And(*[L[k] == M[k] for k in range(rank)]))]


def goals():
    """Every lemma as (name, hypotheses, goal)."""
    out = []
    done_steps = False
    for rank in (2, 3, 4):
        lem, _ = lemmas(rank)
        for (name, hyps, goal) in lem:
            if name.endswith('_step'):
                if done_steps:
                    continue
                out.append((name, hyps, goal))
            else:
                out.append(('rank%d:%s' % (rank, name), hyps, goal))
        done_steps = True
        out.extend(derived(rank))
    return out


def check(timeout=30):
    """-> list of result dicts (name, status, backend, seconds); hypotheses of every lemma must be satisfiable."""
    out = []
    for (name, hyps, goal) in goals():
        r = _prove(name, hyps, goal, timeout)
        if hyps:
            s = z3.Solver()
            s.set('timeout', int(timeout * 1000))
            s.add(*hyps)
            if s.check() != z3.sat:
                r['status'] = 'vacuous'
        out.append(r)
    return out


if __name__ == '__main__':
    import json
    import sys
    rs = check(float(sys.argv[1]) if len(sys.argv) > 1 else 30)
    for r in rs:
        print(json.dumps(r))
    sys.exit(0 if all(r['status'] == 'discharged' for r in rs) else 2)
