"""Regenerate MANIFEST.json from the property table (python3-vt -m vf.manifest)."""
import json
import os
import sys

HERE = os.path.dirname(os.path.dirname(os.path.abspath(__file__)))
sys.path.insert(0, HERE)
from vf.props import PROPS, A_COMMON  # noqa
from vf.manifest_text import TEXT, NOT_APPLICABLE  # noqa


def main():
    checks = []
    for pid in sorted(PROPS):
        t = TEXT[pid]
        checks.append(dict(
            property_id=pid,
            quick_cmd='./check %s --tier quick' % pid,
            thorough_cmd='./check %s --tier thorough' % pid,
            evidence_file='evidence/%s.json' % pid,
            replay_cmd_template='./check %s --replay {path}' % pid,
            engine='vf',
            level_claimed=dict(category=t['category'], text=t['text'], design_ref=t.get('design_ref', 'DESIGN.md section 4, ' + pid)),
            level_note=t['note'],
            technique=t['technique'],
        ))
    na = [dict(property_id=k, reason=v) for k, v in sorted(NOT_APPLICABLE.items()) if k not in PROPS]
    m = dict(
        version=1,
        setup_cmd='./setup.sh',
        hooks=dict(guard='PYGYRO_VERIF', enable='no hooks in /repo are needed: contracts are sidecar files and the verified '
                   'text is re-read from /repo on every run', baseline_off_cmd='cd /repo && /venv/bin/python -m pytest -ra -q '
                   '-p no:cacheprovider --timeout=900 --continue-on-collection-errors', source_commits=[], add_only=True),
        engines=[dict(name='vf', path='vf/', serves_properties=sorted(PROPS),
                      kind_free_text='contract-based deductive verifier for a Python subset: AST symbolic execution of the real '
                      'functions in /repo against sidecar contracts, VCs discharged by z3 (two builds); run-time reading of the same '
                      'contracts as bounded stand-in and replay vehicle')],
        checks=checks,
        not_applicable=na,
        notes='exit codes of ./check: 0 held, 1 violation (VIOLATION line), 2 undecided obligations, 3 engine failure',
    )
    json.dump(m, open(os.path.join(HERE, 'MANIFEST.json'), 'w'), indent=1)
    print('MANIFEST.json: %d checks, %d not applicable' % (len(checks), len(na)))


if __name__ == '__main__':
    main()
