"""Free-text parts of MANIFEST.json."""

PROOF_NOTE = ('Trusted: the AST->SMT translation of the Python subset and of the contract language (cross-checked on every run '
              'by evaluating the same clauses at run time on the real functions), explicit quantifier instantiation (sound), the '
              'sum/unfolding schemas, z3; floats are reals and ints unbounded (A1, A2). ')

TEXT = {
    'C20': dict(
        category='proof',
        text='Both process-grid functions are executed symbolically from /repo against contracts taken from the property '
             '(product, bounds, raise only when no factorisation exists, termination via decreases clauses on all four loops); '
             'every obligation is discharged by z3 for all M1, M2, P >= 1 without bound. The run-time reading of the same '
             'contract on random inputs is a labelled bounded cross-check.',
        note=PROOF_NOTE + 'Ratio comparisons are real arithmetic. "Standard layouts can be built and connected" is covered by the '
             'ensures n1<=min(nr,nv), n2<=min(nz,nv) here and by C01/C02 for the layouts themselves.',
        technique='loop invariants + decreases clauses, WP-style VCs from the AST, z3 (nonlinear int/real)'),
    'C16': dict(
        category='proof',
        text='get_perturbed_rho and get_rho are verified for all shapes against rho[i,j,k] = sum_l q[l]*(f[i,j,k,l] - feq[i,l]) '
             '(resp. without feq) with four nested loop invariants over uninterpreted finite sums, frame included.',
        note=PROOF_NOTE + 'The link "sum_l q[l] u[l] = integral of the interpolant" is C09. Class level: DensityFinder.getPerturbedRho / '
             'getRho are verified to hand the kernels the whole local block, the quadrature weights and the rows starts_r + a of the '
             'equilibrium table (the point\'s own global radius); feq_vector and DensityFinder.__init__ are verified to fill that table '
             'with f_eq(r_a, v_l) for every global radius and velocity node from the constants object given, and to take the weights '
             'from an interpolator on the velocity spline space given. Complex density storage and grid reuse: bounded part only.',
        technique='nested loop invariants with finite-sum function symbols, z3'),
    'C07': dict(
        category='proof',
        text='nu_find_span (binary search, termination), nu_basis_funs (= Cox-de Boor N for symbolic degree, partition of unity, '
             'non-negativity), nu_basis_funs_1st_der (= dN, derivatives sum to zero) and the 1-D scalar/vector evaluators are '
             'verified against an uninterpreted spec function whose recursion is instantiated on demand; all degrees and knot '
             'vectors at once.',
        note=PROOF_NOTE + 'dN = d/dx N is cited (de Boor). 2-D, uniform-cubic and class-level entry points are being added; '
             'functions not yet listed in the evidence are not claimed.',
        technique='loop invariants against an uninterpreted Cox-de Boor spec function, explicit instantiation, z3'),
}

TEXT['C11'] = dict(
    category='proof',
    text='The v-parallel kernel and its dispatcher are verified for all inputs against the rule of the property: f[i] is the '
         'interpolant S at v_i inside [vMin,vMax]; outside it is f_eq(r, v_i), 0, or S at the periodic image (recursive orbit '
         'definition), with termination of both wrap loops by real-valued variants. The evaluator is a function parameter with '
         'an abstract contract that both real evaluators are registered to implement.',
    note=PROOF_NOTE + 'Class level: VParallelAdvection.step (foot = v_i - c*dt, interpolant of the old nodal values, boundary rule by '
         'edge code) is verified per edge code against the kernel contract; VParallelAdvection.__init__ is verified to establish the '
         'state step starts from (nodes = eta_vals[3], interpolator and spline on the given space, the constants object, '
         'fEq/null/periodic -> edge code 0/1/2, any other string refused). The grid-level speed lookup is C05.',
    technique='loop invariants, recursive spec function for the periodic image, modular function-parameter contracts, z3')
TEXT['C10'] = dict(
    category='proof',
    text='flux_advection (f[q,z] = sum_k w_k vals[z,q,k]) and general_get_lagrange_vals / get_lagrange_vals (vals[(i-s_j) mod nz, '
         'k, j] = S((q_k + thetaShift_j) mod 2pi), nothing else written) are verified for all shapes, shifts of either sign and '
         'both evaluator families, frames included.',
    note=PROOF_NOTE + 'Range of the real floor-modulo is a trusted arithmetic fact. Class level: FluxSurfaceAdvection.step is verified '
         'to interpolate column i of its slice and to hand the kernels i, rows (rIdx, cIdx) of its shift / theta-shift / coefficient '
         'tables, its own points, work array and the spline just computed (wiring, as callee preconditions). '
         'FluxSurfaceAdvection._getLagrangePts is verified on its mechanical backward slice on the two tables (vf/func_slice.py, '
         'dropped lines in the evidence): shifts[a,b,k] = floor(-v_b b_z(r_a) dt/dz) + k - n/2 + 1 and thetaShifts[a,b,k] = '
         'iota(r_a) dz shifts[a,b,k] / R0 (no reduction modulo the period) for the OWN global (r, v) of every local (a, b), any '
         'local box, symbolic stencil size. Not under contract: the barycentric Lagrange weights in the dropped tail - bounded '
         'part only.',
    technique='loop invariants with frame clauses over 3-index arrays, modular function-parameter contracts, z3')

BOUNDED_NOTE = ('Bounded: the real classes run on a thread-per-rank simulated MPI (vf/shim) that checks collective matching; '
                'the bound is stated in the evidence; nothing here is counted as proved. ')
TEXT['C01'] = dict(
    category='proof',
    text='Three layers, all on the real text of pygyro/model/layout.py. (1) LayoutHandler.transpose, _transposeRedirect and '
         '_transposeRedirect_source_intact (routes of 0-4 steps, with/without buffer, buffer parity) are verified over opaque '
         'buffers whose ghost content is "holds field G in layout L", modular on the single-step contract. (2) The single-step '
         'functions are verified in a flat-buffer model (flat arrays read and written through C-order lenses, numpy split / '
         'reshape / transpose / sliced assignment as live views): _extract_from_source (block b of the send buffer = the padded, '
         'swapped sub-block of the source), _rearrange_from_buffer (Alltoall + unpacking loop and the no-padding fast branch) and '
         '_transpose / _transpose_source_intact, whose postcondition is the property itself: every local position of the '
         'destination block holds the global field (an uninterpreted function of the global index) at its global index, and the '
         'source block is untouched when a buffer is given (frame). The in-process branch (positions not distributed) is proved as '
         'a plain transposition. Extents, process counts, block lengths/starts and the rank are symbolic; the structure (rank 2-4, '
         'the two orderings, which leading positions are distributed) is one case each: quick = two production pairs incl. the '
         '(1,n)-grid case of the repaired defect, one rank-3 3-cycle pair, a seeded production pair and three in-process pairs; '
         'thorough = all seven production pairs, ranks 2-4 with non-involutive permutations and seeded random compatible pairs. '
         '(3) The addressing facts the solver is given about row-major flat indices (bounds, injectivity, block concatenation, '
         'multiplicativity of the element count) are proved from the definition for ranks 2-4 on every run, as are the tiling '
         'lemmas (ordered, bounded, covering; by induction) that turn the C02 chain form into the closed forms used. The bounded '
         'part runs the real handler on a simulated MPI for every ordered pair of production and random layout sets.',
    note=PROOF_NOTE + 'Assumed: the MPI_Alltoall contract (equal counts; chunk r of the receive buffer is chunk me of member r\'s send '
         'buffer); SPMD assume/guarantee - each member\'s send buffer has the form that is PROVED for this rank\'s '
         '_extract_from_source (same code, block holding the field), assumed for the peers; distinct array arguments do not overlap '
         '(documented requirement of transpose); the layouts of one handler describe the same process (same starts on positions '
         'distributed alike, rank in the sub-communicator = coordinate) - each layout alone is C02; array elements are reals '
         '(the code is dtype-agnostic, complex/int payloads are exercised by the bounded part only). Not under contract: '
         '_makeConnectionMap (route map) and _get_swap_axes for orderings outside the structural cases - bounded part. The link '
         'between the ghost predicate "holds G in L" of layer 1 and the flat-model theorem of layer 2 is by reading (same statement). '
         'Found and fixed a genuine defect (fix: 83dc206); the pre-fix text is refuted at the predicted obligations.',
    technique='sidecar contracts; symbolic execution with opaque ghost buffers (dispatch) and flat-view lenses with uninterpreted '
              'row-major addressing + proved lemmas (helpers); assume/guarantee over Alltoall; z3 5.1, z3 4.8, cvc5')
TEXT['C02'] = dict(
    category='proof',
    text='Layout.__init__ is executed symbolically for every ordering of rank 2-4 and 1-2 given process counts (structural cases; '
         'quick: production orderings + a seeded sample) with symbolic extents, process counts and rank coordinates; the contract '
         'is the property: ranges tile [0,n) in rank order, lengths in {n//p, n//p+1} and >= 1, starts/ends/shape/size/'
         'max_block_shape (an attained upper bound)/fullShape/inverse ordering agree. The bounded part checks the Grid accessors '
         'and buffer sizes on simulated process grids and the partition exhaustively on a box. "Buffers of bufferSize suffice": '
         'LayoutHandler.__init__ is executed symbolically (the real Layout constructor inside, for every layout of the production '
         '4-D and 3-D layout sets and the process-grid patterns >1/=1) and shown to leave bufferSize >= the first layout size and '
         '>= p padded blocks for every compatible pair - exactly the buffer precondition of the C01 transpose proofs; lemma '
         'block_fits_padded (each layout block fits into the p padded blocks of a transpose it takes part in) is proved.',
    note=PROOF_NOTE + 'Grid.getCoordVals and getGlobalIndices are under contract (result = global axis restricted to the owned range / '
         'local index plus start on the dimension the axis holds); getCoords, getGlobalIdxVals and the slice accessors are executed '
         'inside the C05 wiring proofs and covered by the bounded part; _makeConnectionMap is abstract in the constructor proof (returns "all connected"); the reverse direction of '
         'a pair uses the same multiset of extents (by the equal local extents of equal dimensions, a precondition of C01). Found '
         'and fixed Grid.getEta (fix: 8880526).',
    technique='symbolic execution of the constructor per structural case, expression arrays for the numpy formula, z3 (div/mod)')
TEXT['C03'] = dict(
    category='proof',
    text='Two layers on the real text of LayoutSwapper. (1) transpose, _transposeRedirect(_source_intact) and the update of the '
         'current manager are verified over opaque buffers with ghost content "holds field G in layout L" (same handler, direct '
         'step, 2-3 step routes, with/without buffer), modular on the single-step contract. (2) The three single-step branches of '
         '_transpose and _transpose_source_intact are verified in the flat-buffer model with the property as postcondition (every '
         'local position of the destination block holds the global field at its global index): same distribution = in-process '
         'transposition; scatter = local slice at the start of my rank in the extra communicator; gather = Allgather of the padded '
         'blocks, then per member the true block is cut out of its chunk (np.split with an array of cut points: a list of symbolic '
         'length), transposed and written to its range - loop invariant over the members, covering lemma for "every position is '
         'some member\'s", final whole-buffer copy in the variant without spare buffer. getAxes is executed on the concrete '
         'communicator lists of each structural case (rank 2-4 orderings; 2-D -> 1-D with either communicator kept, 1-D -> '
         'replicated, 4-D analogue); extents, process counts, block lengths/starts and the rank are symbolic. Replica equality and '
         'the round trip follow: the gathered block is a function of the global field only. Bounded part: the real swapper on a '
         'simulated MPI for the driver\'s groupings, round trips and random sequences.',
    note=PROOF_NOTE + 'Assumed: the MPI_Allgather contract (equal counts; chunk r of the receive buffer is member r\'s send buffer); '
         'the global precondition that every member\'s block holds the field in the source layout (stated on the members\' send '
         'buffers); distinct array arguments do not overlap; the layouts were built for this process - my rank in the extra '
         'communicator is the coordinate used by Layout.__init__, positions distributed alike have equal starts (the '
         'constructor\'s communicator matching, incl. the ambiguous case of equal process counts, is exercised by the bounded '
         'part only); array elements are reals. The addressing and tiling lemmas are those of C01, re-proved on every run.',
    technique='sidecar contracts; opaque ghost buffers (dispatch) and flat-view lenses with proved addressing lemmas (branches); '
              'loop invariant over a list of symbolic length; z3 5.1, z3 4.8, cvc5')
TEXT['C04'] = dict(
    category='proof',
    text='Grid.setLayout / saveGridValues / freeGridSave / restoreGridValues / getAllData are verified against an inductive class '
         'invariant over a ghost model (one undistributed array: field, layout, optional saved field and layout): the three buffer '
         'indices stay a permutation, the data buffer holds the field in the current layout, a held save is intact, and the refusal '
         'rules hold - hence the property for every operation sequence, with and without save memory. Buffers are opaque (content = '
         '"holds field G in layout L" or garbage); the layout manager is used only through the contract of transpose. Bounded part: '
         'exhaustive short and random long sequences on the real class under simulated MPI.',
    note=PROOF_NOTE + 'Assumed here: the contract of LayoutHandler/LayoutSwapper.transpose (its dispatch and redirect logic is proved in '
         'C01/C03). Grid.__init__ is verified to establish the structural part of the invariant (distinct buffers of the handler\'s '
         'bufferSize, distinct in-range buffer roles, visible block = view of the data buffer, the named layout object, nothing '
         'saved), with and without save memory; writes through getAllData() are covered by the bounded part only.',
    technique='inductive class invariant with ghost state over opaque buffers, modular use of the transpose contract, z3')
TEXT['C06'] = dict(
    category='other',
    text='Deductive part: Grid.getMin/getMax (local, whole grid, one and two fixed axes), getBlockForFig, '
         'DiagnosticCollector.reduce, setupSave, the single-step transposes of LayoutHandler (one Alltoall on the sub-communicator of '
         'the swapped position, none for in-process pairs) and of LayoutSwapper (one Allgather in the gather branch, none otherwise) '
         'are executed in a trace abstraction (rank-local data opaque, every branch on '
         'them explored both ways) and every path must produce the one collective sequence the contract states as a function of '
         'the uniform arguments (operation, op, root) - so any two ranks agree. Bounded part: the real constructors, transposes, '
         'reductions, gathers and setupSave run on a simulated MPI that raises on any mismatched or missing collective, with '
         'seeded arrival jitter and a plot-only rank; route maps are recomputed under several interpreter hash seeds.',
    note=BOUNDED_NOTE + 'Deadlock freedom beyond trace equality rests on the assumed MPI progress contract.',
    technique='2-safety trace contracts in an opaque-data abstraction (all paths, one trace) + bounded run-time checking under simulated MPI; hash-seed sweep of the route search')

TEXT['C05'] = dict(
    category='other',
    text='Deductive part (second sentence of the property, and the initial condition): (a) the three initialisers and their '
         'kernels are verified for all local shapes and offsets - every local entry of the grid array equals f_eq * (1 + eps * '
         'perturbation) (both uninterpreted) at the entry\'s own GLOBAL (r, theta, z, v), hence the same global field on every '
         'process grid; (b) wiring contracts for FluxSurfaceAdvection.gridStep, VParallelAdvection.gridStep / '
         'gridStepKeepGradient and PoloidalAdvection.gridStep / gridStep_SplinesUnchanged: the per-slice operator `step` (and '
         'parallel_gradient, compute_interpolant) carries as PRECONDITION that its slice argument is the live view of the local '
         'slice and that the table row / radius / velocity / parallel-gradient entry / potential spline passed with it belong to '
         'that slice\'s own coordinates (local row for tables built per layout, GLOBAL z index for the parallel-gradient table), '
         'so every call site is one obligation for all shapes, starts and ends. The pre-fix code of both repaired defects and the '
         'seeded change are refuted at exactly these obligations. Parallel gradient, density and the table constructors are C13 / '
         'C16; the quasi-neutrality solve and the composition into a Strang step are covered by the bounded part only: the '
         'statements of the driver time loop are sliced mechanically out of fullSimulation.main and one Strang step is executed with '
         'the real classes on 1 and on several simulated ranks; the assembled global f and phi must agree with the serial run.',
    note=PROOF_NOTE + BOUNDED_NOTE + 'The wiring contracts state the relation between slice and parameters; that the per-slice '
         'operators compute the right thing from them is C10-C12. The Grid invariant used (local array has the layout shape, ranges '
         'inside the global axes, trailing axes whole) is a precondition here (C02/C04). Found and fixed two genuine defects '
         '(fix: 3ea85e8, 5860959).',
    technique='sidecar contracts: loop invariants over 4-index arrays written through live views (initialisers); abstract callee '
              'contracts whose preconditions relate the slice view to the caller\'s tables (wiring); bounded differential run of the '
              'real driver statements across process grids under simulated MPI')

TEXT['C12'] = dict(
    category='proof',
    text='Both poloidal kernels and their dispatchers are verified for all grids and inputs. Explicit: every node receives the '
         'boundary value (0, f_eq(r_min), f_eq(foot) outside r_max) or the 2-D spline of f at the Heun foot written out from the '
         'property (drift = spline derivatives of phi / r, second slope evaluated at the Euler foot or 0 outside the radial domain, '
         'theta modulo 2 pi). Implicit: IF the iteration stops, the feet are one trapezoid update (r clipped, theta wrapped) of a '
         'previous iterate from which they differ by at most tol, and f is evaluated there by the same rule. Class level: '
         'PoloidalAdvection.step (both variants) is verified to interpolate the slice it is given and to pass its own grid points, '
         'work arrays, the potential spline, the new spline of f, the constants and flags in the right positions - its '
         'postcondition is the kernel postcondition over the object attributes (2-D interpolator through an assumed contract).',
    note=PROOF_NOTE + 'Not decided: termination of the implicit iteration; exact rigid rotation and third-order agreement '
         '(numerical, bounded tier). PoloidalAdvection.step / gridStep wiring is covered by the bounded tiers only.',
    technique='double-loop invariants with let-bound characteristic formulas, ghost arrays for the previous iterate, z3')

TEXT['C17'] = dict(
    category='proof',
    text='Deductive part: the constructors of l2 (4-D and 3-D), l1, nParticles and KineticEnergy are verified for the three '
         'production orderings each (extents, starts and ends symbolic): every entry of the local weight array equals the GLOBAL '
         'trapezoid weight (first/last half cell, interior (dx_k + dx_{k-1})/2, non-uniform axes) at the entry\'s own global r index '
         'times r, times the global v weight at its own global v index (times v^2 for the kinetic energy), on the layout axes that '
         'hold r and v, all other extents 1; the angular factor is dq*dz (halved for the energy). DiagnosticCollector.collect '
         'writes the time and the seven values of a step into column step mod saveStep and changes no other column. From these '
         'and the exact tiling of the global index set by the local boxes (C02) the sum over processes of the local weighted sums '
         'is the global quadrature sum for every process grid; that last step (np.sum over the local box, MPI_Reduce, '
         'min/max with neutral elements) is covered by the bounded part only: the real classes on simulated process grids with '
         'uneven blocks in every layout against an independently written serial quadrature of the global field.',
    note=PROOF_NOTE + BOUNDED_NOTE + 'Assumed: the times passed to collect are whole multiples of dt (real arithmetic); MPI_Reduce. '
         'Found and fixed the float slot index of DiagnosticCollector.collect (fix: ee34928).',
    technique='sidecar contracts; numpy expression arrays (slices, broadcasting, np.array with a starred array, .flat assignment) '
              'executed symbolically against a spec function for the trapezoid weights; bounded run-time checking under simulated MPI')
TEXT['C18'] = dict(
    category='other',
    text='Deductive part: the step / save counters of fullSimulation.main are sliced mechanically out of the driver on every run (the '
         'slicing rule and the dropped lines are in the evidence) and verified with a loop invariant for every save interval >= 1, '
         'every start and stop time and fresh or restarted runs: no division by a zero loop count, and when the driver returns the '
         'last checkpoint written is the one of the final time. Everything else is the bounded stand-in: checkpoint write/load across '
         'process counts (bitwise), latest/requested checkpoint selection, constants round trip over key orders, and N+M vs '
         'N-then-M runs of the real driver for several save intervals.',
    note=BOUNDED_NOTE + 'h5py mpio driver replaced by a documented stand-in. Found and fixed three genuine defects (fix: 516e71a, '
         '8d7565c and the float step counter).',
    technique='loop-invariant proof on a mechanical counter slice of the driver; bounded run-time checking of the real driver and I/O paths under simulated MPI')

TEXT['C14'] = dict(
    category='other',
    text='Deductive part (one clause: Dirichlet end coefficients stay zero / modes are solved independently): the mode loop of solveEquation is verified, in the trace abstraction with the sparse matrices opaque, to enter the per-mode solver only with both end coefficients of the shared coefficient buffer equal to zero and with the global mode index of the local row - _solveMode carries this as its precondition and havocs the buffer (it writes the coefficient range of its mode, which contains the ends for a Neumann mode), so the loop has to re-establish it before every call; the seeded change (reset hoisted out of the loop) is refuted at that obligation. '
         'Everything else is the bounded stand-in: the real DiffEqSolver is compared with an independent dense Galerkin assembly (own '
         'Gauss-Legendre rule, scipy B-splines, per-mode boundary unknown sets) and with manufactured polynomial solutions over '
         'degrees, cell counts, coefficient functions, boundary mixes and process grids. No contract within reach expresses the weak '
         'form without restating the sparse assembly (DESIGN C14).',
    note=BOUNDED_NOTE + 'Found and fixed the missing right-hand-side factor of solveEquationForFunction.',
    technique='callee-precondition wiring contract for the mode loop (trace abstraction, opaque sparse matrices); bounded run-time checking against an independent dense Galerkin solve')
TEXT['C15'] = dict(
    category='other',
    text='Deductive part (one clause: Dirichlet end coefficients stay zero / modes are solved independently): the mode loop of solveEquation is verified, in the trace abstraction with the sparse matrices opaque, to enter the per-mode solver only with both end coefficients of the shared coefficient buffer equal to zero and with the global mode index of the local row - _solveMode carries this as its precondition and havocs the buffer (it writes the coefficient range of its mode, which contains the ends for a Neumann mode), so the loop has to re-establish it before every call; the seeded change (reset hoisted out of the loop) is refuted at that obligation. '
         'Everything else is the bounded stand-in: the real quasi-neutrality pipeline through the distributed layout changes is '
         'compared with an explicit DFT and a dense per-mode solve (m=0 convention for chi in {0,1}); realness, round trip, equilibrium '
         'fixed point.',
    note=BOUNDED_NOTE + 'FFT round trip identity is the contract of scipy.fftpack (assumed in the deductive plan).',
    technique='callee-precondition wiring contract for the mode loop (trace abstraction); bounded run-time checking against an independent mode-by-mode oracle under simulated MPI')

TEXT['C08'] = dict(
    category='other',
    text='Deductive part (the collocation clause): SplineInterpolator1D.collocation_matrix is verified for clamped spaces, on general '
         'knots with symbolic degree and for uniform cubic splines, any number of points: row i holds, in the columns span_i-degree '
         '.. span_i, the Cox-de Boor values N_j(x_i) (resp. the cardinal cubic pieces at the offset of x_i in its cell) that the '
         'proved kernels of C07 return, and zeros elsewhere - the same window and values the evaluation kernels use, so an exact '
         'solve of the factorised system gives S(x_i) = u_i. Everything else (periodic column wrap, the 2-D sweeps, the solvers, '
         'polynomial reproduction) is covered by the bounded part: real interpolators against scipy B-splines on independently '
         'constructed knot vectors and a dense collocation solve, over an exhaustive sweep of small spaces (1-D and 2-D, all '
         'boundary/degree combinations).',
    note=PROOF_NOTE + BOUNDED_NOTE + 'Assumed: LAPACK banded LU / SuperLU solve the system exactly (real arithmetic). The step from '
         'the matrix rows to (A c)_i = S(x_i) is by reading the two contracts (same window, same spec function), not a checked lemma.',
    technique='sidecar contract with loop invariant over matrix rows, modular use of the C07 kernel contracts; bounded run-time '
              'checking against an independent spline library and dense linear algebra')
TEXT['C09'] = dict(
    category='other',
    text='Deductive part (bookkeeping clauses, periodic case): SplineInterpolator1D.get_quadrature_coefficients hands the transposed '
         'solve exactly the vector "basis integrals with the periodic wrap folded into the first degree entries" and leaves the '
         'stored integrals of the (possibly shared) basis object untouched, so a second call gives the same weights. The values of '
         'the integrals, sum = b - a, the non-periodic branch and weights . data = integral of the interpolant are covered by the '
         'bounded part: stored basis integrals, quadrature weights and w.u against exact antiderivatives over a sweep of spaces, '
         'including repeated and shared use of one basis object.',
    note=PROOF_NOTE + BOUNDED_NOTE + 'Assumed: SuperLU transposed solve (uninterpreted function of its right-hand side). Found and '
         'fixed two genuine defects of BSplines._build_integrals (fix: fbde878, fb94ce5).',
    technique='sidecar contract with an array-valued uninterpreted solve (extensionality instantiated per pair of occurrences); '
              'bounded run-time checking against exact spline antiderivatives')

TEXT['C13'] = dict(
    category='proof',
    text='Every method of ParallelGradient is verified per stencil size (orders 2-6; quick: 2, 3, 6): getCoeffsFirstDeriv (shifts, '
         'centred for even order, moment conditions of the first-derivative combination), _getThetaVals (theta along the field line for '
         'every z via the wrap (k+l) mod nz), the constructor (b_z table built from the radii of the OWN global block, theta table for '
         'all radii, dz) and parallel_gradient: der[z,q] = b_z(r_i)/dz * sum_j c_j S_{(z+s_j) mod nz}(thetaVals[i,(z+s_j) mod nz,j,q]) '
         'through the three index regimes (incl. numpy negative-index wrap for odd orders), for all grid sizes above the stencil.',
    note=PROOF_NOTE + 'The spline interpolator and numpy.linalg.solve are used through assumed contracts. Convergence order: bounded tier only.',
    technique='loop invariants with indicator sums over source rows, contract-level case-split hints, symbolic-divisor modulo facts, z3')

NOT_APPLICABLE = {
    'C19': 'compares compiled pyccel artefacts with their Python source: translation validation; no deductive verifier for the '
           'generated Fortran/C is installed (DESIGN.md, C19)',
}
for _p in []:
    NOT_APPLICABLE[_p] = 'check not built yet in this session (planned, see DESIGN.md); not claimed until its contracts discharge'
