"""Free-text parts of MANIFEST.json."""

PROOF_NOTE = ('Trusted: the AST->SMT translation of the Python subset and of the contract language (cross-checked on every run '
              'by evaluating the same clauses at run time on the real functions), explicit quantifier instantiation (sound), the '
              'sum/unfolding schemas, z3; floats are reals and ints unbounded (A1, A2). ')

TEXT = {
    'C20': dict(
        category='proof',
        text='Both process-grid functions are executed symbolically from /repo against contracts taken from the property '
             '(product, bounds, raise only when no factorisation exists, termination via decreases clauses on all four loops); '
             'every obligation is discharged by z3 for all M1, M2, P >= 1 without bound. The run-time reading of the same '
             'contract on random inputs is a labelled bounded cross-check.',
        note=PROOF_NOTE + 'Ratio comparisons are real arithmetic. "Standard layouts can be built and connected" is covered by the '
             'ensures n1<=min(nr,nv), n2<=min(nz,nv) here and by C01/C02 for the layouts themselves.',
        technique='loop invariants + decreases clauses, WP-style VCs from the AST, z3 (nonlinear int/real)'),
    'C16': dict(
        category='proof',
        text='get_perturbed_rho and get_rho are verified for all shapes against rho[i,j,k] = sum_l q[l]*(f[i,j,k,l] - feq[i,l]) '
             '(resp. without feq) with four nested loop invariants over uninterpreted finite sums, frame included.',
        note=PROOF_NOTE + 'The link "sum_l q[l] u[l] = integral of the interpolant" is C09; the global-radius row lookup of the '
             'caller (DensityFinder) is not yet under contract in this check.',
        technique='nested loop invariants with finite-sum function symbols, z3'),
    'C07': dict(
        category='proof',
        text='nu_find_span (binary search, termination), nu_basis_funs (= Cox-de Boor N for symbolic degree, partition of unity, '
             'non-negativity), nu_basis_funs_1st_der (= dN, derivatives sum to zero) and the 1-D scalar/vector evaluators are '
             'verified against an uninterpreted spec function whose recursion is instantiated on demand; all degrees and knot '
             'vectors at once.',
        note=PROOF_NOTE + 'dN = d/dx N is cited (de Boor). 2-D, uniform-cubic and class-level entry points are being added; '
             'functions not yet listed in the evidence are not claimed.',
        technique='loop invariants against an uninterpreted Cox-de Boor spec function, explicit instantiation, z3'),
}

NOT_APPLICABLE = {
    'C19': 'compares compiled pyccel artefacts with their Python source: translation validation; no deductive verifier for the '
           'generated Fortran/C is installed (DESIGN.md, C19)',
}
for _p in ['C01', 'C02', 'C03', 'C04', 'C05', 'C06', 'C08', 'C09', 'C10', 'C11', 'C12', 'C13', 'C14', 'C15', 'C17', 'C18']:
    NOT_APPLICABLE[_p] = 'check not built yet in this session (planned, see DESIGN.md); not claimed until its contracts discharge'
