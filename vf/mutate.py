"""Scratch copies of the repository for mutation self-tests and seeded-change runs."""
import os
import shutil
import subprocess
import tempfile


def scratch_copy(repo='/repo'):
    d = tempfile.mkdtemp(prefix='vf-%d-' % os.getpid(), dir='/var/tmp')
    for name in os.listdir(repo):
        if name in ('.git', 'pygyro.egg-info', '__pycache__'):
            continue
        src = os.path.join(repo, name)
        dst = os.path.join(d, name)
        if os.path.isdir(src):
            shutil.copytree(src, dst, ignore=shutil.ignore_patterns('__pycache__', '*.so', '*.o', '*.mod', '__epyccel__', '__pyccel__'))
        else:
            shutil.copy2(src, dst)
    return d


def apply_edit(root, relpath, old, new, count=1):
    p = os.path.join(root, relpath)
    s = open(p).read()
    if s.count(old) < 1:
        raise ValueError('mutation anchor not found in %s: %r' % (relpath, old))
    s = s.replace(old, new, count)
    open(p, 'w').write(s)


def remove(root):
    shutil.rmtree(root, ignore_errors=True)
