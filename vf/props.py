"""Property table: which contracts/functions/bounded checks decide each property."""

A_COMMON = [
    'A1 Python float is a mathematical real (no rounding, NaN, inf)',
    'A2 Python/numpy integers are mathematical integers (no int64 overflow)',
    'A3 int() truncates toward zero, // and % are floor based (encoded with z3 div/mod and sign side conditions)',
    'A4 distinct array parameters do not overlap',
    'A6 CPython without -O (asserts live)',
    'engine: AST->SMT translation of the Python subset and of the contract language (cross-checked by the run-time '
    'reading of the same clauses on the real functions, not proved)',
    'engine: quantifier instantiation is explicit (sound, incomplete); sum/unfold/extensionality schemas are trusted',
    'solvers: z3 5.1 (in process), /usr/bin/z3 4.8.12 as second back end',
]

PROPS = {
    'C20': dict(
        level='proof',
        contracts=['vf.contracts.process_grid'],
        functions=[
            dict(key='pygyro/model/process_grid.py::compute_2d_process_grid_from_max', gen='process_grid_from_max', n=(400, 20000)),
            dict(key='pygyro/model/process_grid.py::compute_2d_process_grid', gen='process_grid', n=(400, 20000)),
        ],
        assumptions=['ratio comparisons are real arithmetic (A1): candidate ratios differ by >= 1/P relative, far above rounding'],
    ),
    'C16': dict(
        level='proof',
        contracts=['vf.contracts.poisson_tools'],
        functions=[
            dict(key='pygyro/poisson/poisson_tools.py::get_perturbed_rho', gen='rho', n=(100, 2000)),
            dict(key='pygyro/poisson/poisson_tools.py::get_rho', gen='rho_plain', n=(100, 2000)),
        ],
        assumptions=['complex128 density storage is treated like real storage (the kernels only add and multiply)'],
    ),
    'C07': dict(
        level='proof',
        contracts=['vf.contracts.splines'],
        functions=[
            dict(key='pygyro/splines/spline_eval_funcs.py::nu_find_span', gen='find_span', n=(300, 5000)),
            dict(key='pygyro/splines/spline_eval_funcs.py::nu_basis_funs', gen='basis_funs', n=(200, 3000)),
            dict(key='pygyro/splines/spline_eval_funcs.py::nu_basis_funs_1st_der', gen='basis_funs_der', n=(200, 3000)),
            dict(key='pygyro/splines/spline_eval_funcs.py::nu_eval_spline_1d_scalar', gen='eval_1d_scalar', n=(200, 3000)),
            dict(key='pygyro/splines/spline_eval_funcs.py::nu_eval_spline_1d_vector', gen='eval_1d_vector', n=(100, 2000)),
        ],
        assumptions=['dN is the analytic derivative of N (de Boor): cited, not proved',
                     'spec N is the Cox-de Boor recursion restricted to the non-vanishing functions of the span, written a*(n/d)'],
    ),
}
