"""Property table: which contracts/functions/bounded checks decide each property."""

A_COMMON = [
    'A1 Python float is a mathematical real (no rounding, NaN, inf)',
    'A2 Python/numpy integers are mathematical integers (no int64 overflow)',
    'A3 int() truncates toward zero, // and % are floor based (encoded with z3 div/mod and sign side conditions)',
    'A4 distinct array parameters do not overlap',
    'A6 CPython without -O (asserts live)',
    'engine: AST->SMT translation of the Python subset and of the contract language (cross-checked by the run-time '
    'reading of the same clauses on the real functions, not proved)',
    'engine: quantifier instantiation is explicit (sound, incomplete); sum/unfold/extensionality schemas are trusted',
    'solvers: z3 5.1 (in process), /usr/bin/z3 4.8.12 and /usr/bin/cvc5 1.0.3 as further back ends (an unsat answer of any of them discharges an obligation; sat answers of the external solvers are never used)',
]

CU = 'pygyro/splines/cubic_uniform_spline_eval_funcs.py'
ADV = 'pygyro/advection/accelerated_advection_steps.py'

PROPS = {
    'C20': dict(
        level='proof',
        contracts=['vf.contracts.process_grid'],
        functions=[
            dict(key='pygyro/model/process_grid.py::compute_2d_process_grid_from_max', gen='process_grid_from_max', n=(400, 20000)),
            dict(key='pygyro/model/process_grid.py::compute_2d_process_grid', gen='process_grid', n=(400, 20000)),
        ],
        assumptions=['ratio comparisons are real arithmetic (A1): candidate ratios differ by >= 1/P relative, far above rounding'],
    ),
    'C16': dict(
        level='proof',
        contracts=['vf.contracts.classes_c16'],
        case_functions=[dict(module='vf.contracts.classes_c16', key='pygyro/poisson/poisson_solver.py::DensityFinder')],
        functions=[
            dict(key='pygyro/poisson/poisson_tools.py::get_perturbed_rho', gen='rho', n=(100, 2000)),
            dict(key='pygyro/poisson/poisson_tools.py::get_rho', gen='rho_plain', n=(100, 2000)),
        ],
        bounded=[dict(module='vf.rt.bounded_poisson', prop='C16',
                      bound='real DensityFinder (getRho / getPerturbedRho) on process grids 1x1..3x2 with uneven r and z blocks, real and '
                            'complex density storage, reuse of the density grid after an in-place FFT, v splines of degree 1-5 and '
                            'uniform cubic with 9-17 points, against exact integration of the interpolating spline and f_eq at the global '
                            'radius (tolerance 2e-13 relative)')],
        assumptions=['complex128 density storage is treated like real storage in the kernel proofs (the kernels only add and multiply); '
                     'complex storage and grid reuse after an FFT are covered by the bounded stand-in only',
                     'f_eq is an uninterpreted pure function in the table contracts (its formula is not part of C16)'],
    ),
    'C07': dict(
        level='proof',
        contracts=['vf.contracts.cusplines'],
        lemmas=['cu_is_coxdeboor', 'cu_partition_of_unity'],
        functions=[
            dict(key='pygyro/splines/spline_eval_funcs.py::nu_find_span', gen='find_span', n=(300, 5000)),
            dict(key='pygyro/splines/spline_eval_funcs.py::nu_basis_funs', gen='basis_funs', n=(200, 3000)),
            dict(key='pygyro/splines/spline_eval_funcs.py::nu_basis_funs_1st_der', gen='basis_funs_der', n=(200, 3000)),
            dict(key='pygyro/splines/spline_eval_funcs.py::nu_eval_spline_1d_scalar', gen='eval_1d_scalar', n=(200, 3000)),
            dict(key='pygyro/splines/spline_eval_funcs.py::nu_eval_spline_1d_vector', gen='eval_1d_vector', n=(100, 2000)),
            dict(key='pygyro/splines/spline_eval_funcs.py::nu_eval_spline_2d_scalar', gen='eval_2d_scalar', n=(100, 2000)),
            dict(key='pygyro/splines/spline_eval_funcs.py::nu_eval_spline_2d_cross', gen='eval_2d_cross', n=(60, 1000)),
            dict(key='pygyro/splines/spline_eval_funcs.py::nu_eval_spline_2d_vector', gen='eval_2d_vector', n=(60, 1000)),
            dict(key=CU + '::cu_find_span', gen='cu_find_span', n=(2000, 40000)),
            dict(key=CU + '::cu_basis_funs', gen='cu_basis', n=(100, 1000)),
            dict(key=CU + '::cu_basis_funs_1st_der', gen='cu_basis_der', n=(100, 1000)),
            dict(key=CU + '::cu_eval_spline_1d_scalar', gen='cu_eval_1d_scalar', n=(1000, 20000)),
            dict(key=CU + '::cu_eval_spline_1d_vector', gen='cu_eval_1d_vector', n=(300, 5000)),
            dict(key=CU + '::cu_eval_spline_2d_scalar', gen='cu_eval_2d_scalar', n=(300, 5000)),
            dict(key=CU + '::cu_eval_spline_2d_cross', gen='cu_eval_2d_cross', n=(100, 2000)),
            dict(key=CU + '::cu_eval_spline_2d_vector', gen='cu_eval_2d_vector', n=(100, 2000)),
        ],
        assumptions=['dN is the analytic derivative of N (de Boor): cited, not proved',
                     'spec N is the Cox-de Boor recursion restricted to the non-vanishing functions of the span, written a*(n/d)'],
    ),
    'C11': dict(
        level='proof',
        contracts=['vf.contracts.classes'],
        case_functions=[dict(module='vf.contracts.classes', key='pygyro/advection/advection.py::VParallelAdvection.step')],
        functions=[
            dict(key=ADV + '::general_v_parallel_advection_eval_step', gen='vpar_general', n=(300, 5000)),
            dict(key=ADV + '::v_parallel_advection_eval_step', gen='vpar_dispatch', n=(300, 5000)),
        ],
        bounded=[dict(module='vf.rt.bounded_adv', prop='C11',
                      bound='VParallelAdvection.step in the three edge modes against an independent interpolant (shifts 0 .. 5.2 domain widths), consecutive steps; gridStep / gridStepKeepGradient on process grids up to 3x2')],
        assumptions=['S1 names the value returned by the spline evaluator passed in (general or uniform-cubic); that it is the '
                     'B-spline value is C07; its precondition on (knots, degree, coeffs) is the class invariant of BSplines/Spline1D '
                     '(spl1_ok), established by the Python-level callers',
                     'f_eq is treated as an uninterpreted pure function of its arguments'],
    ),
    'C10': dict(
        level='proof',
        contracts=['vf.contracts.advection_kernels'],
        functions=[
            dict(key=ADV + '::flux_advection', gen='flux_adv', n=(300, 5000)),
            dict(key=ADV + '::general_get_lagrange_vals', gen='lagr_general', n=(200, 3000)),
            dict(key=ADV + '::get_lagrange_vals', gen='lagr_dispatch', n=(200, 3000)),
        ],
        case_functions=[dict(module='vf.contracts.classes_c10', key='pygyro/advection/advection.py::FluxSurfaceAdvection.step')],
        bounded=[dict(module='vf.rt.bounded_adv', prop='C10',
                      bound='FluxSurfaceAdvection.step / _getLagrangePts / gridStep against the defining formula (degree-5 Lagrange weights, stencil centred on the foot, theta-spline values) for every (rIdx, cIdx), displacements from 1e-15 cells to 2.5 turns, both signs, iota in {0, 0.8, -1.3, 2}, grids 6-20 points, general and uniform-cubic splines, process grids up to 3x2; corollaries (constants, linearity, z-shift commutation, exact circular shift); rtol 1e-9')],
        assumptions=['S1 names the value returned by the spline evaluator passed in (see C07)',
                     'range of the floor-based real modulo 0 <= x % m < m for m > 0 is a trusted arithmetic fact',
                     '_getLagrangePts is verified on its mechanical backward slice on self._shifts / self._thetaShifts '
                     '(vf/func_slice.py; dropped line numbers per function in functions_under_contract): the barycentric Lagrange '
                     'weights (np.prod over an axis, np.eye, np.where) are NOT under contract - bounded class-level check only',
                     'the rotational-transform profile iota passed to _getLagrangePts acts entry by entry on an array of radii '
                     '(assumed contract iota_fn; Constants.iota is np.full_like(r, iotaVal))',
                     'floats are mathematical reals: np.floor is the exact floor; storing the integer-valued floats into the int '
                     'array _shifts is exact'],
    ),
    'C01': dict(
        level='proof',
        contracts=[],
        functions=[],
        case_functions=[dict(module='vf.contracts.layout_redirect', key='pygyro/model/layout.py::LayoutHandler'),
                        dict(module='vf.contracts.transpose_helpers', key='pygyro/model/layout.py::LayoutHandler')],
        bounded=[dict(module='vf.rt.bounded_layout', prop='C01',
                      bound='ranks 2-4, extents 2..7 (incl. n==p and uneven), process grids up to 3x2 incl. leading extent 1, '
                            'production layout sets + seeded random sets of 2-4 orderings, every ordered pair, with/without buffer, '
                            'float/complex/int')],
        assumptions=['simulated MPI (vf/shim): Alltoall/Allgather data movement as in the MPI standard (bounded part)',
                     'MPI_Alltoall contract (equal counts, chunk r received = chunk me of member r) - assumed',
                     'SPMD assume/guarantee: the form of a send buffer is proved for this rank (_extract_from_source, field form) and '
                     'assumed for the other members of the sub-communicator, who run the same code',
                     'cross-layout consistency of one handler (same starts where distributed alike; rank in sub-communicator = '
                     'process coordinate) is a precondition here; per layout it is C02',
                     'array elements are mathematical reals; source/dest/buf are distinct arrays',
                     'route map (_makeConnectionMap) and _get_swap_axes outside the structural cases: bounded part only'],
    ),
    'C02': dict(
        level='proof',
        contracts=[],
        functions=[],
        case_functions=[dict(module='vf.contracts.layout', key='pygyro/model/layout.py::Layout.__init__'),
                        dict(module='vf.contracts.handler_init', key='pygyro/model/layout.py::LayoutHandler.__init__'),
                        dict(module='vf.contracts.grid_access', key='pygyro/model/grid.py::Grid')],
        bounded=[dict(module='vf.rt.bounded_layout', prop='C02',
                      bound='exhaustive 1<=p<=n<=24 (quick) / 80 (thorough) for the partition; Grid accessors and buffer sizes on '
                            'production and seeded random process grids')],
        assumptions=['simulated MPI (vf/shim)'],
    ),
    'C03': dict(
        level='proof',
        contracts=[],
        functions=[],
        case_functions=[dict(module='vf.contracts.swapper_redirect', key='pygyro/model/layout.py::LayoutSwapper'),
                        dict(module='vf.contracts.swapper_steps', key='pygyro/model/layout.py::LayoutSwapper')],
        bounded=[dict(module='vf.rt.bounded_layout', prop='C03',
                      bound='3-D groupings [[p0,p1],p0] / [[p0,p1],[p0]] and the 4-D grouping of the standard layouts with their 1-D '
                            'versions, process grids (1,1)..(3,2) incl. extents of 1, extents 2..7 (even, uneven, n==p), every '
                            'round trip a->b->a and seeded random sequences of 5 layouts, with/without buffer')],
        assumptions=['simulated MPI (vf/shim): Allgather/Alltoall as in the MPI standard (bounded part)',
                     'MPI_Allgather contract (equal counts, chunk r received = send buffer of member r) - assumed',
                     'every member of the communicator holds its block of the field in the source layout (global precondition, '
                     'stated on the send buffers)',
                     'layouts built for this process: rank in the extra communicator = coordinate used by Layout.__init__; equal '
                     'starts where distributed alike (constructor communicator matching: bounded part only)',
                     'array elements are mathematical reals; source/dest/buf are distinct arrays'],
    ),
    'C04': dict(
        level='proof',
        contracts=[],
        functions=[],
        case_functions=[dict(module='vf.contracts.grid', key='pygyro/model/grid.py::Grid')],
        bounded=[dict(module='vf.rt.bounded_layout', prop='C04',
                      bound='every sequence of length <= 5 (quick) / 6 (thorough) over {save, restore, free, write, 3 layouts} on a '
                            'single-process grid with save memory (length <= 3 without), plus seeded random sequences of 6-24 '
                            'operations on 2- and 4-process grids, real and complex')],
        assumptions=['simulated MPI (vf/shim)'],
    ),
    'C06': dict(
        level='other',
        contracts=[],
        functions=[],
        trace_mode=True,
        case_functions=[dict(module='vf.contracts.traces', key='collective traces')],
        bounded=[dict(module='vf.rt.bounded_sync', prop='C06',
                      bound='route maps of production and seeded random layout sets (incl. all six 3-D orderings) compared across '
                            'interpreter hash seeds; handler construction, all layout changes, getMin/getMax (whole grid and fixed-index '
                            'slices), getBlockFromDict, setupSave on 2-7 simulated ranks with seeded arrival jitter, with and '
                            'without a plot-only rank; the simulated MPI raises on any mismatched or missing collective')],
        assumptions=['simulated MPI (vf/shim): matching is checked per rendezvous on (operation, root, count, dtype)',
                     'MPI progress: identical collective sequences on all members complete for every arrival order (assumed)'],
    ),
    'C05': dict(
        level='other',
        contracts=[],
        functions=[],
        case_functions=[dict(module='vf.contracts.gridsteps', key='pygyro/advection/advection.py::gridStep')],
        bounded=[dict(module='vf.rt.bounded_sim', prop='C05',
                      bound='one Strang step of the driver statements (mechanical slice of fullSimulation.main: timing, printing, '
                            'diagnostics and file output dropped, line numbers in the evidence) on an 8x8x8x8 grid (quick) / 10x8x9x8 '
                            '(thorough), iotaVal 0.8 (thorough also 0), process counts 2,4 (thorough 2,3,4,6) against the serial run, '
                            'tolerance 1e-10 relative for f, 1e-8 for phi')],
        assumptions=['simulated MPI (vf/shim)', 'reductions are not compared bit for bit (floating-point reassociation)',
                     'wiring contracts: the Grid invariant (local array has the layout shape, ranges inside the global axes, trailing '
                     'axes whole) is a precondition (C02/C04); f_eq and perturbation are uninterpreted pure functions',
                     'quasi-neutrality solve and the composition into a Strang step: bounded part only'],
    ),
    'C12': dict(
        level='proof',
        contracts=['vf.contracts.advection_kernels'],
        functions=[
            dict(key=ADV + '::general_poloidal_advection_step_expl', gen='pol_general', n=(150, 3000)),
            dict(key=ADV + '::poloidal_advection_step_expl', gen='pol_dispatch', n=(150, 3000)),
            dict(key=ADV + '::general_poloidal_advection_step_impl'),
            dict(key=ADV + '::poloidal_advection_step_impl'),
        ],
        case_functions=[dict(module='vf.contracts.classes_c12', key='pygyro/advection/advection.py::PoloidalAdvection.step')],
        bounded=[dict(module='vf.rt.bounded_adv', prop='C12',
                      bound='PoloidalAdvection.step explicit and implicit against own characteristic tracing and boundary values, constant potential, rigid rotation, explicit-vs-implicit order, termination watchdog; gridStep variants on process grids up to 3x2')],
        assumptions=['S2 names the value returned by the 2-D spline evaluator passed in (general or uniform-cubic); that it is the '
                     'tensor B-spline value is C07', 'f_eq is an uninterpreted pure function',
                     'implicit variant: partial correctness only (termination of the fixed-point iteration is not decided)',
                     'range of the floor-based real modulo is a trusted arithmetic fact'],
    ),
    'C17': dict(
        level='proof',
        contracts=[],
        functions=[],
        case_functions=[dict(module='vf.contracts.diagnostics', key='pygyro/diagnostics::constructors')],
        bounded=[dict(module='vf.rt.bounded_diag', prop='C17',
                      bound='l2/l1/nParticles/KineticEnergy in all three 4-D layouts and the phi norm in the 3-D layouts (incl. layouts '
                            'replicated along one process direction) on process grids 1x1..4x3 with uneven blocks and non-uniform r, v '
                            'meshes against an independently written trapezoid/rectangle quadrature of the global field (tolerance '
                            '1e-11 relative to the quadrature of |integrand|), analytic volume for f=1; getMin/getMax (whole grid, fixed '
                            'index along each axis, pairs of axes, several roots); DiagnosticCollector slots for int/float/accumulated '
                            'times, saveStep 1..6, reduce on all ranks')],
        assumptions=['simulated MPI (vf/shim)'],
    ),
    'C18': dict(
        level='other',
        contracts=[],
        functions=[],
        trace_mode=True,
        case_functions=[dict(module='vf.contracts.driver', key='fullSimulation.py#counters::driver_counters')],
        bounded=[dict(module='vf.rt.bounded_diag', prop='C18',
                      bound='write with P and load with Q ranks, P,Q in {1,2,3,4,6}, all 4-D layouts and 3-D complex grids, bitwise '
                            'comparison incl. -0.0/nan/inf/denormals; latest / timepoint selection for time sets with different digit '
                            'counts; constants: str -> get_constants round trip and 40-120 key orders per random file with symbolic '
                            'dependency chains; restart: fullSimulation.main() itself, N+M steps vs N then M, saveStep 1..5, dt int/float, '
                            'P 1..6, byte-identical final checkpoints. h5py has no MPI driver here: File(driver=mpio) is served by a '
                            'documented stand-in (shared on-disk file, locked writes) for the duration of a case')],
        assumptions=['simulated MPI (vf/shim)', 'HDF5 hyperslab semantics of h5py; the mpio stand-in of vf/rt/bounded_diag.py'],
    ),
    'C14': dict(
        level='other',
        contracts=[],
        functions=[],
        case_functions=[dict(module='vf.contracts.poisson_wiring', key='pygyro/poisson/poisson_solver.py::solveEquation')],
        bounded=[dict(module='vf.rt.bounded_poisson', prop='C14',
                      bound='real DiffEqSolver on process grids 1x1..3x2, degrees 1-5, 8-14 radial points, uniform-cubic and general '
                            'spline objects (equidistant breaks), constant A and random B,C,D,E, quadrature exactness p-1..2p+3, all '
                            'Dirichlet/Neumann mixes incl. both orders in one call, against an independent dense Galerkin assembly '
                            '(tolerance max(1e-10, 400*cond*eps)); manufactured polynomial solutions; linearity; mode independence; '
                            'refusal of ill-posed pure-Neumann problems; repeated calls')],
        assumptions=['simulated MPI (vf/shim)', 'non-equidistant radial break points are outside the quantifier of C14 (the solver takes '
                     'the cell width from the first cell): observation recorded in DESIGN.md'],
    ),
    'C15': dict(
        level='other',
        contracts=[],
        functions=[],
        case_functions=[dict(module='vf.contracts.poisson_wiring', key='pygyro/poisson/poisson_solver.py::solveEquation')],
        bounded=[dict(module='vf.rt.bounded_poisson', prop='C15',
                      bound='real QuasiNeutralitySolver pipeline (getModes, layout changes, solveEquation, findPotential) twice on the '
                            'same objects, ntheta 4-9 (even and odd), chi 0/1, adiabatic and kinetic electrons, process grids 1x1..3x2, '
                            'against an explicit DFT matrix and a dense mode-by-mode solve; equilibrium gives zero density and potential')],
        assumptions=['simulated MPI (vf/shim)'],
    ),
    'C08': dict(
        level='other',
        contracts=[],
        functions=[],
        case_functions=[dict(module='vf.contracts.collocation', key='pygyro/splines/spline_interpolators.py::SplineInterpolator1D.collocation_matrix')],
        bounded=[dict(module='vf.rt.bounded_splines', prop='C08',
                      bound='degrees 1-5 (thorough 1-D up to 8), 1..12 cells (thorough up to 33), clamped/periodic, uniform/non-uniform/'
                            'uniform-cubic, six domains; 1-D: S(x_i)=u_i (oracle, scalar and vector evaluation), badly scaled / spike / '
                            'complex data, polynomial reproduction everywhere on clamped spaces, wrapped coefficients, multi-step reuse '
                            'and shared bases; 2-D: all boundary combinations, different degrees and sizes per direction, memory layouts; '
                            'oracle = scipy BSpline on knots written from the definition + dense collocation solve; tolerances from LU '
                            'backward error bounds')],
        assumptions=['scipy.interpolate.BSpline and dense numpy solves as independent oracle'],
    ),
    'C09': dict(
        level='other',
        contracts=[],
        functions=[],
        case_functions=[dict(module='vf.contracts.quadrature', key='pygyro/splines/spline_interpolators.py::SplineInterpolator1D.get_quadrature_coefficients')],
        bounded=[dict(module='vf.rt.bounded_splines', prop='C09',
                      bound='same sweep of spaces as C08; stored integrals entry by entry against the exact antiderivative, weights = '
                            'integrals of the cardinal interpolating splines, sum = domain length, equal weights on uniform periodic '
                            'spaces, w.u = exact integral of the interpolant for several data kinds, repeated / interleaved calls on '
                            'shared BSplines objects leave the stored integrals bit-identical')],
        assumptions=['scipy exact spline antiderivative as independent oracle'],
    ),
    'C13': dict(
        level='proof',
        contracts=['vf.contracts.pargrad'],
        functions=[],
        case_functions=[dict(module='vf.contracts.pargrad', key='pygyro/advection/advection.py::ParallelGradient')],
        bounded=[dict(module='vf.rt.bounded_adv', prop='C13',
                      bound='ParallelGradient for orders 2-6 against an independent finite-difference / field-line formula, every local radial index on 1-4 processes, iota zero and non-zero, algebraic corollaries, observed convergence order')],
        assumptions=['interp_val(spline, x) names the value of the periodic theta-spline the Spline1D object holds after '
                     'compute_interpolant (assumed contract of the interpolator: it interpolates the row it was given; C08) ',
                     'numpy.linalg.solve returns the solution of A c = b (assumed)',
                     'integer modulo with a symbolic divisor: defining facts instantiated per occurrence (trusted arithmetic)',
                     'sqrt is uninterpreted (A5)', 'convergence order is not decided (numerical, bounded tier)'],
    ),
}
