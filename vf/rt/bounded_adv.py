"""Bounded stand-ins for the advection properties C10-C13: the real classes of /repo/pygyro/advection run on generated
inputs and are compared with independent references written from the property statements.  Never counted as proved.

python -m vf.rt.bounded_adv <C10|C11|C12|C13> <tier> <seed> <repo> [case.json]  -> JSON on stdout

References (nothing below calls the code under test to produce an expected value):
  * spline spaces: scipy.interpolate.BSpline basis functions on our own knot vectors, dense collocation solve
    (periodic wrap folded by hand); 2-D = tensor product;
  * Lagrange weights by the plain product formula, finite-difference weights by an exact rational solve of the
    moment system, equilibrium distribution from its closed form, characteristics by our own vectorised
    Heun / fixed-point trapezoid.
Tolerances are rounding-only: every comparison uses  tol = rtol * scale  with `scale` the natural magnitude of the compared
quantity (1+max|f|, or (1+max|phi|)*sum|c_k|*b_z/dz for the gradient).  rtol = 1e-9 against the references, 1e-11..1e-13 for the
algebraic identities (constants, linearity, shifts, exact circular shift), 1e-10 relative for closed-form boundary values; for the
implicit scheme 3*tol_iter*max|grad spline| is added.  Observed worst error/tolerance on the unchanged tree: <= 1.2e-2 (C12),
<= 6e-4 elsewhere, while every seeded slip (sign, index, weight, factor, wiring) is off by 1e-6..1 * scale.

What is covered (grid sizes 6..20 per direction, spline degrees 1..5 general + uniform-cubic path, non-uniform breaks):
  C10  step() for every (rIdx,cIdx) of tables built from Layouts of process grids up to 3x2 (any rank), displacements from 1e-15 cells to
       2.5 turns, both signs of v and dt, v=0, iota in {0,.8,-1.3,2}, R0 in {1.7,5,12,239.8}, z grids with offset; exact whole-cell
       shifts (dyadic data) incl. |shift| > nz, almost-whole-cell shifts; constants, linearity, z-shift commutation, consecutive steps,
       two operators on the same bases; gridStep on simulated process grids up to 3x2 / 4x1 / 1x4.
  C11  step() for the three edge modes, shifts 0, sub-cell, cells, +-0.999/1.0 domain widths, up to +-5.2 widths, c=0 and dt=0, five
       consecutive steps per object, random model constants; gridStep + gridStepKeepGradient on process grids up to 3x2 / 2x3.
  C12  explicit and implicit step vs. own characteristics (+ boundary values), nulEdge both ways, dt of both signs, sub-cell to 3 cells
       (explicit) / contractive regime (implicit), B0 in {.5,1,2}, radial domains [.1,14.5],[1,5],[2,3]; phi=const, phi=omega r^2/2 (also
       whole-cell rotations and more than one turn); explicit-vs-implicit order; termination (also one non-contractive case, see the
       final report: the unchanged tree does not terminate there); gridStep/gridStep_SplinesUnchanged on process grids up to 3x2.
  C13  orders 2-6 and the default, nz from order+1, every local radial index of Layouts (3-D and 4-D) for 1..4 processes, iota zero/non-zero;
       linearity, constants, z shifts, two objects on one basis, field-aligned functions (commensurate: rounding; otherwise bounded by
       the measured theta-interpolation error), observed convergence order.
"""
import json
import math
import os
import signal
import sys
import time
import traceback
import warnings
from fractions import Fraction

import numpy as np
from scipy.interpolate import BSpline

from .bounded_layout import _setup  # noqa

warnings.filterwarnings('ignore')

TWO_PI = 2 * np.pi
RTOL = 1e-9
EDGE = 1e-9          # nodes whose foot is closer than this to a domain boundary are not compared (C12) / accept both sides (C11)


# =============================================================================================
# independent reference pieces
# =============================================================================================

def knots_of(breaks, p, periodic):
    b = np.asarray(breaks, float)
    if periodic:
        L = b[-1] - b[0]
        return np.concatenate([b[-p - 1:-1] - L, b, b[1:p + 1] + L])
    return np.concatenate([[b[0]] * p, b, [b[-1]] * p])


class Sp1:
    """Spline space of degree p on `breaks` (periodic or clamped); reference implementation on top of scipy BSpline."""

    def __init__(self, breaks, p, periodic):
        self.b = np.asarray(breaks, float)
        self.p = p
        self.per = periodic
        self.T = knots_of(self.b, p, periodic)
        self.nc = len(self.b) - 1
        self.nfull = self.nc + p
        self.nb = self.nc if periodic else self.nfull
        self.lo, self.hi = self.b[0], self.b[-1]
        self._B = BSpline(self.T, np.eye(self.nfull), p, extrapolate=False)

    def basis(self, x, nu=0):
        """(len(x), nb) matrix of basis functions (nu-th derivative); NaN rows outside a clamped domain."""
        x = np.atleast_1d(np.asarray(x, float))
        if self.per:
            x = self.lo + np.mod(x - self.lo, self.hi - self.lo)
        M = self._B(x, nu) if nu else self._B(x)
        if self.per:
            M2 = M[:, :self.nc].copy()
            M2[:, :self.p] += M[:, self.nc:]
            M = M2
        return M

    def fit(self, xg, y):
        """Coefficients of the interpolant of y (values along axis 0) at the points xg."""
        return np.linalg.solve(self.basis(xg), y)

    def hmin(self):
        return float(np.diff(self.b).min())


class Sp2:
    """Tensor product of two Sp1 spaces."""

    def __init__(self, s1, s2):
        self.s1, self.s2 = s1, s2

    def fit(self, x1g, x2g, F):
        A = np.linalg.solve(self.s1.basis(x1g), F)            # along axis 0
        return np.linalg.solve(self.s2.basis(x2g), A.T).T     # along axis 1

    def ev(self, C, x1, x2, n1=0, n2=0):
        """Pointwise values at (x1[k], x2[k])."""
        B1 = self.s1.basis(np.ravel(x1), n1)
        B2 = self.s2.basis(np.ravel(x2), n2)
        return np.einsum('ki,ij,kj->k', B1, C, B2).reshape(np.shape(x1))


def lagrange_weights(x, nodes):
    """w_k = prod_{m!=k} (x-s_m)/(s_k-s_m)."""
    nodes = [float(s) for s in nodes]
    w = []
    for k, sk in enumerate(nodes):
        val = 1.0
        for m, sm in enumerate(nodes):
            if m != k:
                val *= (x - sm) / (sk - sm)
        w.append(val)
    return np.array(w)


def fd_coeffs(shifts):
    """First-derivative finite-difference weights on the integer stencil `shifts` (unit spacing):
    sum_k c_k k^m = delta_{m,1}, m = 0..n-1, solved exactly over the rationals."""
    n = len(shifts)
    A = [[Fraction(int(s)) ** m for s in shifts] + [Fraction(1 if m == 1 else 0)] for m in range(n)]
    for col in range(n):
        piv = next(r for r in range(col, n) if A[r][col] != 0)
        A[col], A[piv] = A[piv], A[col]
        A[col] = [a / A[col][col] for a in A[col]]
        for r in range(n):
            if r != col and A[r][col] != 0:
                fac = A[r][col]
                A[r] = [a - fac * b for a, b in zip(A[r], A[col])]
    return np.array([float(A[r][n]) for r in range(n)])


FEQ_KEYS = ('CN0', 'kN0', 'deltaRN0', 'rp', 'CTi', 'kTi', 'deltaRTi')


def feq_ref(r, v, K):
    """Local Maxwellian n0(r)/sqrt(2 pi Ti(r)) exp(-v^2/(2 Ti(r))) with the tanh profiles of the model."""
    r = np.asarray(r, float)
    v = np.asarray(v, float)
    n0 = K['CN0'] * np.exp(-K['kN0'] * K['deltaRN0'] * np.tanh((r - K['rp']) / K['deltaRN0']))
    Ti = K['CTi'] * np.exp(-K['kTi'] * K['deltaRTi'] * np.tanh((r - K['rp']) / K['deltaRTi']))
    return n0 * np.exp(-0.5 * v * v / Ti) / np.sqrt(TWO_PI * Ti)


# =============================================================================================
# building the real objects
# =============================================================================================

def make_breaks(lo, hi, ncells, jitter=0.0, jseed=0):
    b = np.linspace(lo, hi, ncells + 1)
    if jitter:
        h = (hi - lo) / ncells
        b[1:-1] += jitter * h * np.random.default_rng(jseed).uniform(-0.4, 0.4, ncells - 1)
    return b


def axis_breaks(ax, lo, hi, periodic):
    """ax = dict(n=number of grid points, p=degree, uniform=bool (uniform-cubic path when p==3), jitter, jseed)."""
    ncells = ax['n'] if periodic else ax['n'] - ax['p']
    return make_breaks(lo, hi, ncells, 0.0 if ax.get('uniform') else ax.get('jitter', 0.0), ax.get('jseed', 0))


def real_basis(breaks, p, periodic, uniform):
    from pygyro import splines as spl
    return spl.BSplines(spl.make_knots(np.asarray(breaks, float), int(p), bool(periodic)), int(p), bool(periodic), bool(uniform))


def make_constants(over):
    from pygyro.initialisation.constants import Constants
    c = Constants()
    for k, val in over.items():
        setattr(c, k, val)
    return c


def feq_consts(c):
    return {k: float(getattr(c, k)) for k in FEQ_KEYS}


def field(kind, rng, shape, axes=None):
    """Test data.  'random': iid normal nodal values; 'smooth': a few low modes on the index grid (still arbitrary)."""
    if kind == 'random':
        return rng.normal(size=shape)
    out = np.zeros(shape)
    grids = np.meshgrid(*[np.arange(n) / n for n in shape], indexing='ij')
    for _ in range(3):
        ph = rng.uniform(0, TWO_PI)
        ks = [int(rng.integers(0, 3)) for _ in shape]
        out += rng.normal() * np.cos(TWO_PI * sum(k * g for k, g in zip(ks, grids)) + ph)
    return out + rng.normal()


class Checks:
    """Collects the outcome of the individual checks of one case."""

    def __init__(self):
        self.n = 0
        self.bad = []

    def add(self, name, ok, detail=''):
        self.n += 1
        if not ok:
            self.bad.append('%s: %s' % (name, detail))

    def close(self, name, got, want, scale, rtol=RTOL, mask=None):
        got = np.asarray(got, float)
        want = np.asarray(want, float)
        if got.shape != want.shape:
            self.add(name, False, 'shape %s vs %s' % (got.shape, want.shape))
            return
        d = np.abs(got - want)
        if mask is not None:
            d = np.where(mask, d, 0.0)
            bad_nan = np.isnan(got) & mask
        else:
            bad_nan = np.isnan(got) | np.isnan(want)
        tol = rtol * scale
        if bad_nan.any() or not (d <= tol).all():
            k = np.unravel_index(int(np.nanargmax(np.where(np.isnan(d), np.inf, d))), d.shape) if d.size else ()
            self.add(name, False, 'max |got-expected| = %.3e at index %s (got %.12g, expected %.12g), tolerance %.1e; %d of %d entries off'
                     % (float(np.nanmax(d)) if d.size else 0.0, tuple(int(i) for i in k), float(got[k]), float(want[k]), tol,
                        int((~(d <= tol)).sum()), d.size))
        else:
            self.add(name, True)


class Timeout(Exception):
    pass


def _alarm(signum, frame):
    raise Timeout()


def with_timeout(seconds, fn):
    """Run fn() in the main thread; raise Timeout if it does not return (pure-Python loops are interruptible)."""
    old = signal.signal(signal.SIGALRM, _alarm)
    signal.setitimer(signal.ITIMER_REAL, seconds)
    try:
        return fn()
    finally:
        signal.setitimer(signal.ITIMER_REAL, 0)
        signal.signal(signal.SIGALRM, old)


# =============================================================================================
# C10  flux-surface advection
# =============================================================================================

def c10_ref(f, theta, sp, dz, iota, R0, r, v, dt):
    """f(theta,z) -> sum_k w_k S_{(z+s_k) mod nz}((theta + iota*dz*s_k/R0) mod 2pi); 6-point stencil centred on the foot."""
    bz = 1.0 / math.sqrt(1.0 + (r * iota / R0) ** 2)
    d = -v * bz * dt / dz                      # displacement of the foot in cells
    k0 = math.floor(d)
    s = [k0 + j for j in range(-2, 4)]
    w = lagrange_weights(d, s)
    C = sp.fit(theta, f)                       # one theta-spline per z column
    out = np.zeros_like(f)
    for wk, sk in zip(w, s):
        th = np.mod(theta + iota * dz * sk / R0, TWO_PI)
        vals = sp.basis(th) @ C                # [j, z] = S_z(theta_j + shift)
        out += wk * np.roll(vals, -sk, axis=1)  # [:, i] <- vals[:, (i+sk) mod nz]
    return out, d


def c10_build(case):
    from pygyro.model.layout import Layout
    from pygyro.advection.advection import FluxSurfaceAdvection
    th = case['theta']
    bth = axis_breaks(th, 0.0, TWO_PI, True)
    basis_t = real_basis(bth, th['p'], True, th.get('uniform', False))
    theta = np.array(basis_t.greville, float)
    nz = case['nz']
    z = case['z0'] + case['Lz'] * np.arange(nz) / nz
    basis_z = real_basis(np.linspace(case['z0'], case['z0'] + case['Lz'], nz + 1), 3, True, True)
    eta = [np.array(case['r'], float), theta, z, np.array(case['v'], float)]
    consts = make_constants(dict(iotaVal=case['iota'], R0=case['R0']))
    layout = Layout('flux_surface', list(case['nprocs']), [0, 3, 1, 2], eta, list(case['rank']))
    adv = FluxSurfaceAdvection(eta, [basis_t, basis_z], layout, case['dt'], consts)
    sp = Sp1(bth, th['p'], True)
    return adv, sp, eta, layout


def c10_case(case):
    ck = Checks()
    rng = np.random.default_rng(case['dseed'])
    adv, sp, eta, layout = c10_build(case)
    r_all, theta, z, v_all = eta
    dz = case['Lz'] / case['nz']
    nq, nz = len(theta), len(z)
    r_loc = r_all[layout.starts[0]:layout.ends[0]]
    v_loc = v_all[layout.starts[1]:layout.ends[1]]
    f0 = field(case.get('fkind', 'random'), rng, (nq, nz))
    scale = 1.0 + np.abs(f0).max()
    pairs = [(i, j) for i in range(len(r_loc)) for j in range(len(v_loc))]
    order = [pairs[k] for k in rng.permutation(len(pairs))]
    ref = lambda g, i, j: c10_ref(g, theta, sp, dz, case['iota'], case['R0'], r_loc[i], v_loc[j], case['dt'])
    for (i, j) in order:
        f = f0.copy()
        adv.step(f, j, i)
        want, d = ref(f0, i, j)
        ck.close('step(rIdx=%d,cIdx=%d) r=%g v=%g displacement=%.6g cells' % (i, j, r_loc[i], v_loc[j], d), f, want, scale)
        if case.get('whole') and case['iota'] == 0.0:
            # whole-cell displacement without twist: exact circular shift of the nodal values
            kk = int(round(d))
            ck.add('whole-cell displacement is an integer', abs(d - kk) == 0.0, 'd=%r' % d)
            ck.close('circular shift by %d cells (rIdx=%d,cIdx=%d)' % (kk, i, j), f, np.roll(f0, -kk, axis=1), scale, rtol=1e-12)
    # corollaries on one (r,v) pair of the table, object reused
    (i, j) = order[0]
    g = np.full((nq, nz), 1.0 + rng.uniform())
    g0 = g.copy()
    adv.step(g, j, i)
    ck.close('constants preserved (rIdx=%d,cIdx=%d)' % (i, j), g, g0, 1.0 + abs(g0[0, 0]), rtol=1e-12)
    f1, f2 = field('random', rng, (nq, nz)), field('smooth', rng, (nq, nz))
    a, b = rng.normal(), rng.normal()
    h1, h2, h3 = f1.copy(), f2.copy(), a * f1 + b * f2
    adv.step(h1, j, i)
    adv.step(h2, j, i)
    adv.step(h3, j, i)
    ck.close('linearity (rIdx=%d,cIdx=%d)' % (i, j), h3, a * h1 + b * h2, 1.0 + np.abs(h3).max(), rtol=1e-11)
    sh = int(rng.integers(1, nz))
    h4 = np.roll(f1, sh, axis=1).copy()
    adv.step(h4, j, i)
    ck.close('commutes with a z shift of %d cells (rIdx=%d,cIdx=%d)' % (sh, i, j), h4, np.roll(h1, sh, axis=1), 1.0 + np.abs(h1).max(),
             rtol=1e-11)
    # two consecutive steps on the same buffer, then a different table entry (stale scratch values would show)
    (i2, j2) = order[-1]
    f = f0.copy()
    adv.step(f, j, i)
    mid = f.copy()
    adv.step(f, j2, i2)
    ck.close('second step after a first one (rIdx %d->%d, cIdx %d->%d)' % (i, i2, j, j2), f, ref(mid, i2, j2)[0], 1.0 + np.abs(mid).max())
    # a second operator with another time step built on the same spline bases must not disturb the first one
    from pygyro.advection.advection import FluxSurfaceAdvection
    adv2 = FluxSurfaceAdvection(eta, [adv._thetaSpline.basis, adv._thetaSpline.basis], layout, -0.37 * case['dt'],
                                make_constants(dict(iotaVal=case['iota'], R0=case['R0'])))
    g2 = f0.copy()
    adv2.step(g2, j, i)
    want2 = c10_ref(f0, theta, sp, dz, case['iota'], case['R0'], r_loc[i], v_loc[j], -0.37 * case['dt'])[0]
    ck.close('second operator (dt -> -0.37 dt) on the same bases', g2, want2, scale)
    g3 = f1.copy()
    adv.step(g3, j, i)
    ck.close('first operator unchanged after using the second one', g3, h1, 1.0 + np.abs(h1).max(), rtol=1e-13)
    return ck


def c10_grid_case(case):
    """gridStep on a distributed grid: every (r,v) surface must be advected with ITS radius and velocity."""
    from mpi4py import MPI
    ck = Checks()
    th = case['theta']
    bth = axis_breaks(th, 0.0, TWO_PI, True)
    nz = case['nz']
    dz = case['Lz'] / nz
    sp = Sp1(bth, th['p'], True)
    P = int(np.prod(case['nprocs']))
    G = None

    def job(rank):
        from pygyro.model.layout import getLayoutHandler
        from pygyro.model.grid import Grid
        from pygyro.advection.advection import FluxSurfaceAdvection
        basis_t = real_basis(bth, th['p'], True, th.get('uniform', False))
        theta = np.array(basis_t.greville, float)
        z = case['z0'] + case['Lz'] * np.arange(nz) / nz
        basis_z = real_basis(np.linspace(case['z0'], case['z0'] + case['Lz'], nz + 1), 3, True, True)
        eta = [np.array(case['r'], float), theta, z, np.array(case['v'], float)]
        consts = make_constants(dict(iotaVal=case['iota'], R0=case['R0']))
        h = getLayoutHandler(MPI.COMM_WORLD, {'flux_surface': [0, 3, 1, 2]}, list(case['nprocs']), eta)
        g = Grid(eta, [None, basis_t, basis_z, None], h, 'flux_surface', MPI.COMM_WORLD)
        L = h.getLayout('flux_surface')
        Gl = np.random.default_rng(case['dseed']).normal(size=(len(eta[0]), len(eta[3]), len(theta), nz))
        sl = tuple(slice(s, e) for s, e in zip(L.starts, L.ends))
        g.getAllData()[:] = Gl[sl]
        adv = FluxSurfaceAdvection(eta, [basis_t, basis_z], L, case['dt'], consts)
        for _ in range(case.get('nsteps', 1)):
            adv.gridStep(g)
        return [int(x) for x in L.starts], g.getAllData().copy(), theta

    res, _ = MPI.run_job(P, job, timeout=30)
    theta = res[0][2]
    r_all, v_all = np.array(case['r'], float), np.array(case['v'], float)
    Gl = np.random.default_rng(case['dseed']).normal(size=(len(r_all), len(v_all), len(theta), nz))
    scale = 1.0 + np.abs(Gl).max()
    for rank, (st, data, _) in enumerate(res):
        want = np.empty_like(data)
        for i in range(data.shape[0]):
            for j in range(data.shape[1]):
                w = Gl[st[0] + i, st[1] + j]
                for _ in range(case.get('nsteps', 1)):
                    w, _d = c10_ref(w, theta, sp, dz, case['iota'], case['R0'], r_all[st[0] + i], v_all[st[1] + j], case['dt'])
                want[i, j] = w
        ck.close('gridStep, rank %d (block starts r=%d v=%d), index = (r,v,theta,z) local' % (rank, st[0], st[1]), data, want, scale)
    return ck


def c10_gen(tier, rng):
    cases = []
    quick = tier == 'quick'

    def theta_ax(k):
        opts = [dict(n=8, p=3, uniform=True), dict(n=9, p=3, uniform=False, jitter=0.0), dict(n=10, p=5, uniform=False, jitter=1.0),
                dict(n=7, p=2, uniform=False, jitter=1.0), dict(n=12, p=3, uniform=True), dict(n=8, p=4, uniform=False, jitter=0.0),
                dict(n=6, p=1, uniform=False, jitter=1.0), dict(n=11, p=3, uniform=False, jitter=1.0)]
        a = dict(opts[k % len(opts)])
        a['jseed'] = int(rng.integers(0, 10 ** 6))
        return a

    n_formula = 40 if quick else 300
    for k in range(n_formula):
        nz = int(rng.integers(7, 17))
        R0 = float([1.7, 5.0, 12.0, 239.8081535][int(rng.integers(0, 4))])
        iota = float([0.0, 0.8, -1.3, 2.0][k % 4])
        Lz = float(TWO_PI * R0 if rng.integers(0, 2) else rng.uniform(3.0, 40.0))
        dz = Lz / nz
        nr, nv = int(rng.integers(2, 4)), int(rng.integers(2, 5))
        r = np.sort(rng.uniform(0.1, 14.5, nr)).tolist()
        v = rng.uniform(-7.0, 7.0, nv)
        v[0] = abs(v[0]) + 0.5
        v[1] = -abs(v[1]) - 0.5
        if nv > 2 and k % 3 == 0:
            v[2] = 0.0
        # target displacement (cells) of the fastest particle: sub-cell, a few cells, many cells, more than one turn
        cells = [0.3, 2.6, 7.4, nz + 3.7, 2.5 * nz + 0.2][k % 5]
        dt = float(cells * dz / np.abs(v).max() * (1 if (k // 5) % 2 == 0 else -1))
        pg = [(1, 1), (2, 1), (1, 2), (2, 2), (3, 1)][int(rng.integers(0, 5))]
        pg = (min(pg[0], nr), min(pg[1], nv))
        rank = [int(rng.integers(0, pg[0])), int(rng.integers(0, pg[1]))]
        cases.append(dict(kind='formula', theta=theta_ax(k), nz=nz, z0=float([0.0, -3.25, 11.0][k % 3]), Lz=Lz, R0=R0, iota=iota, r=r,
                          v=np.sort(v).tolist(), dt=dt, nprocs=list(pg), rank=rank, fkind=['random', 'smooth'][k % 2],
                          dseed=int(rng.integers(0, 2 ** 31))))
    # whole-cell displacements: dyadic dz, v, dt so that v*dt/dz is an exact integer; iota = 0 (exact shift) or r = 0 (no b_z change)
    n_whole = 14 if quick else 60
    for k in range(n_whole):
        nz = int(rng.integers(7, 15))
        dz = [0.5, 0.25, 1.0, 2.0][k % 4]
        v = [-3.0, -1.0, 0.0, 1.0, 2.0, 4.0]
        dt = float([1.0, -1.0, 2.0, -2.0, 4.0, 8.0, -16.0][k % 7] * dz)
        iota = 0.0 if k % 3 != 2 else 0.8
        cases.append(dict(kind='formula', whole=True, theta=theta_ax(k + 3), nz=nz, z0=float([0.0, 4.0][k % 2]), Lz=float(nz * dz), R0=float([2.0, 9.0][k % 2]),
                          iota=iota, r=[0.0, 3.0] if iota else [0.5, 3.0, 14.0], v=v, dt=dt, nprocs=[1, 1], rank=[0, 0],
                          fkind='random', dseed=int(rng.integers(0, 2 ** 31))))
    # almost whole-cell displacement (on-node special case vs. division by a tiny distance)
    for k in range(4 if quick else 16):
        nz = int(rng.integers(7, 13))
        dz = 0.5
        eps = [1e-15, -1e-15, 3e-13, -2e-12][k % 4]
        cases.append(dict(kind='formula', theta=theta_ax(k), nz=nz, z0=0.0, Lz=float(nz * dz), R0=3.0, iota=0.0, r=[1.0, 2.0], v=[-2.0, 1.0, 3.0],
                          dt=float(dz * (1 + eps) * [1, -3, 5][k % 3]), nprocs=[1, 1], rank=[0, 0], fkind='random',
                          dseed=int(rng.integers(0, 2 ** 31))))
    # grid-level step on process grids
    grids = [(1, 1), (2, 1), (1, 2), (2, 2), (3, 1)] if quick else [(1, 1), (2, 1), (1, 2), (2, 2), (3, 1), (3, 2), (1, 3), (2, 3), (4, 1), (2, 2), (1, 4)]
    for k, pg in enumerate(grids):
        nz = int(rng.integers(7, 10))
        R0 = float([1.7, 4.0][k % 2])
        nr, nv = max(pg[0], 2) + k % 2, max(pg[1], 2) + (k // 2) % 2
        Lz = float(TWO_PI * R0)
        v = np.sort(rng.uniform(-5, 5, nv))
        cases.append(dict(kind='grid', theta=theta_ax(k), nz=nz, z0=0.0, Lz=Lz, R0=R0, iota=float([0.8, -1.1, 0.0][k % 3]),
                          r=np.sort(rng.uniform(0.5, 14.5, nr)).tolist(), v=v.tolist(), dt=float(rng.uniform(0.5, 3.0) * Lz / nz / 5 * (-1) ** k),
                          nprocs=list(pg), nsteps=1 + k % 2, dseed=int(rng.integers(0, 2 ** 31))))
    return cases


def c10_dispatch(case):
    return c10_grid_case(case) if case['kind'] == 'grid' else c10_case(case)


# =============================================================================================
# C11  v-parallel advection
# =============================================================================================

def c11_ref(f, vpts, sp, c, dt, r, mode, K):
    """Nodal values of the interpolant at v - c*dt.  Returns a list of admissible result vectors: where a foot (or its periodic
    image) lies within EDGE of an end of the domain both readings (inside / outside) are admissible."""
    coef = sp.fit(vpts, f)
    lo, hi = float(vpts[0]), float(vpts[-1])
    W = hi - lo
    foot = vpts - c * dt
    ev = lambda x: sp.basis(np.clip(x, lo, hi)) @ coef
    eps = EDGE * (1.0 + abs(lo) + abs(hi) + abs(c * dt))
    if mode == 'periodic':
        img = np.where((foot < lo) | (foot > hi), lo + np.mod(foot - lo, W), foot)
        main = ev(img)
        alt = main.copy()
        moved = (foot < lo) | (foot > hi)
        near_lo = moved & (img - lo < eps)
        near_hi = moved & (hi - img < eps)
        alt[near_lo] = ev(np.full(near_lo.sum(), hi))
        alt[near_hi] = ev(np.full(near_hi.sum(), lo))
        return main, alt
    fill = feq_ref(r, foot, K) if mode == 'fEq' else np.zeros_like(foot)
    inside = (foot >= lo) & (foot <= hi)
    main = np.where(inside, ev(foot), fill)
    near = (np.abs(foot - lo) < eps) | (np.abs(foot - hi) < eps)
    alt = np.where(near, np.where(inside, fill, ev(foot)), main)
    return main, alt


def c11_build(case):
    from pygyro.advection.advection import VParallelAdvection
    ax = case['vax']
    bv = axis_breaks(ax, case['vmin'], case['vmax'], False)
    basis = real_basis(bv, ax['p'], False, ax.get('uniform', False))
    vpts = np.array(basis.greville, float)
    consts = make_constants(case.get('consts', {}))
    adv = VParallelAdvection([np.zeros(2), np.zeros(2), np.zeros(2), vpts], basis, consts, case['mode'])
    return adv, Sp1(bv, ax['p'], False), vpts, consts


def c11_close2(ck, name, got, mains, scale):
    main, alt = mains
    d = np.minimum(np.abs(got - main), np.abs(got - alt))
    tol = RTOL * scale
    if np.isnan(got).any() or not (d <= tol).all():
        k = int(np.nanargmax(np.where(np.isnan(d), np.inf, d)))
        ck.add(name, False, 'max |got-expected| = %.3e at node %d (got %.12g, expected %.12g), tolerance %.1e; %d of %d nodes off'
               % (float(np.nanmax(d)), k, float(got[k]), float(main[k]), tol, int((~(d <= tol)).sum()), d.size))
    else:
        ck.add(name, True)


def c11_case(case):
    ck = Checks()
    rng = np.random.default_rng(case['dseed'])
    adv, sp, vpts, consts = c11_build(case)
    K = feq_consts(consts)
    n = len(vpts)
    W = vpts[-1] - vpts[0]
    if case.get('fkind') == 'maxwell':
        f = feq_ref(case['steps'][0][2], vpts, K) * (1.0 + 0.3 * np.exp(-(vpts - 0.2 * W) ** 2))
    else:
        f = field(case.get('fkind', 'random'), rng, (n,))
    for k, (c, dt, r) in enumerate(case['steps']):
        prev = f.copy()
        adv.step(f, dt, c, r)
        scale = 1.0 + np.abs(prev).max()
        c11_close2(ck, 'step %d: mode %s, c=%g dt=%g (shift %.4g domain widths), r=%g' % (k, case['mode'], c, dt, c * dt / W, r), f,
                   c11_ref(prev, vpts, sp, c, dt, r, case['mode'], K), scale)
        if c * dt == 0.0:
            ck.close('step %d: zero shift leaves the nodal values unchanged' % k, f, prev, scale, rtol=1e-12)
        if not np.isfinite(f).all():
            break
    return ck


def c13_field_ref(phi, theta, sp, dz, iota, R0, r, order=6):
    return c13_ref(phi, theta, sp, dz, iota, R0, r, c13_stencils(order)[0])


def c11_grid_case(case):
    """Grid-level step: each (r,z,theta) line is advected with the parallel gradient of phi at that same global position."""
    from mpi4py import MPI
    ck = Checks()
    th, ax = case['theta'], case['vax']
    bth = axis_breaks(th, 0.0, TWO_PI, True)
    bv = axis_breaks(ax, case['vmin'], case['vmax'], False)
    nz = case['nz']
    dz = case['Lz'] / nz
    nprocs = list(case['nprocs'])
    P = int(np.prod(nprocs))
    r_all = np.array(case['r'], float)
    nr = len(r_all)

    def data(nq, nv):
        rng = np.random.default_rng(case['dseed'])
        F = rng.normal(size=(nr, nz, nq, nv))
        PH = case['phiamp'] * (rng.normal(size=(nr, nz, nq)) + 1j * rng.normal(size=(nr, nz, nq)))
        return F, PH

    def job(rank):
        from pygyro.model.layout import getLayoutHandler, LayoutSwapper
        from pygyro.model.grid import Grid
        from pygyro.advection.advection import VParallelAdvection, ParallelGradient
        comm = MPI.COMM_WORLD
        basis_t = real_basis(bth, th['p'], True, th.get('uniform', False))
        basis_v = real_basis(bv, ax['p'], False, ax.get('uniform', False))
        theta = np.array(basis_t.greville, float)
        vpts = np.array(basis_v.greville, float)
        z = case['Lz'] * np.arange(nz) / nz
        eta = [r_all, theta, z, vpts]
        consts = make_constants(dict(case.get('consts', {}), iotaVal=case['iota'], R0=case['R0']))
        h = getLayoutHandler(comm, {'v_parallel': [0, 2, 1, 3]}, nprocs, eta)
        sw = LayoutSwapper(comm, [{'v_parallel_2d': [0, 2, 1], 'mode_solve': [1, 2, 0]}, {'v_parallel_1d': [0, 2, 1]}, {'poloidal': [2, 1, 0]}],
                           [nprocs, nprocs[0], nprocs[1]], eta[:3], 'v_parallel_1d')
        g = Grid(eta, [None, basis_t, None, basis_v], h, 'v_parallel', comm)
        phi = Grid(eta[:3], [None, basis_t, None], sw, 'v_parallel_1d', comm, dtype=np.complex128)
        F, PH = data(len(theta), len(vpts))
        L, Lp = h.getLayout('v_parallel'), sw.getLayout('v_parallel_1d')
        g.getAllData()[:] = F[tuple(slice(s, e) for s, e in zip(L.starts, L.ends))]
        phi.getAllData()[:] = PH[tuple(slice(s, e) for s, e in zip(Lp.starts, Lp.ends))]
        adv = VParallelAdvection(eta, basis_v, consts, case['mode'])
        pg = ParallelGradient(basis_t, eta, Lp, consts)
        vals = np.full([L.shape[0], nz, len(theta)], np.nan)
        adv.gridStep(g, phi, pg, vals, case['dt'])
        first = g.getAllData().copy()
        adv.gridStepKeepGradient(g, vals, case['dt2'])
        return [int(x) for x in L.starts], first, g.getAllData().copy(), vals.copy(), theta, vpts, feq_consts(consts)

    res, _ = MPI.run_job(P, job, timeout=30)
    theta, vpts, K = res[0][4], res[0][5], res[0][6]
    F, PH = data(len(theta), len(vpts))
    spt, spv = Sp1(bth, th['p'], True), Sp1(bv, ax['p'], False)
    gr = [c13_field_ref(PH[i].real, theta, spt, dz, case['iota'], case['R0'], r_all[i]) for i in range(nr)]
    grad = np.array([g_[0] for g_ in gr])
    gscale = max(g_[1] for g_ in gr) * (1.0 + np.abs(PH.real).max())
    scale = 1.0 + np.abs(F).max()
    for rank, (st, first, second, vals, _, _, _) in enumerate(res):
        nrl, nzl = first.shape[0], first.shape[1]
        ck.close('rank %d: gradient table left in parGradVals' % rank, vals, grad[st[0]:st[0] + nrl], gscale)
        bad1 = bad2 = None
        for i in range(nrl):
            for j in range(nzl):
                for k in range(len(theta)):
                    cc = grad[st[0] + i, st[1] + j, k]
                    r = r_all[st[0] + i]
                    m1 = c11_ref(F[st[0] + i, st[1] + j, k], vpts, spv, cc, case['dt'], r, case['mode'], K)
                    d1 = np.minimum(np.abs(first[i, j, k] - m1[0]), np.abs(first[i, j, k] - m1[1])).max()
                    if not d1 <= RTOL * scale and bad1 is None:
                        bad1 = (i, j, k, float(d1))
                    m2 = c11_ref(first[i, j, k], vpts, spv, cc, case['dt2'], r, case['mode'], K)
                    d2 = np.minimum(np.abs(second[i, j, k] - m2[0]), np.abs(second[i, j, k] - m2[1])).max()
                    if not d2 <= RTOL * (1.0 + np.abs(first).max()) and bad2 is None:
                        bad2 = (i, j, k, float(d2))
        ck.add('rank %d (block starts r=%d z=%d): gridStep' % (rank, st[0], st[1]), bad1 is None,
               'line (local r,z,theta)=%s differs from advection with the gradient at its own global position by %.3e' % (bad1[:3], bad1[3]) if bad1 else '')
        ck.add('rank %d (block starts r=%d z=%d): gridStepKeepGradient' % (rank, st[0], st[1]), bad2 is None,
               'line (local r,z,theta)=%s differs from advection with the gradient at its own global position by %.3e' % (bad2[:3], bad2[3]) if bad2 else '')
    return ck


def c11_gen(tier, rng):
    quick = tier == 'quick'
    cases = []
    axes = [dict(n=10, p=3, uniform=True), dict(n=12, p=3, uniform=False, jitter=1.0), dict(n=9, p=2, uniform=False, jitter=1.0),
            dict(n=14, p=5, uniform=False, jitter=0.0), dict(n=8, p=1, uniform=False, jitter=1.0), dict(n=16, p=3, uniform=True),
            dict(n=11, p=4, uniform=False, jitter=1.0), dict(n=20, p=3, uniform=True)]
    modes = ['fEq', 'null', 'periodic']
    nrep = 20 if quick else 150
    k = 0
    for rep in range(nrep):
        for mode in modes:
            ax = dict(axes[k % len(axes)])
            ax['jseed'] = int(rng.integers(0, 10 ** 6))
            vmax = float([4.0, 7.32, 5.0][k % 3])
            vmin = -vmax if k % 4 else -vmax + 1.0
            W = vmax - vmin
            h = W / (ax['n'] - ax['p'])
            # shifts in units of the domain width: 0, sub-cell, cells, most of the domain, exactly one width, several widths
            groups = [[0.13 * h / W, -0.4 * h / W, 1.7 * h / W, -2.2 * h / W], [0.37, -0.61, 0.999, -0.999, 1.0, -1.0],
                      [1.45, 2.3, 3.0, 5.2], [-1.45, -2.3, -3.0, -5.2], [0.0, 0.5, -1.0 - 0.5 * h / W, 2.0 + 0.3 * h / W]]
            steps = []
            for grp in [groups[i] for i in rng.permutation(len(groups))]:
                sft = grp[int(rng.integers(0, len(grp)))] * W
                if rng.integers(0, 2):
                    c = float(rng.choice([-2.0, -0.5, 0.25, 1.0, 3.0]))
                    dt = float(sft / c)
                else:
                    dt = float(rng.choice([-2.0, -0.5, 0.25, 1.0, 3.0]))
                    c = float(sft / dt)
                steps.append([c, dt, float(rng.uniform(0.1, 14.5))])
            if rep % 3 == 0:
                steps[1] = [0.0, 1.5, steps[1][2]] if rep % 2 else [1.5, 0.0, steps[1][2]]
            consts = {}
            if k % 2:
                consts = dict(CN0=float(rng.uniform(0.05, 0.3)), kN0=float(rng.uniform(0.02, 0.1)), deltaRN0=float(rng.uniform(1.5, 4.0)),
                              rp=float(rng.uniform(5.0, 9.0)), CTi=float(rng.uniform(0.7, 1.5)), kTi=float(rng.uniform(0.1, 0.4)),
                              deltaRTi=float(rng.uniform(1.0, 2.0)))
            cases.append(dict(kind='step', vax=ax, vmin=vmin, vmax=vmax, mode=mode, steps=steps, consts=consts,
                              fkind=['random', 'maxwell', 'smooth'][k % 3], dseed=int(rng.integers(0, 2 ** 31))))
            k += 1
    grids = [(1, 1), (2, 1), (1, 2), (2, 2)] if quick else [(1, 1), (2, 1), (1, 2), (2, 2), (3, 1), (1, 3), (3, 2), (2, 3)]
    for k, pg in enumerate(grids):
        nz = 7 + k % 3
        R0 = float([2.0, 5.0][k % 2])
        Lz = float(TWO_PI * R0)
        cases.append(dict(kind='grid', theta=dict(n=6 + k % 2, p=3, uniform=k % 2 == 0, jitter=1.0, jseed=k), vax=dict(n=8, p=3, uniform=k % 2 == 0, jitter=1.0, jseed=k),
                          vmin=-4.0, vmax=4.0, nz=nz, Lz=Lz, R0=R0, iota=float([0.8, 0.0, -1.2][k % 3]),
                          r=np.sort(rng.uniform(0.5, 14.5, max(pg[0], 2) + 1)).tolist(), mode=modes[k % 3], phiamp=float(rng.uniform(0.5, 2.0)),
                          dt=float(rng.uniform(0.3, 1.5) * (-1) ** k), dt2=float(rng.uniform(0.3, 1.5)), nprocs=list(pg),
                          dseed=int(rng.integers(0, 2 ** 31))))
    return cases


def c11_dispatch(case):
    return c11_grid_case(case) if case['kind'] == 'grid' else c11_case(case)


# =============================================================================================
# C12  poloidal advection
# =============================================================================================

class C12Ref:
    """Reference for one poloidal plane: splines of phi and f in (theta periodic) x (r clamped)."""

    def __init__(self, bth, pth, br, pr, theta, r, B0):
        self.sp = Sp2(Sp1(bth, pth, True), Sp1(br, pr, False))
        self.theta, self.r, self.B0 = theta, r, B0
        self.rlo, self.rhi = float(r[0]), float(r[-1])
        self.Q, self.R = np.meshgrid(theta, r, indexing='ij')

    def fit(self, F):
        return self.sp.fit(self.theta, self.r, F)

    def drift(self, Cphi, q, r):
        """(-d_r phi, d_theta phi)/(r*B0) in (theta, r) components; taken as zero outside the radial domain."""
        inside = (r >= self.rlo) & (r <= self.rhi)
        rc = np.clip(r, self.rlo, self.rhi)
        qm = np.mod(q, TWO_PI)
        dr = self.sp.ev(Cphi, qm, rc, 0, 1)
        dq = self.sp.ev(Cphi, qm, rc, 1, 0)
        return np.where(inside, -dr / (r * self.B0), 0.0), np.where(inside, dq / (r * self.B0), 0.0)

    def near(self, r):
        return (np.abs(r - self.rlo) < EDGE) | (np.abs(r - self.rhi) < EDGE)

    def feet_explicit(self, Cphi, dt):
        D0q, D0r = self.drift(Cphi, self.Q, self.R)
        q1, r1 = self.Q + dt * D0q, self.R + dt * D0r
        D1q, D1r = self.drift(Cphi, q1, r1)
        qf = np.mod(self.Q + 0.5 * dt * (D0q + D1q), TWO_PI)
        rf = self.R + 0.5 * dt * (D0r + D1r)
        self.all_inside = (r1 > self.rlo) & (r1 < self.rhi) & (rf > self.rlo) & (rf < self.rhi)
        return qf, rf, ~(self.near(r1) | self.near(rf))

    def feet_implicit(self, Cphi, dt, maxit=400, hist=None):
        """Fixed point of x* = x + dt/2 (D(x) + D(x*)), started from the Euler predictor; feet are kept inside the radial domain.
        Nodes whose iterates touch the radial boundary are flagged (their foot is on the boundary: not compared)."""
        D0q, D0r = self.drift(Cphi, self.Q, self.R)
        q1, r1 = self.Q + dt * D0q, self.R + dt * D0r
        touched = self.near(r1) | (r1 < self.rlo) | (r1 > self.rhi)
        its = 0
        for its in range(1, maxit + 1):
            D1q, D1r = self.drift(Cphi, q1, r1)
            q2 = np.mod(self.Q + 0.5 * dt * (D0q + D1q), TWO_PI)
            r2 = self.R + 0.5 * dt * (D0r + D1r)
            touched |= self.near(r2) | (r2 < self.rlo) | (r2 > self.rhi)
            r2 = np.clip(r2, self.rlo, self.rhi)
            dq = np.abs(q2 - np.mod(q1, TWO_PI))
            dq = np.minimum(dq, TWO_PI - dq)
            diff = np.maximum(dq, np.abs(r2 - r1))
            q1, r1 = q2, r2
            if hist is not None:
                hist.append(float(diff.max()))          # the quantity the stopping rule of the scheme looks at (all nodes)
            elif not (~touched).any() or diff[~touched].max() < 1e-14:
                break
        return q1, r1, ~touched, its

    def values(self, Cf, qf, rf, v, nul, K):
        inside = (rf >= self.rlo) & (rf <= self.rhi)
        val = self.sp.ev(Cf, qf, np.clip(rf, self.rlo, self.rhi))
        if nul:
            return np.where(inside, val, 0.0)
        return np.where(inside, val, np.where(rf < self.rlo, feq_ref(self.rlo, v, K), feq_ref(rf, v, K)))

    def grad_bound(self, Cf):
        return float(np.abs(Cf).max() * 2.0 * (self.sp.s1.p / self.sp.s1.hmin() + self.sp.s2.p / self.sp.s2.hmin()))

    def jac_bound(self, Cphi):
        """max row-sum norm of the Jacobian of the drift (central differences on nodes and cell centres)."""
        th = np.concatenate([self.theta, self.theta + 0.5 * self.sp.s1.hmin()])
        rr = np.concatenate([self.r, 0.5 * (self.r[1:] + self.r[:-1])])
        Q, R = np.meshgrid(th, rr, indexing='ij')
        e1, e2 = 1e-6, 1e-6 * (self.rhi - self.rlo)
        Rp, Rm = np.minimum(R + e2, self.rhi), np.maximum(R - e2, self.rlo)
        a = self.drift(Cphi, Q + e1, R)
        b = self.drift(Cphi, Q - e1, R)
        c = self.drift(Cphi, Q, Rp)
        d = self.drift(Cphi, Q, Rm)
        J = [[(a[0] - b[0]) / (2 * e1), (c[0] - d[0]) / (Rp - Rm)], [(a[1] - b[1]) / (2 * e1), (c[1] - d[1]) / (Rp - Rm)]]
        return float(max((np.abs(J[0][0]) + np.abs(J[0][1])).max(), (np.abs(J[1][0]) + np.abs(J[1][1])).max()))


def c12_axes(case):
    ath, ar = case['theta'], case['rax']
    bth = axis_breaks(ath, 0.0, TWO_PI, True)
    br = axis_breaks(ar, case['rmin'], case['rmax'], False)
    return ath, ar, bth, br


def c12_phi_nodal(spec, theta, r, rng):
    """Potential on the nodes from a small description (all randomness from rng)."""
    Q, R = np.meshgrid(theta, r, indexing='ij')
    x = (R - r[0]) / (r[-1] - r[0])
    out = np.full(Q.shape, float(spec.get('const', 0.0)))
    out += 0.5 * spec.get('omega', 0.0) * R ** 2
    for _ in range(spec.get('nmodes', 0)):
        m = int(rng.integers(spec.get('mmin', 0), spec.get('mmax', 2) + 1))
        l = int(rng.integers(0, 3))
        out += spec['amp'] * rng.normal() * np.cos(m * Q + rng.uniform(0, TWO_PI)) * np.cos(np.pi * l * x + rng.uniform(0, TWO_PI))
    if spec.get('noise'):
        out += spec['noise'] * rng.normal(size=Q.shape)
    return out


def c12_build(case, explicit, nz=1):
    from pygyro.advection.advection import PoloidalAdvection
    from pygyro import splines as spl
    ath, ar, bth, br = c12_axes(case)
    uni = bool(ath.get('uniform', False))
    basis_t = real_basis(bth, ath['p'], True, uni)
    basis_r = real_basis(br, ar['p'], False, uni)
    theta, r = np.array(basis_t.greville, float), np.array(basis_r.greville, float)
    consts = make_constants(dict(case.get('consts', {})))
    eta = [r, theta, np.linspace(0, 1, nz, endpoint=False), np.array(case.get('vgrid', [0.0]), float)]
    kw = dict(nulEdge=bool(case['nul']), explicitTrap=bool(explicit))
    if case.get('tol') is not None:
        kw['tol'] = case['tol']
    adv = PoloidalAdvection(eta, [basis_t, basis_r], consts, **kw)
    ref = C12Ref(bth, ath['p'], br, ar['p'], theta, r, float(consts.B0))
    interp = spl.SplineInterpolator2D(basis_t, basis_r)
    mk = lambda: spl.Spline2D(basis_t, basis_r)
    return adv, ref, interp, mk, consts, eta, (basis_t, basis_r)


def c12_compare(ck, name, got, ref, Cphi, Cf, dt, v, nul, K, explicit, tol_impl, scale):
    if explicit:
        qf, rf, okm = ref.feet_explicit(Cphi, dt)
        extra = 0.0
    else:
        qf, rf, okm, _ = ref.feet_implicit(Cphi, dt)
        extra = 3.0 * tol_impl * ref.grad_bound(Cf)
    want = ref.values(Cf, qf, rf, v, nul, K)
    ck.close(name + ' [%d of %d nodes compared, %d feet outside]' % (int(okm.sum()), okm.size, int(((rf < ref.rlo) | (rf > ref.rhi)).sum())),
             got, want, scale + extra / RTOL, mask=okm)
    out = okm & ((rf < ref.rlo) | (rf > ref.rhi))
    if out.any():
        # boundary values are closed-form numbers: they must agree to rounding relative to their own size
        rel = np.abs(got - want)[out] / np.maximum(np.abs(want[out]), 1e-300)
        rel = np.where(want[out] == 0.0, np.abs(got[out]), rel)
        ck.add(name + ' [boundary values, %d nodes]' % int(out.sum()), bool((rel <= 1e-10).all()),
               'largest relative deviation of a boundary value %.3e (expected zero / f_eq(r_min,v) / f_eq(r_foot,v))' % float(rel.max()))
    return qf, rf, okm


def c12_trace_case(case):
    """General comparison with the reference characteristics (+ boundary fill), several steps on the same objects."""
    ck = Checks()
    rng = np.random.default_rng(case['dseed'])
    tol_impl = case.get('tol') if case.get('tol') is not None else 1e-10
    for explicit in case['schemes']:
        adv, ref, interp, mk, consts, eta, _ = c12_build(case, explicit)
        K = feq_consts(consts)
        r, theta = eta[0], eta[1]
        rng2 = np.random.default_rng(case['dseed'])
        f = field(case.get('fkind', 'random'), rng2, (len(theta), len(r)))
        if case.get('fkind') == 'maxwell':
            f = feq_ref(r[None, :], case['steps'][0][1], K) * (1.0 + 0.2 * np.cos(theta[:, None])) + 0 * f
        for k, (dt, v, spec) in enumerate(case['steps']):
            phin = c12_phi_nodal(spec, theta, r, np.random.default_rng(case['dseed'] + 17 * k))
            phis = mk()
            interp.compute_interpolant(phin, phis)
            Cphi, Cf = ref.fit(phin), ref.fit(f)
            prev = f.copy()
            run = lambda: adv.step(f, dt, phis, v)
            if explicit:
                run()
            else:
                try:
                    with_timeout(case.get('limit', 60), run)
                except Timeout:
                    h = []
                    ref.feet_implicit(Cphi, dt, maxit=3000, hist=h)
                    ck.add('step %d implicit iteration terminates' % k, False,
                           'no return within %d s (a converging call on this grid takes well under 1 s); dt=%g, |dt|/2*max||grad drift|| = %.2f; in the reference '
                           'fixed-point iteration the largest change per sweep is %.2e after 1000, %.2e after 2000, %.2e after 3000 sweeps (stopping '
                           'tolerance %.0e)' % (case.get('limit', 60), dt, 0.5 * abs(dt) * ref.jac_bound(Cphi), min(h[900:1000]), min(h[1900:2000]),
                                                min(h[2900:3000]), tol_impl))
                    break
                ck.add('step %d implicit iteration terminates' % k, True)
            scale = 1.0 + np.abs(prev).max()
            c12_compare(ck, 'step %d %s nulEdge=%s dt=%g v=%g' % (k, 'explicit' if explicit else 'implicit', case['nul'], dt, v), f, ref,
                        Cphi, Cf, dt, v, case['nul'], K, explicit, tol_impl, scale)
            if not np.isfinite(f).all():
                break
    return ck


def c12_exact_case(case):
    """Constant potential (f unchanged) and phi = omega r^2/2 (rigid rotation by omega*dt/B0)."""
    ck = Checks()
    for explicit in case['schemes']:
        adv, ref, interp, mk, consts, eta, _ = c12_build(case, explicit)
        r, theta = eta[0], eta[1]
        nq, nr = len(theta), len(r)
        rng = np.random.default_rng(case['dseed'])
        f0 = field(case.get('fkind', 'random'), rng, (nq, nr))
        scale = 1.0 + np.abs(f0).max()
        B0 = float(consts.B0)
        tag = 'explicit' if explicit else 'implicit'
        interior = np.zeros((nq, nr), bool)
        interior[:, 1:-1] = True          # the feet of the first/last radial nodes lie ON the boundary: excluded by the quantifier
        for k, (dt, v) in enumerate(case['runs']):
            phis = mk()
            if case['what'] == 'const':
                interp.compute_interpolant(np.full((nq, nr), float(case['value'])), phis)
                f = f0.copy()
                with_timeout(60, lambda: adv.step(f, dt, phis, v))
                mask = None if case['value'] == 0.0 else interior
                ck.close('%s: constant potential %g, dt=%g: f unchanged%s' % (tag, case['value'], dt, '' if mask is None else ' (interior radial nodes)'),
                         f, f0, scale, rtol=1e-11, mask=mask)
            else:
                om = case['omega']
                interp.compute_interpolant(0.5 * om * r[None, :] ** 2 + case.get('value', 0.0) + 0 * theta[:, None], phis)
                f = f0.copy()
                with_timeout(60, lambda: adv.step(f, dt, phis, v))
                Cf = ref.fit(f0)
                ang = om * dt / B0
                Q, R = np.meshgrid(theta, r, indexing='ij')
                want = ref.sp.ev(Cf, np.mod(Q - ang, TWO_PI), R)
                ck.close('%s: rigid rotation omega=%g dt=%g B0=%g (angle %.6g)' % (tag, om, dt, B0, ang), f, want, scale, mask=interior)
                if case.get('cells') is not None:
                    kk = int(case['cells'][k])
                    ck.close('%s: rotation by %d whole theta cells is a circular shift' % (tag, kk), f, np.roll(f0, kk, axis=0), scale, mask=interior)
    return ck


def c12_order_case(case):
    """Explicit and implicit trapezoidal feet differ by O(dt^3): halving dt divides the difference of the results by about 8."""
    ck = Checks()
    rng = np.random.default_rng(case['dseed'])
    advE, ref, interp, mk, consts, eta, _ = c12_build(case, True)
    advI = c12_build(case, False)[0]
    r, theta = eta[0], eta[1]
    phin = c12_phi_nodal(case['phi'], theta, r, np.random.default_rng(case['dseed'] + 1))
    phis = mk()
    interp.compute_interpolant(phin, phis)
    Cphi = ref.fit(phin)
    Q, R = np.meshgrid(theta, r, indexing='ij')
    x = (R - r[0]) / (r[-1] - r[0])
    f0 = np.cos(Q + 0.3) * np.sin(np.pi * x + 0.2) + 0.5 * np.sin(2 * Q) * x
    E = []
    for dt in (case['dt'], 0.5 * case['dt']):
        fe, fi = f0.copy(), f0.copy()
        advE.step(fe, dt, phis, 0.0)
        with_timeout(120, lambda: advI.step(fi, dt, phis, 0.0))
        _, rfe, ok1 = ref.feet_explicit(Cphi, case['dt'])
        _, rfi, ok2, _ = ref.feet_implicit(Cphi, case['dt'])
        okm = ok1 & ok2 & ref.all_inside          # nodes whose predictor and feet stay inside the radial domain
        E.append(float(np.abs(fe - fi)[okm].max()))
        move = float(np.abs(fe - f0)[okm].max())
    ratio = E[0] / E[1] if E[1] > 0 else float('inf')
    ck.add('explicit vs implicit agree to third order (dt=%g and dt/2)' % case['dt'], E[1] > 1e-11 and 5.0 <= ratio <= 13.0 and E[0] < 0.05 * max(move, 1e-300) + 1e-3,
           'max difference %.3e at dt, %.3e at dt/2: ratio %.2f (third order: about 8); last change of f %.3e' % (E[0], E[1], ratio, move))
    return ck


def c12_grid_case(case):
    """Grid-level step: every (v,z) plane uses the potential spline of ITS z plane; the splines persist for gridStep_SplinesUnchanged."""
    from mpi4py import MPI
    ck = Checks()
    ath, ar, bth, br = c12_axes(case)
    nprocs = list(case['nprocs'])
    P = int(np.prod(nprocs))
    nz, vgrid = case['nz'], np.array(case['vgrid'], float)
    nv = len(vgrid)

    def data(nq, nr, theta, r):
        rng = np.random.default_rng(case['dseed'])
        F = rng.normal(size=(nv, nz, nq, nr))
        PH = np.array([c12_phi_nodal(case['phi'], theta, r, np.random.default_rng(case['dseed'] + 5 * j)) for j in range(nz)])
        return F, PH + 1j * rng.normal(size=PH.shape)

    def job(rank):
        from pygyro.model.layout import getLayoutHandler, LayoutSwapper
        from pygyro.model.grid import Grid
        comm = MPI.COMM_WORLD
        adv, ref, interp, mk, consts, eta, (basis_t, basis_r) = c12_build(case, case['explicit'], nz=nz)
        r, theta = eta[0], eta[1]
        h = getLayoutHandler(comm, {'poloidal': [3, 2, 1, 0]}, nprocs, eta)
        sw = LayoutSwapper(comm, [{'v_parallel_2d': [0, 2, 1], 'mode_solve': [1, 2, 0]}, {'v_parallel_1d': [0, 2, 1]}, {'poloidal': [2, 1, 0]}],
                           [nprocs, nprocs[0], nprocs[1]], eta[:3], 'poloidal')
        g = Grid(eta, [basis_r, basis_t, None, None], h, 'poloidal', comm)
        phi = Grid(eta[:3], [basis_r, basis_t, None], sw, 'poloidal', comm, dtype=np.complex128)
        F, PH = data(len(theta), len(r), theta, r)
        L, Lp = h.getLayout('poloidal'), sw.getLayout('poloidal')
        g.getAllData()[:] = F[tuple(slice(s, e) for s, e in zip(L.starts, L.ends))]
        phi.getAllData()[:] = PH[tuple(slice(s, e) for s, e in zip(Lp.starts, Lp.ends))]
        adv.gridStep(g, phi, case['dt'])
        first = g.getAllData().copy()
        phi.getAllData()[:] = 0.0           # the stored splines, not the grid, must be used from here on
        adv.gridStep_SplinesUnchanged(g, case['dt2'])
        return [int(x) for x in L.starts], [int(x) for x in Lp.starts], first, g.getAllData().copy(), theta, r, feq_consts(consts), float(consts.B0)

    res, _ = MPI.run_job(P, job, timeout=30)
    theta, r, K, B0 = res[0][4], res[0][5], res[0][6], res[0][7]
    F, PH = data(len(theta), len(r), theta, r)
    ref = C12Ref(bth, ath['p'], br, ar['p'], theta, r, B0)
    Cphi = [ref.fit(PH[j].real) for j in range(nz)]
    for rank, (st, stp, first, second, _, _, _, _) in enumerate(res):
        ck.add('rank %d: phi block and f block cover the same z planes' % rank, st[1] == stp[0], 'f starts at z=%d, phi at z=%d' % (st[1], stp[0]))
        for name, dt, src, got in (('gridStep', case['dt'], None, first), ('gridStep_SplinesUnchanged', case['dt2'], first, second)):
            want = np.empty_like(got)
            mask = np.empty(got.shape, bool)
            for i in range(got.shape[0]):
                for j in range(got.shape[1]):
                    f_in = F[st[0] + i, st[1] + j] if src is None else src[i, j]
                    Cf = ref.fit(f_in)
                    if case['explicit']:
                        qf, rf, okm = ref.feet_explicit(Cphi[st[1] + j], dt)
                    else:
                        qf, rf, okm, _ = ref.feet_implicit(Cphi[st[1] + j], dt)
                    want[i, j] = ref.values(Cf, qf, rf, vgrid[st[0] + i], case['nul'], K)
                    mask[i, j] = okm
            ck.close('rank %d (block starts v=%d z=%d): %s' % (rank, st[0], st[1], name), got, want,
                     1.0 + np.abs(F).max() + (0 if case['explicit'] else 3e-10 * 100 / RTOL), mask=mask)
    return ck


def c12_scale_dt(case_base, spec, seed_off, target_cells=None, frac=None):
    """Choose dt for a potential description: a displacement of `target_cells` cells, or |dt|/2*||J_D|| = frac/2 (contraction)."""
    ath, ar, bth, br = c12_axes(case_base)
    bt = Sp1(bth, ath['p'], True)
    brr = Sp1(br, ar['p'], False)
    # Greville points computed from the knots (the grid the real basis will use)
    theta = c12_greville(bt)
    r = c12_greville(brr)
    B0 = float(case_base.get('consts', {}).get('B0', 1.0))
    ref = C12Ref(bth, ath['p'], br, ar['p'], theta, r, B0)
    phin = c12_phi_nodal(spec, theta, r, np.random.default_rng(case_base['dseed'] + seed_off))
    Cphi = ref.fit(phin)
    Dq, Dr = ref.drift(Cphi, ref.Q, ref.R)
    hq, hr = TWO_PI / len(theta), (r[-1] - r[0]) / (len(r) - 1)
    speed = max(float(np.abs(Dq).max() / hq), float(np.abs(Dr).max() / hr), 1e-300)
    J = max(ref.jac_bound(Cphi), 1e-300)
    if target_cells is not None:
        return target_cells / speed, J
    return min(frac / J, 4.0 / speed), J          # also at most 4 cells, so that a nearly rigid flow does not give an absurd dt


def c12_reference_cycles(case_base, spec, dt):
    """True if the reference fixed-point iteration provably stalls: over 1500 sweeps the largest change per sweep stops
    decreasing and stays above 1e-4 (a limit cycle), so no stopping tolerance near 1e-10 can ever be met."""
    ath, ar, bth, br = c12_axes(case_base)
    theta, r = c12_greville(Sp1(bth, ath['p'], True)), c12_greville(Sp1(br, ar['p'], False))
    ref = C12Ref(bth, ath['p'], br, ar['p'], theta, r, float(case_base.get('consts', {}).get('B0', 1.0)))
    Cphi = ref.fit(c12_phi_nodal(spec, theta, r, np.random.default_rng(case_base['dseed'])))
    if ref.feet_implicit(Cphi, dt, maxit=300)[3] < 300:
        return False
    h = []
    ref.feet_implicit(Cphi, dt, maxit=1500, hist=h)
    a, b = min(h[500:1000]), min(h[1000:1500])
    return b > 1e-4 and b >= 0.99 * a


def c12_greville(s):
    p, T = s.p, s.T
    if s.per:
        off = 1 + p // 2
        x = np.array([T[i:i + p].sum() / p for i in range(off, off + s.nb)])
        return np.round(s.lo + np.mod(np.round(x, 15) - s.lo, s.hi - s.lo), 15)
    return np.round(np.array([T[i:i + p].sum() / p for i in range(1, 1 + s.nb)]), 15)


def c12_gen(tier, rng):
    quick = tier == 'quick'
    cases = []
    tops = [dict(n=8, p=3, uniform=True), dict(n=9, p=3, uniform=False, jitter=1.0), dict(n=10, p=5, uniform=False, jitter=0.0),
            dict(n=8, p=2, uniform=False, jitter=1.0), dict(n=12, p=3, uniform=True), dict(n=9, p=4, uniform=False, jitter=1.0)]
    rops = [dict(n=9, p=3), dict(n=10, p=3, jitter=1.0), dict(n=11, p=5), dict(n=8, p=2, jitter=1.0), dict(n=12, p=3), dict(n=10, p=4, jitter=1.0)]
    doms = [(0.1, 14.5), (1.0, 5.0), (2.0, 3.0)]

    def base(k):
        a, b = dict(tops[k % len(tops)]), dict(rops[k % len(rops)])
        a['jseed'] = int(rng.integers(0, 10 ** 6))
        b['jseed'] = int(rng.integers(0, 10 ** 6))
        b['uniform'] = a['uniform']
        lo, hi = doms[(k // 2) % len(doms)]
        consts = dict(B0=float([1.0, 2.0, 0.5][k % 3]))
        if k % 2:
            consts.update(CN0=float(rng.uniform(0.05, 0.3)), kN0=float(rng.uniform(0.02, 0.1)), deltaRN0=float(rng.uniform(1.5, 4.0)),
                          rp=float(rng.uniform(lo, hi)), CTi=float(rng.uniform(0.7, 1.5)), kTi=float(rng.uniform(0.1, 0.4)),
                          deltaRTi=float(rng.uniform(1.0, 2.0)))
        return dict(theta=a, rax=b, rmin=lo, rmax=hi, consts=consts, dseed=int(rng.integers(0, 2 ** 30)))

    # general tracing, explicit: displacements from sub-cell to several cells (feet leave the domain for the larger ones)
    ntr = 16 if quick else 150
    for k in range(ntr):
        c = base(k)
        steps = []
        for s in range(2):
            spec = dict(nmodes=3, amp=1.0, mmax=3, noise=[0.0, 0.05][k % 2], omega=float([0.0, 0.3, -0.2][k % 3]))
            dt, _ = c12_scale_dt(c, spec, 17 * s, target_cells=[0.3, 1.4, 3.2, 0.8][(k + s) % 4])
            steps.append([float(dt * (-1) ** (k + s)), float(rng.uniform(-3, 3)), spec])
        c.update(kind='trace', nul=bool(k % 2), schemes=[True], steps=steps, fkind=['random', 'smooth', 'maxwell'][k % 3])
        cases.append(c)
    # general tracing, implicit (contractive regime |dt|/2 ||J_D|| <= 0.5), with and without feet leaving the domain
    nim = 10 if quick else 90
    for k in range(nim):
        c = base(k + 1)
        steps = []
        for s in range(2):
            spec = dict(nmodes=3, amp=1.0, mmax=2, noise=0.0, omega=float([0.0, 0.5, -0.4][k % 3]))
            dt, _ = c12_scale_dt(c, spec, 17 * s, frac=[0.2, 0.6, 1.0][(k + s) % 3])
            steps.append([float(dt * (-1) ** (k + s)), float(rng.uniform(-3, 3)), spec])
        c.update(kind='trace', nul=bool(k % 2), schemes=[False], steps=steps, fkind=['random', 'smooth'][k % 2],
                 tol=[None, 1e-12, 1e-8][k % 3], limit=60)
        cases.append(c)
    # exact solutions
    nex = 6 if quick else 36
    for k in range(nex):
        c = base(k)
        c.update(kind='exact', what='const', value=float([0.0, 1.5, -7.0][k % 3]), nul=bool(k % 2), schemes=[True, False],
                 runs=[[float(rng.uniform(0.1, 3.0) * (-1) ** k), float(rng.uniform(-2, 2))], [0.0, 1.0]])
        cases.append(c)
        c = base(k)
        om = float(rng.uniform(0.2, 2.0) * (-1) ** (k // 2))
        runs = [[float(rng.uniform(0.05, 4.0) * (-1) ** k), float(rng.uniform(-2, 2))], [float(rng.uniform(5.0, 20.0)), 0.0]]
        cells = None
        if c['theta'].get('uniform') or not c['theta'].get('jitter'):
            cells = [int(rng.integers(1, 5)) * (-1) ** k, int(c['theta']['n'] + 2)]
            runs = [[float(kk * (TWO_PI / c['theta']['n']) * c['consts']['B0'] / om), 0.5] for kk in cells]
        c.update(kind='exact', what='rot', omega=om, value=float(k % 2) * 3.0, nul=bool(k % 2), schemes=[True, False], runs=runs, cells=cells)
        cases.append(c)
    # explicit vs implicit: third order
    for k in range(3 if quick else 16):
        c = base(2 * k)      # even k: keeps degree >= 3 bases
        c['theta'] = dict(n=12, p=[3, 3, 5, 4][k % 4], uniform=(k % 2 == 0), jitter=0.0, jseed=0)
        c['rax'] = dict(n=12, p=[3, 3, 5, 4][k % 4], uniform=(k % 2 == 0), jitter=0.0, jseed=0)
        spec = dict(nmodes=2, amp=1.0, mmin=1, mmax=2, noise=0.0, omega=0.3)
        c['rmin'], c['rmax'] = [(1.0, 5.0), (2.0, 3.0), (0.5, 6.0)][k % 3]
        dt, _ = c12_scale_dt(c, spec, 1, frac=0.3)
        c.update(kind='order', nul=True, phi=spec, dt=float(dt * (-1) ** k), tol=1e-13)
        cases.append(c)
    # grid-level
    grids = [(1, 1), (1, 2), (2, 2)] if quick else [(1, 1), (2, 1), (1, 2), (2, 2), (1, 3), (3, 2)]
    for k, pg in enumerate(grids):
        c = base(k)
        c['theta'] = dict(n=7, p=3, uniform=k % 2 == 0, jitter=1.0, jseed=k)
        c['rax'] = dict(n=7, p=3, uniform=k % 2 == 0, jitter=1.0, jseed=k)
        spec = dict(nmodes=2, amp=1.0, mmax=2, noise=0.0, omega=0.2)
        nzp = max(pg[1], 2) + 1
        dt = min(c12_scale_dt(c, spec, 5 * j, frac=0.5)[0] for j in range(nzp))      # contractive on every z plane
        c.update(kind='grid', nul=bool(k % 2), explicit=bool((k + 1) % 2), phi=spec, dt=float(dt), dt2=float(-0.7 * dt), nz=nzp,
                 vgrid=np.linspace(-2.0, 2.0, max(pg[0], 2) + 1).tolist(), nprocs=list(pg))
        cases.append(c)
    # implicit scheme outside the contractive regime (|dt|/2 ||J_D|| about 2): the statement still promises termination.
    # Only potentials for which the reference fixed-point iteration itself fails to converge are kept.
    cases.append(dict(kind='trace', stiff=True, theta=dict(n=10, p=5, uniform=False, jitter=0.0, jseed=162800),
                      rax=dict(n=11, p=5, jseed=981721, uniform=False), rmin=2.0, rmax=3.0, consts=dict(B0=0.5), dseed=791418152, nul=True,
                      schemes=[False], steps=[[0.6756014114350134, 0.0, dict(nmodes=2, amp=1.0, mmin=1, mmax=2, noise=0.0, omega=0.2)]],
                      fkind='smooth', tol=None, limit=8))
    want, tries = (0 if quick else 2), 0
    while want and tries < 15:
        tries += 1
        c = base(2 * tries)
        c['rmin'], c['rmax'] = 2.0, 3.0
        spec = dict(nmodes=2, amp=1.0, mmin=1, mmax=2, noise=0.0, omega=0.2)
        dt, J = c12_scale_dt(c, spec, 0, frac=1.0)
        dt = 4.5 / J
        if dt > 8.0 * c12_scale_dt(c, spec, 0, target_cells=1.0)[0] or not c12_reference_cycles(c, spec, dt):
            continue                      # keep moderate displacements (at most 8 cells) for which the reference iteration cycles
        c.update(kind='trace', stiff=True, nul=True, schemes=[False], steps=[[float(dt), 0.0, spec]], fkind='smooth', tol=None, limit=8)
        cases.append(c)
        want -= 1
    return cases


def c12_dispatch(case):
    return {'trace': c12_trace_case, 'exact': c12_exact_case, 'order': c12_order_case, 'grid': c12_grid_case}[case['kind']](case)


# =============================================================================================
# C13  parallel gradient
# =============================================================================================

def c13_stencils(order):
    """Stencils of order+1 points admissible for the statement: centred for even order; for odd order the statement
    does not fix the side of the extra point, both one-sided-by-one stencils are accepted."""
    m = order // 2
    if order % 2 == 0:
        return [list(range(-m, m + 1))]
    return [list(range(-m, m + 2)), list(range(-m - 1, m + 1))]


def c13_ref(phi, theta, sp, dz, iota, R0, r, shifts):
    """phi[z,theta] -> b_z(r)/dz * sum_k c_k S_{(z+k) mod nz}((theta + iota*dz*k/R0) mod 2pi)."""
    bz = 1.0 / math.sqrt(1.0 + (r * iota / R0) ** 2)
    c = fd_coeffs(shifts)
    C = sp.fit(theta, phi.T)                    # (nb, nz)
    out = np.zeros_like(phi)
    for ck_, k in zip(c, shifts):
        th = np.mod(theta + iota * dz * k / R0, TWO_PI)
        vals = sp.basis(th) @ C                 # [j, z]
        out += ck_ * np.roll(vals, -k, axis=1).T
    return out * (bz / dz), float(np.abs(c).sum() * bz / dz)


def c13_build(case):
    from pygyro.model.layout import Layout
    from pygyro.advection.advection import ParallelGradient
    th = case['theta']
    bth = axis_breaks(th, 0.0, TWO_PI, True)
    basis_t = real_basis(bth, th['p'], True, th.get('uniform', False))
    theta = np.array(basis_t.greville, float)
    nz = case['nz']
    z = case['z0'] + case['Lz'] * np.arange(nz) / nz
    eta = [np.array(case['r'], float), theta, z, np.array(case.get('v', [0.0, 1.0]), float)]
    consts = make_constants(dict(iotaVal=case['iota'], R0=case['R0']))
    if case.get('layout4'):
        layout = Layout('v_parallel', list(case['nprocs']), [0, 2, 1, 3], eta, list(case['rank']))
    else:
        layout = Layout('v_parallel_1d', list(case['nprocs']), [0, 2, 1], eta[:3], list(case['rank']))
    pg = ParallelGradient(basis_t, eta, layout, consts, case['order']) if case.get('order') is not None \
        else ParallelGradient(basis_t, eta, layout, consts)
    return pg, Sp1(bth, th['p'], True), eta, layout


def c13_want(ck, name, got, phi, theta, sp, dz, case, r, scale_phi):
    """Compare with the reference on every admissible stencil."""
    order = case['order'] if case.get('order') is not None else 6
    best = None
    for st in c13_stencils(order):
        want, amp = c13_ref(phi, theta, sp, dz, case['iota'], case['R0'], r, st)
        d = float(np.abs(got - want).max()) if np.isfinite(got).all() else float('inf')
        if best is None or d < best[0]:
            best = (d, want, amp, st)
    ck.close(name + ' [stencil %s]' % (best[3],), got, best[1], best[2] * scale_phi)
    return best[1], best[2]


def c13_case(case):
    ck = Checks()
    rng = np.random.default_rng(case['dseed'])
    pg, sp, eta, layout = c13_build(case)
    r_all, theta, z, _ = eta
    nq, nz = len(theta), len(z)
    dz = case['Lz'] / nz
    r_loc = r_all[layout.starts[0]:layout.ends[0]]
    phis = [field('random', rng, (nz, nq)), field('smooth', rng, (nz, nq))]
    der = np.full((nz, nq), np.nan)
    keep = {}
    for i in [int(k) for k in rng.permutation(len(r_loc))]:
        for n, phi in enumerate(phis):
            der[:] = np.nan
            out = pg.parallel_gradient(phi.copy(), i, der)
            ck.add('result is written into the given array', out is der or np.array_equal(out, der), 'returned array differs from `der`')
            sc = 1.0 + np.abs(phi).max()
            _, amp = c13_want(ck, 'parallel_gradient(local i=%d -> r=%g, field %d)' % (i, r_loc[i], n), der, phi, theta, sp, dz, case, r_loc[i], sc)
            keep[(i, n)] = (der.copy(), amp * sc)
    i = int(rng.integers(0, len(r_loc)))
    a, b = rng.normal(), rng.normal()
    d3 = np.empty((nz, nq))
    pg.parallel_gradient(a * phis[0] + b * phis[1], i, d3)
    ck.close('linearity (i=%d)' % i, d3, a * keep[(i, 0)][0] + b * keep[(i, 1)][0], (abs(a) + abs(b)) * keep[(i, 0)][1], rtol=1e-11)
    cval = 1.0 + rng.uniform()
    pg.parallel_gradient(np.full((nz, nq), cval), i, d3)
    ck.close('zero for a constant (i=%d)' % i, d3, np.zeros((nz, nq)), cval * keep[(i, 0)][1], rtol=1e-11)
    sh = int(rng.integers(1, nz))
    pg.parallel_gradient(np.roll(phis[0], sh, axis=0).copy(), i, d3)
    ck.close('commutes with a z shift of %d cells (i=%d)' % (sh, i), d3, np.roll(keep[(i, 0)][0], sh, axis=0), keep[(i, 0)][1], rtol=1e-11)
    # a second gradient object of another order on the same spline basis, calls interleaved
    o1 = case['order'] if case.get('order') is not None else 6
    o2 = 2 if o1 != 2 else 4
    if nz > o2:
        from pygyro.advection.advection import ParallelGradient
        pg2 = ParallelGradient(pg._thetaSpline.basis, eta, layout, make_constants(dict(iotaVal=case['iota'], R0=case['R0'])), o2)
        pg2.parallel_gradient(phis[1].copy(), i, d3)
        c13_want(ck, 'second object of order %d on the same basis (i=%d)' % (o2, i), d3, phis[1], theta, sp, dz, dict(case, order=o2),
                 r_loc[i], 1.0 + np.abs(phis[1]).max())
        pg.parallel_gradient(phis[0].copy(), i, d3)
        ck.close('first object unchanged after using the second one', d3, keep[(i, 0)][0], keep[(i, 0)][1], rtol=1e-13)
    return ck


def c13_aligned_case(case):
    """Functions constant along field lines: phi = g(theta - iota*z/R0).  With commensurate steps (iota*dz/R0 a whole number of
    theta cells) all spline evaluations fall on nodes and the gradient vanishes to rounding; otherwise it is bounded by the
    theta-interpolation error of the spline (computed here from the reference spline)."""
    ck = Checks()
    pg, sp, eta, layout = c13_build(case)
    r_all, theta, z, _ = eta
    nq, nz = len(theta), len(z)
    dz = case['Lz'] / nz
    m, iota, R0 = case['m'], case['iota'], case['R0']
    g = lambda x: np.cos(m * x + 0.3) + 0.5 * np.sin(2 * m * x)
    phi = g(theta[None, :] - iota * (z[:, None] - case['z0']) / R0)
    order = case['order']
    c = fd_coeffs(c13_stencils(order)[0])
    # interpolation error of the theta-splines of the rows of phi, sampled finely
    xs = np.linspace(0, TWO_PI, 40 * nq, endpoint=False)
    C = sp.fit(theta, phi.T)
    E = float(np.abs(sp.basis(xs) @ C - g(xs[:, None] - iota * (z[None, :] - case['z0']) / R0)).max())
    der = np.empty((nz, nq))
    for i in range(layout.ends[0] - layout.starts[0]):
        r = r_all[layout.starts[0] + i]
        bz = 1.0 / math.sqrt(1.0 + (r * iota / R0) ** 2)
        amp = np.abs(c).sum() * bz / dz * 1.05        # both odd stencils have the same sum |c_k|
        pg.parallel_gradient(phi.copy(), i, der)
        bound = amp * (E if not case['commensurate'] else 0.0) + 1e-11 * amp * 2.0
        ck.add('gradient of a field-aligned function (i=%d, commensurate=%s)' % (i, case['commensurate']),
               bool(np.isfinite(der).all() and np.abs(der).max() <= bound),
               'max |grad| = %.3e exceeds %.3e (= sum|c_k| b_z/dz x theta-interpolation error %.3e + rounding)' % (np.abs(der).max(), bound, E))
        c13_want(ck, 'parallel_gradient vs reference (aligned field, i=%d)' % i, der, phi, theta, sp, dz, case, r, 2.0)
    return ck


def c13_conv_case(case):
    """Observed order under z refinement.  The potential does not depend on theta (spline evaluations are then exact), so the only
    error is the finite-difference truncation:  b_z * A'(z)  is the exact parallel derivative."""
    ck = Checks()
    errs = []
    k = TWO_PI * case['mode'] / case['Lz']
    for nz in (case['nz'], 2 * case['nz']):
        sub = dict(case, nz=nz)
        pg, sp, eta, layout = c13_build(sub)
        r_all, theta, z, _ = eta
        nq = len(theta)
        if case.get('theta_dep'):
            # iota = 0: no theta shift, nodal values are reproduced exactly by the interpolant
            phi = np.sin(k * z[:, None] + 0.4) * (1.0 + 0.5 * np.cos(theta[None, :]))
            exact = lambda bz: bz * k * np.cos(k * z[:, None] + 0.4) * (1.0 + 0.5 * np.cos(theta[None, :]))
        else:
            phi = np.sin(k * z[:, None] + 0.4) * np.ones((1, nq))
            exact = lambda bz: bz * k * np.cos(k * z[:, None] + 0.4) * np.ones((1, nq))
        der = np.empty((nz, nq))
        i = case['i']
        r = r_all[layout.starts[0] + i]
        bz = 1.0 / math.sqrt(1.0 + (r * case['iota'] / case['R0']) ** 2)
        pg.parallel_gradient(phi, i, der)
        errs.append(float(np.abs(der - exact(bz)).max() / (bz * k)))
    obs = math.log2(errs[0] / errs[1]) if errs[1] > 0 and errs[0] > 0 else float('inf')
    ck.add('observed convergence order (order %d, nz %d -> %d)' % (case['order'], case['nz'], 2 * case['nz']),
           errs[0] < 0.2 and obs >= case['order'] - 0.35 and errs[1] > 1e-13,
           'relative errors %.3e -> %.3e, observed order %.2f, expected about %d' % (errs[0], errs[1], obs, case['order']))
    return ck


def c13_gen(tier, rng):
    quick = tier == 'quick'
    cases = []
    tops = [dict(n=8, p=3, uniform=True), dict(n=9, p=3, uniform=False, jitter=1.0), dict(n=10, p=5, uniform=False, jitter=0.0),
            dict(n=7, p=2, uniform=False, jitter=1.0), dict(n=8, p=4, uniform=False, jitter=1.0), dict(n=6, p=1, uniform=False),
            dict(n=12, p=3, uniform=True)]
    lay = [([1], [0]), ([2], [0]), ([2], [1]), ([3], [1]), ([3], [2]), ([4], [3]), ([2, 2], [1, 0]), ([3, 2], [2, 1])]
    reps = 6 if quick else 40
    k = 0
    for rep in range(reps):
        for order in (2, 3, 4, 5, 6, None):
            o = 6 if order is None else order
            nz = int(o + 1 + rng.integers(0, 3)) if (k % 2 == 0) else int(rng.integers(o + 1, 17))
            R0 = float([1.7, 5.0, 12.0, 239.8081535][int(rng.integers(0, 4))])
            nprocs, rank = lay[(k + rep) % len(lay)]
            nr = int(max(nprocs[0] + 1, rng.integers(3, 8)))
            a = dict(tops[k % len(tops)])
            a['jseed'] = int(rng.integers(0, 10 ** 6))
            cases.append(dict(kind='formula', theta=a, nz=nz, z0=float([0.0, -2.5][k % 2]), Lz=float(TWO_PI * R0 if k % 3 else rng.uniform(3., 30.)),
                              R0=R0, iota=float([0.8, 0.0, -1.3, 2.0][k % 4]), r=np.sort(rng.uniform(0.1, 14.5, nr)).tolist(),
                              order=order, nprocs=list(nprocs), rank=list(rank), layout4=len(nprocs) == 2, dseed=int(rng.integers(0, 2 ** 31))))
            k += 1
    for k in range(10 if quick else 40):
        order = 2 + k % 5
        comm = k % 2 == 0
        nq = [8, 12, 16][k % 3]
        R0 = float([2.0, 7.0][k % 2])
        if comm:
            # iota*dz/R0 = q * dtheta with Lz = 2 pi R0  <=>  iota = q*nz/nq ;  m*iota integer keeps phi periodic in z
            nz = nq
            iota, m = float([1.0, -1.0, 2.0][k % 3]), 1 + k % 2
        else:
            nz = int(order + 2 + k % 4)
            iota, m = float([1.0, -2.0][k % 2]), 1
        cases.append(dict(kind='aligned', theta=dict(n=nq, p=[3, 3, 5, 4][k % 4], uniform=(k % 4 == 0)), nz=nz, z0=0.0, Lz=float(TWO_PI * R0), R0=R0,
                          iota=iota, m=m, r=[0.3, 2.0, 9.0], order=order, nprocs=[1], rank=[0], commensurate=comm, dseed=0))
    for order in (2, 3, 4, 5, 6):
        for var in range(1 if quick else 3):
            tdep = var == 1
            cases.append(dict(kind='conv', theta=dict(n=6, p=3, uniform=var != 2, jitter=1.0, jseed=5), nz=[16, 16, 14, 14, 14][order - 2] + 2 * var, z0=0.0,
                              Lz=float(TWO_PI * 3.0), R0=3.0, iota=0.0 if tdep else 0.9, r=[0.5, 4.0], i=1, mode=[2, 1, 2][var], order=order,
                              nprocs=[1], rank=[0], theta_dep=tdep, dseed=0))
    return cases


def c13_dispatch(case):
    return {'formula': c13_case, 'aligned': c13_aligned_case, 'conv': c13_conv_case}[case['kind']](case)


# =============================================================================================
# driver
# =============================================================================================

GEN = {'C10': c10_gen, 'C11': c11_gen, 'C12': c12_gen, 'C13': c13_gen}
DISPATCH = {'C10': c10_dispatch, 'C11': c11_dispatch, 'C12': c12_dispatch, 'C13': c13_dispatch}


def run_cases(prop, cases, out, repo, budget=None):
    t0 = time.time()
    for case in cases:
        if budget is not None and time.time() - t0 > budget:
            out.setdefault('notes', []).append('time budget reached after %d of %d cases' % (out['cases_run'], len(cases)))
            break
        try:
            ck = DISPATCH[prop](case)
        except Timeout:
            out['evaluated'] += 1
            if len(out['failures']) < 6:
                out['failures'].append(dict(case=case, detail='call did not return within the time limit'))
            continue
        except Exception as e:
            tb = traceback.format_exc()
            frames = traceback.extract_tb(e.__traceback__)
            in_repo = any(fr.filename.startswith(repo.rstrip('/') + '/') for fr in frames)
            hung = 'still running' in str(e)
            if in_repo or hung or ('rank' in str(e) and 'failed' in str(e)):
                # raised by the code under test on a legal input (or a rank that never returned): counts as a violation
                out['evaluated'] += 1
                if len(out['failures']) < 6:
                    out['failures'].append(dict(case=case, detail=('ranks did not return: ' if hung else 'exception in the code under test: ') + tb[-600:]))
                if hung:
                    out.setdefault('notes', []).append('run stopped: simulated ranks are still spinning in the background')
                    break
            else:
                out['errors'].append(tb[-1200:])
            continue
        out['cases_run'] += 1
        out['evaluated'] += ck.n
        out['ok'] += ck.n - len(ck.bad)
        if ck.bad and len(out['failures']) < 6:
            out['failures'].append(dict(case=case, detail=' | '.join(ck.bad[:3]) + (' | ... %d checks failed' % len(ck.bad) if len(ck.bad) > 3 else '')))
        if len(out['samples']) < 4 and (out['cases_run'] % 7 == 1):
            out['samples'].append(case)


def main():
    prop, tier, seed, repo = sys.argv[1], sys.argv[2], int(sys.argv[3]), sys.argv[4]
    _setup(repo)
    t0 = time.time()
    out = dict(evaluated=0, ok=0, failures=[], samples=[], errors=[], cases_run=0)
    try:
        if len(sys.argv) > 5:
            case = json.load(open(sys.argv[5]))
            case = case.get('case', case)
            run_cases(prop, [case], out, repo)
            out['samples'] = [case]
        else:
            rng = np.random.default_rng(seed)
            cases = GEN[prop](tier, rng)
            run_cases(prop, cases, out, repo, budget=50 if tier == 'quick' else 560)
    except Exception:
        out['errors'].append(traceback.format_exc()[-1500:])
    out['wall_s'] = round(time.time() - t0, 2)
    json.dump(out, sys.stdout, default=lambda o: o.tolist() if hasattr(o, 'tolist') else str(o))
    sys.stdout.flush()
    os._exit(0)          # simulated ranks that never returned must not keep the process alive


if __name__ == '__main__':
    main()
