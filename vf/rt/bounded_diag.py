"""Bounded stand-ins for C17 (diagnostics / global reductions) and C18 (checkpoints, constants files, restart).

python -m vf.rt.bounded_diag <C17|C18> <tier> <seed> <repo> [case.json]   -> ONE JSON object on stdout

The REAL classes of <repo> (Layout/LayoutHandler/LayoutSwapper/Grid, l2/l1/nParticles/KineticEnergy, DiagnosticCollector,
Grid.writeH5Dataset/loadFromFile, setupFromFile/setupCylindricalGrid, setupSave, get_constants, fullSimulation.main) run on the
thread-per-rank simulated MPI of vf/shim and are compared with oracles written here from the property statements:

C17  * serial quadrature of the GLOBAL field with numpy: trapezoid rule in r and v written as sum((y[i]+y[i+1])/2*dx) (not as
       a weight vector, so it shares no formula with the code), rectangle rule in theta and z; analytic volume
       (rmax^2-rmin^2)/2 * 2pi * Lz * (vmax-vmin) for f == 1;  global numpy min/max of (slices of) the global field;
     * a 5 line model of the collector: step k goes to slot k mod saveStep, slots never written stay 0.
     Tolerance for every quadrature comparison: |got-want| <= 1e-11 * Q(|integrand|)  (Q = the same quadrature of the absolute
     value).  Rounding only: <= 2000 terms, pairwise/np.sum accumulation gives < 1e-14 relative to Q(|integrand|); the smallest
     slip we care about (one misplaced weight on a non-uniform mesh) changes the result by > 1e-4.  min/max/time are compared
     exactly.  Numbers parsed back from getLine (11 significant digits printed) are compared with 1e-9 relative.
C18  * bit-for-bit comparison (bytes, so -0.0/nan/denormals count) of the blocks obtained after load with the blocks of the
       global array that was written, plus a look at the file itself with plain h5py;
     * "latest" = numerically largest time, decided by the harness from the list of times it wrote;
     * constants: own dependency-ordered evaluator of the json values (python semantics, math.pi), defaults table for absent
       keys, rp = (rMin+rMax)/2, CN0 by composite Gauss-Legendre (rtol 1e-7 against the code's scipy.quad, bit-identical
       between permutations); everything else compared with ==.
     * restart: the real fullSimulation.main() (mode 'real') or main() with the timing book-keeping statements INSIDE the time
       loop removed (mode 'slice': assignments whose right hand side calls time.time() or whose target starts with
       'average_'; nothing else is touched) is executed with patched sys.argv in a scratch directory for N+M steps, and for N
       steps followed by a restart for M more steps; the checkpoint files are compared byte-wise.

h5py stand-in (only installed while a C18 case runs, see `h5_mpio`):  the h5py of this environment has no MPI driver, so
`h5py.File(name, 'w', driver='mpio', comm=comm)` raises.  `h5py.File` is replaced by `_file_factory`, which hands every call
without driver='mpio' to the real h5py.File and, for driver='mpio', returns a `_SharedFile`: the ranks of the simulated job
share ONE real on-disk h5py.File per path (first opener creates it, the others attach), `create_dataset` is idempotent (the
dataset is created by the first caller, later callers get the same dataset and the shape/dtype are checked to agree), item
assignment and attribute creation go through a per-file lock, `close` is reference counted (the real file is closed by the last
closer).  Open and close are collective (comm.Barrier()), as they are with the real mpio driver, so no rank can close and
truncate the file while another one still has to open it.  Nothing else of h5py is emulated.

Never counted as proved.  stdout is silenced while the repository code runs (the driver prints).
"""
import ast
import contextlib
import glob as _glob
import itertools
import json
import math
import os
import shutil
import sys
import tempfile
import threading
import time
import traceback
import warnings

import numpy as np

warnings.filterwarnings('ignore')
from .bounded_layout import _setup, local_block  # noqa: E402

TOL = 1e-11
LAYOUTS4 = {'flux_surface': [0, 3, 1, 2], 'v_parallel': [0, 2, 1, 3], 'poloidal': [3, 2, 1, 0]}
LAYOUTS3 = {'v_parallel_2d': [0, 2, 1], 'mode_solve': [1, 2, 0]}
GRIDS = [(1, 1), (2, 1), (1, 2), (2, 2), (3, 2), (4, 3)]
REPO = [None]


# =================================================================================================
# infrastructure
# =================================================================================================

class CUT(Exception):
    """The code under test raised (a property failure, not a harness problem)."""

    def __init__(self, msg, cls):
        super().__init__(msg)
        self.cls = cls


def _in_repo(fn):
    return REPO[0] is not None and os.path.abspath(fn).startswith(REPO[0] + os.sep)


def _describe(e, note):
    """(message, class) of an exception that passed through repository code, else None."""
    frames = [f for f in traceback.extract_tb(e.__traceback__) if _in_repo(f.filename)]
    if not frames:
        return None
    f = frames[-1]
    where = '%s:%d' % (os.path.relpath(f.filename, REPO[0]), f.lineno)
    msg = '%s raised %s: %s   [%s in %s: `%s`]' % (note or 'call', type(e).__name__, str(e)[:200], where, f.name, (f.line or '')[:120])
    return msg, 'raises %s at %s' % (type(e).__name__, where)


def guarded(fn, note=None):
    """Call fn(); exceptions that come out of repository code become CUT (with file:line and the noted operation)."""
    from mpi4py import MPI
    try:
        return fn()
    except CUT:
        raise
    except (MPI.DeadlockError, MPI.CollectiveMismatch):
        raise
    except (Exception, SystemExit) as e:
        if e is MPI._ctx()[0].failed:       # another rank failed first; this is only the echo
            raise
        d = _describe(e, note[0] if isinstance(note, list) else note)
        if d is None:
            if isinstance(e, SystemExit):
                raise RuntimeError('SystemExit(%r) outside repository code' % (e.code,))
            raise
        raise CUT(*d)


def run_ranks(P, job, timeout=60.0, seed=0, jitter=False):
    """job(rank, note): note is a one-element list the job fills with a description of the operation in progress."""
    from mpi4py import MPI

    def wrapped(rank):
        note = ['']
        return guarded(lambda: job(rank, note), note)

    res, _ = MPI.run_job(P, wrapped, timeout=timeout, seed=seed, jitter=jitter)
    return res


@contextlib.contextmanager
def scratch():
    d = tempfile.mkdtemp(prefix='vfdiag-', dir='/var/tmp')
    try:
        yield d
    finally:
        _h5_reset()
        shutil.rmtree(d, ignore_errors=True)


def same_bits(a, b):
    a, b = np.ascontiguousarray(a), np.ascontiguousarray(b)
    return a.shape == b.shape and a.dtype == b.dtype and a.tobytes() == b.tobytes()


# ---------------------------------------------------------------------------------------------
# h5py 'mpio' stand-in
# ---------------------------------------------------------------------------------------------

_h5_registry = {}
_h5_reg_lock = threading.RLock()
_h5_real = [None]


class _SharedAttrs:
    def __init__(self, attrs, lock):
        self._a, self._lock = attrs, lock

    def create(self, *a, **k):
        with self._lock:
            return self._a.create(*a, **k)

    def __getitem__(self, k):
        with self._lock:
            return self._a[k]

    def __setitem__(self, k, v):
        with self._lock:
            self._a[k] = v


class _SharedDataset:
    def __init__(self, ds, lock):
        self._ds, self._lock = ds, lock

    def __setitem__(self, k, v):
        with self._lock:
            self._ds[k] = v

    def __getitem__(self, k):
        with self._lock:
            return self._ds[k]

    @property
    def attrs(self):
        return _SharedAttrs(self._ds.attrs, self._lock)

    def __getattr__(self, n):
        return getattr(self._ds, n)


class _SharedFile:
    def __init__(self, name, mode, comm):
        self._key = os.path.abspath(name)
        self._comm = comm
        comm.Barrier()                      # collective open
        with _h5_reg_lock:
            ent = _h5_registry.get(self._key)
            if ent is None:
                ent = _h5_registry[self._key] = dict(file=_h5_real[0](name, mode), n=0, lock=threading.RLock())
            ent['n'] += 1
        self._ent = ent
        self._open = True

    def create_dataset(self, name, shape=None, dtype=None, **kw):
        with self._ent['lock']:
            f = self._ent['file']
            if name in f:
                ds = f[name]
                if tuple(ds.shape) != tuple(shape) or (dtype is not None and ds.dtype != np.dtype(dtype)):
                    raise ValueError('ranks disagree about dataset %s: %s %s vs %s %s' % (name, ds.shape, ds.dtype, tuple(shape), dtype))
            else:
                ds = f.create_dataset(name, shape, dtype=dtype, **kw)
        return _SharedDataset(ds, self._ent['lock'])

    def __getitem__(self, name):
        with self._ent['lock']:
            return _SharedDataset(self._ent['file'][name], self._ent['lock'])

    def close(self):
        if not self._open:
            return
        self._open = False
        self._comm.Barrier()                # collective close
        with _h5_reg_lock:
            self._ent['n'] -= 1
            if self._ent['n'] == 0:
                self._ent['file'].close()
                _h5_registry.pop(self._key, None)


def _file_factory(name, mode='r', driver=None, comm=None, **kw):
    if driver == 'mpio':
        return _SharedFile(name, mode, comm)
    if driver is not None:
        kw['driver'] = driver
    return _h5_real[0](name, mode, **kw)


def _h5_reset():
    with _h5_reg_lock:
        for ent in list(_h5_registry.values()):
            try:
                ent['file'].close()
            except Exception:
                pass
        _h5_registry.clear()


@contextlib.contextmanager
def h5_mpio():
    import h5py
    if _h5_real[0] is None:
        _h5_real[0] = h5py.File
    h5py.File = _file_factory
    try:
        yield
    finally:
        h5py.File = _h5_real[0]
        _h5_reset()


# =================================================================================================
# C17
# =================================================================================================

def make_eta(npts, seed):
    """Non-uniform r (>0) and v meshes, uniform periodic theta (over 2 pi, shifted) and z meshes."""
    rng = np.random.default_rng([int(seed), 101])
    nr, nq, nz = npts[:3]
    r = rng.uniform(0.05, 2.0) + np.concatenate([[0.0], np.cumsum(rng.uniform(0.2, 1.8, nr - 1))])
    dq = 2 * np.pi / nq
    q = rng.uniform(0, 0.9) * dq + dq * np.arange(nq)
    Lz = rng.uniform(3.0, 60.0)
    dz = Lz / nz
    z = rng.uniform(-2, 2) + dz * np.arange(nz)
    eta = [r, q, z]
    if len(npts) == 4:
        nv = npts[3]
        v = -rng.uniform(2.0, 6.0) + np.concatenate([[0.0], np.cumsum(rng.uniform(0.3, 2.1, nv - 1))])
        eta.append(v)
    return eta, dict(dq=dq, dz=dz, Lz=Lz)


def make_field(npts, seed, dtype, kind, k=0):
    rng = np.random.default_rng([int(seed), 202, len(npts)])
    if kind == 'one':
        G = np.ones(npts)
    else:
        G = rng.standard_normal(npts) + 0.3
    if dtype == 'complex':
        G = G + 1j * (rng.standard_normal(npts) if kind != 'one' else 0.0)
    if k:
        G = G * (1 + 0.25 * k) + 0.1 * k
    return G


def trapz(y, x, axis):
    y = np.moveaxis(y, axis, 0)
    return np.tensordot(np.diff(x), 0.5 * (y[1:] + y[:-1]), axes=(0, 0))


def quad(W, eta, mesh):
    """Quadrature of W(r,theta,z[,v]) r dr dtheta dz [dv]: trapezoid in v and r, rectangle in theta and z."""
    if W.ndim == 4:
        W = trapz(W, eta[3], 3)
    W = W.sum(axis=2) * mesh['dz']
    W = W.sum(axis=1) * mesh['dq']
    return float(trapz(W * eta[0], eta[0], 0))


def integrands(G, eta):
    re = np.real(G)
    out = {'l2': np.real(G * np.conj(G))}
    if G.ndim == 4 and not np.iscomplexobj(G):
        out['l1'] = np.abs(re)
        out['nParticles'] = re
        out['KE'] = 0.5 * re * eta[3][None, None, None, :] ** 2
    return out


def oracle_values(G, eta, mesh):
    return {k: (quad(W, eta, mesh), quad(np.abs(W), eta, mesh)) for k, W in integrands(G, eta).items()}


def analytic_one(eta, mesh):
    r = eta[0]
    vol = 0.5 * (r[-1] ** 2 - r[0] ** 2) * 2 * np.pi * mesh['Lz']
    if len(eta) == 3:
        return {'l2': vol}
    v = eta[3]
    return {'l2': vol * (v[-1] - v[0]), 'l1': vol * (v[-1] - v[0]), 'nParticles': vol * (v[-1] - v[0]),
            'KE': vol * 0.5 * float(trapz(v ** 2, v, 0))}


def local_diags(eta, L, g, real, note):
    from pygyro.diagnostics.norms import l2, l1, nParticles
    from pygyro.diagnostics.energy import KineticEnergy
    vals = {}
    note[0] = 'l2(eta_grid, layout %s).l2NormSquared' % L.name
    vals['l2'] = float(l2(eta, L).l2NormSquared(g))
    if real and len(eta) == 4:
        note[0] = 'l1(eta_grid, layout %s).l1Norm' % L.name
        vals['l1'] = float(l1(eta, L).l1Norm(g))
        note[0] = 'nParticles(eta_grid, layout %s).getN' % L.name
        vals['nParticles'] = float(nParticles(eta, L).getN(g))
        note[0] = 'KineticEnergy(eta_grid, layout %s).getKE' % L.name
        vals['KE'] = float(KineticEnergy(eta, L).getKE(g))
    return vals


def compare_sums(prefix, per_rank, oracle, checks, analytic=None, order_seed=0):
    """per_rank: list of dicts name->local value (one per distinct block)."""
    rng = np.random.default_rng(order_seed)
    for name, (want, scale) in oracle.items():
        locs = np.array([d[name] for d in per_rank])
        got = float(np.sum(locs[rng.permutation(len(locs))]))     # any reduction order
        ok = np.isfinite(got) and abs(got - want) <= TOL * scale
        checks.append(('%s %s' % (prefix, name), bool(ok),
                       'sum over ranks %.15e, serial quadrature of the global field %.15e (difference %.2e, allowed %.1e)'
                       % (got, want, abs(got - want), TOL * scale)))
        if analytic is not None and name in analytic:
            a = analytic[name]
            ok = abs(got - a) <= TOL * abs(a)
            checks.append(('%s %s analytic' % (prefix, name), bool(ok),
                           'f==1: sum over ranks %.15e, analytic volume factor %.15e' % (got, a)))


def c17_norms(case):
    """4-D: every standard layout (reached by setLayout from case['start']), all four diagnostics."""
    from mpi4py import MPI
    from pygyro.model.layout import getLayoutHandler
    from pygyro.model.grid import Grid
    p0, p1 = case['grid']
    npts = case['npts']
    eta, mesh = make_eta(npts, case['fseed'])
    G = make_field(npts, case['fseed'], case['dtype'], case['field'])
    real = case['dtype'] != 'complex'
    names = list(LAYOUTS4)
    i0 = names.index(case['start'])
    seq = names[i0:] + names[:i0] + [case['start']]

    def job(rank, note):
        comm = MPI.COMM_WORLD
        h = getLayoutHandler(comm, LAYOUTS4, [p0, p1], eta)
        g = Grid(eta, [None] * 4, h, case['start'], comm, dtype=G.dtype)
        g.getAllData()[:] = local_block(G, h.getLayout(case['start']))
        out = []
        for name in seq:
            if g.currentLayout != name:
                note[0] = 'Grid.setLayout(%s)' % name
                g.setLayout(name)
            out.append((name, local_diags(eta, h.getLayout(name), g, real, note)))
        return out

    res = run_ranks(p0 * p1, job, jitter=bool(case.get('jitter')), seed=case['fseed'])
    checks = []
    orc = oracle_values(G, eta, mesh)
    ana = analytic_one(eta, mesh) if case['field'] == 'one' else None
    for k, name in enumerate(seq):
        compare_sums('%s%s' % (name, ' (again)' if k == len(seq) - 1 else ''), [r[k][1] for r in res], orc, checks, ana, case['fseed'] + k)
    return checks


def build_phi_manager(via, comm, p0, p1, eta3):
    from pygyro.model.layout import getLayoutHandler, LayoutSwapper
    if via == 'swapper':        # exactly the driver's remapperPhi: the last two layouts are replicated along one process direction
        return LayoutSwapper(comm, [dict(LAYOUTS3), {'v_parallel_1d': [0, 2, 1]}, {'poloidal': [2, 1, 0]}],
                             [[p0, p1], p0, p1], eta3, 'mode_solve'), ['mode_solve', 'v_parallel_2d', 'v_parallel_1d', 'poloidal', 'mode_solve']
    return getLayoutHandler(comm, dict(LAYOUTS3), [p0, p1], eta3), ['mode_solve', 'v_parallel_2d', 'mode_solve']


def c17_norms3(case):
    """3-D l2 (the phi norm), also on the layouts that are replicated along one direction of the process grid."""
    from mpi4py import MPI
    from pygyro.model.grid import Grid
    p0, p1 = case['grid']
    npts = case['npts']
    eta, mesh = make_eta(npts, case['fseed'])
    G = make_field(npts, case['fseed'], case['dtype'], case['field'])

    def job(rank, note):
        comm = MPI.COMM_WORLD
        man, seq = build_phi_manager(case['via'], comm, p0, p1, eta)
        g = Grid(eta, [None] * 3, man, seq[0], comm, dtype=G.dtype)
        g.getAllData()[:] = local_block(G, man.getLayout(seq[0]))
        out = []
        for name in seq:
            if g.currentLayout != name:
                note[0] = 'Grid.setLayout(%s)' % name
                g.setLayout(name)
            L = man.getLayout(name)
            out.append((name, tuple(int(s) for s in L.starts), tuple(int(s) for s in L.shape), local_diags(eta, L, g, False, note)))
        return out

    P = p0 * p1
    res = run_ranks(P, job, jitter=bool(case.get('jitter')), seed=case['fseed'])
    checks = []
    orc = oracle_values(G, eta, mesh)
    ana = analytic_one(eta, mesh) if case['field'] == 'one' else None
    for k, name in enumerate(res[0][k2][0] for k2 in range(len(res[0]))):
        blocks = {}
        for r in range(P):
            blocks.setdefault((res[r][k][1], res[r][k][2]), []).append(res[r][k][3])
        npoints = sum(int(np.prod(sh)) for (_, sh) in blocks)
        checks.append(('%s blocks tile the grid' % name, npoints == int(np.prod(npts)),
                       'distinct blocks hold %d points, the grid has %d' % (npoints, int(np.prod(npts)))))
        rep = [len(v) for v in blocks.values()]
        same = all(all(d == v[0] for d in v) for v in blocks.values())
        checks.append(('%s replicas agree' % name, same and len(set(rep)) == 1,
                       'replication counts %s; ranks owning the same block must report the same local value' % rep))
        compare_sums('%s%s' % (name, ' (again)' if k == len(res[0]) - 1 else ''), [v[0] for v in blocks.values()], orc, checks, ana,
                     case['fseed'] + k)
    return checks


def minmax_queries(npts, P, seed):
    rng = np.random.default_rng([int(seed), 303])
    nd = len(npts)
    qs = []
    for dr in sorted({0, P - 1, int(rng.integers(0, P))}):
        qs.append((dr, None, None))
        for ax in range(nd):
            for fix in sorted({0, npts[ax] - 1, int(rng.integers(0, npts[ax]))}):
                qs.append((dr, ax, fix))
        a, b = (int(x) for x in rng.choice(nd, 2, replace=False))
        qs.append((dr, [a, b], [int(rng.integers(0, npts[a])), int(rng.integers(0, npts[b]))]))
    return qs


def c17_minmax(case):
    from mpi4py import MPI
    from pygyro.model.layout import getLayoutHandler
    from pygyro.model.grid import Grid
    p0, p1 = case['grid']
    P = p0 * p1
    npts = case['npts']
    nd = len(npts)
    eta, mesh = make_eta(npts, case['fseed'])
    G = make_field(npts, case['fseed'], case['dtype'], 'rand')
    lays = LAYOUTS4 if nd == 4 else LAYOUTS3
    names = list(lays)
    target = case['layout']
    start = names[(names.index(target) + 1) % len(names)]
    qs = minmax_queries(npts, P, case['fseed'])

    def job(rank, note):
        comm = MPI.COMM_WORLD
        h = getLayoutHandler(comm, dict(lays), [p0, p1], eta)
        g = Grid(eta, [None] * nd, h, start, comm, dtype=G.dtype)
        g.getAllData()[:] = local_block(G, h.getLayout(start))
        g.setLayout(target)
        out = []
        for (dr, ax, fix) in qs:
            note[0] = 'Grid.getMin/getMax(drawingRank=%s, axis=%s, fixValue=%s) in layout %s' % (dr, ax, fix, target)
            if ax is None:
                out.append((g.getMin(dr), g.getMax(dr)))
            else:
                out.append((g.getMin(dr, ax, fix), g.getMax(dr, ax, fix)))
        loc = None
        if not np.iscomplexobj(G):
            note[0] = 'Grid.getMin()/getMax() (local)'
            loc = (float(g.getMin()), float(g.getMax()))
        return out, loc

    res = run_ranks(P, job, jitter=bool(case.get('jitter')), seed=case['fseed'])
    checks = []
    R = np.real(G)
    for qi, (dr, ax, fix) in enumerate(qs):
        sl = [slice(None)] * nd
        if ax is not None:
            for a, f in zip(np.atleast_1d(ax), np.atleast_1d(fix)):
                sl[int(a)] = int(f)
        sub = R[tuple(sl)]
        want = (float(sub.min()), float(sub.max()))
        got = res[dr][0][qi]
        ok = got[0] is not None and got[1] is not None and float(got[0]) == want[0] and float(got[1]) == want[1]
        checks.append(('min/max axis=%s' % ('-' if ax is None else ('pair' if isinstance(ax, list) else 'single')), ok,
                       'layout %s, drawingRank %d, axis %s, fixValue %s: got (min,max)=%s at the drawing rank, global field has %s'
                       % (target, dr, ax, fix, got, want)))
    if res[0][1] is not None:
        got = (min(r[1][0] for r in res), max(r[1][1] for r in res))
        want = (float(R.min()), float(R.max()))
        checks.append(('local min/max reduced', got == want, 'min/max over ranks of getMin()/getMax() %s, global field %s' % (got, want)))
    return checks


def collector_steps(case):
    """[(k, t)] : step number and the time handed to collect (as the driver would have it)."""
    dt = case['dt']
    out = []
    for k in range(case['start'], case['start'] + case['nsteps']):
        if case['tkind'] == 'int':
            t = k * int(dt)
        elif case['tkind'] == 'float_exact':
            t = k * float(dt) if k else 0          # a fresh run starts with the integer 0
        else:                                       # float_accum: t += dt from 0, like the time loop
            t = 0
            for _ in range(k):
                t += float(dt)
        out.append((k, t))
    return out


def c17_collector(case):
    from mpi4py import MPI
    from pygyro.model.layout import getLayoutHandler
    from pygyro.model.grid import Grid
    from pygyro.diagnostics.diagnostic_collector import DiagnosticCollector
    p0, p1 = case['grid']
    P = p0 * p1
    npts = case['npts']
    S = case['saveStep']
    dt = int(case['dt']) if case['tkind'] == 'int' else float(case['dt'])
    eta, mesh = make_eta(npts, case['fseed'])
    steps = collector_steps(case)
    F = {k: make_field(npts, case['fseed'], 'float', 'rand', k) for k, _ in steps}
    Phi = {k: make_field(npts[:3], case['fseed'], 'complex', 'rand', k) for k, _ in steps}
    reduce_at = sorted({(len(steps) - 1) // 2, len(steps) - 1})

    def job(rank, note):
        comm = MPI.COMM_WORLD
        h4 = getLayoutHandler(comm, LAYOUTS4, [p0, p1], eta)
        f = Grid(eta, [None] * 4, h4, 'v_parallel', comm)
        man, _ = build_phi_manager(case['via'], comm, p0, p1, eta[:3])
        phi = Grid(eta[:3], [None] * 3, man, 'mode_solve', comm, dtype=np.complex128)
        phi.setLayout('v_parallel_2d')
        note[0] = 'DiagnosticCollector(comm, saveStep=%d, dt=%r, ...)' % (S, dt)
        dc = DiagnosticCollector(comm, S, dt, f, phi)
        Lf, Lp = h4.getLayout('v_parallel'), man.getLayout('v_parallel_2d')
        snaps = []
        for i, (k, t) in enumerate(steps):
            f.getAllData()[:] = local_block(F[k], Lf)
            phi.getAllData()[:] = local_block(Phi[k], Lp)
            note[0] = ('DiagnosticCollector.collect(f, phi, t=%r (%s)) with dt=%r, saveStep=%d: step %d belongs to slot %d'
                       % (t, type(t).__name__, dt, S, k, k % S))
            dc.collect(f, phi, t)
            if i in reduce_at:
                note[0] = 'DiagnosticCollector.reduce()'
                dc.reduce()
                if rank == 0:
                    note[0] = 'DiagnosticCollector.getLine / __str__'
                    snaps.append(dict(time=np.array(dc.diagnostics[0]), l2P=np.array(dc.l2PhiResult), l2G=np.array(dc.l2GridResult),
                                      l1=np.array(dc.l1Result), nP=np.array(dc.nPartResult), mn=np.array(dc.min_val),
                                      mx=np.array(dc.max_val), KE=np.array(dc.KE_val), lines=[dc.getLine(s) for s in range(S)], s=str(dc)))
        return snaps

    res = run_ranks(P, job, jitter=bool(case.get('jitter')), seed=case['fseed'])
    snaps = res[0]
    checks = []
    # model: step k -> slot k mod saveStep
    model = {}
    orc = {}
    for k, t in steps:
        o4 = oracle_values(F[k], eta, mesh)
        o3 = oracle_values(Phi[k], eta[:3], mesh)
        orc[k] = dict(time=(float(t), 0), l2P=(math.sqrt(o3['l2'][0]), math.sqrt(o3['l2'][1])), l2G=(math.sqrt(o4['l2'][0]), math.sqrt(o4['l2'][1])),
                      l1=o4['l1'], nP=o4['nParticles'], mn=(float(F[k].min()), 0), mx=(float(F[k].max()), 0), KE=o4['KE'])
    for si, i in enumerate(reduce_at):
        for (k, t) in steps[:i + 1]:
            model[k % S] = k
        snap = snaps[si]
        bad = []
        for s in range(S):
            k = model.get(s)
            for name in ('time', 'l2P', 'l2G', 'l1', 'nP', 'mn', 'mx', 'KE'):
                want, scale = orc[k][name] if k is not None else (0.0, 0.0)
                got = float(snap[name][s])
                if not (abs(got - want) <= TOL * scale):
                    bad.append('slot %d (%s) %s: got %.12e, expected %.12e' % (s, 'step %d' % k if k is not None else 'never written', name, got, want))
        checks.append(('slots after reduce', not bad, 'after %d collects (steps %s, times %s, dt=%r, saveStep=%d): %s'
                       % (i + 1, [k for k, _ in steps[:i + 1]], [t for _, t in steps[:i + 1]], dt, S, '; '.join(bad[:4]) or 'all slots as expected')))
        bad = []
        for s in range(S):
            k = model.get(s)
            try:
                nums = [float(x) for x in snap['lines'][s].split()]
            except ValueError:
                nums = []
            names = ('time', 'l2P', 'l2G', 'l1', 'nP', 'mn', 'mx', 'KE')
            if len(nums) != 8:
                bad.append('slot %d: line %r does not hold 8 numbers' % (s, snap['lines'][s]))
                continue
            for name, got in zip(names, nums):
                want, scale = orc[k][name] if k is not None else (0.0, 0.0)
                if abs(got - want) > 1e-9 * max(abs(want), scale) + (1e-5 * abs(want) if name == 'time' else 0):
                    bad.append('slot %d %s: line has %.10e, expected %.10e' % (s, name, got, want))
        if snap['s'] != ''.join(l + '\n' for l in snap['lines']):
            bad.append('str(collector) is not the concatenation of getLine(0..saveStep-1)')
        checks.append(('getLine', not bad, '; '.join(bad[:4]) or 'ok'))
    return checks


C17_CASES = {'norms': c17_norms, 'norms3': c17_norms3, 'minmax': c17_minmax, 'collector': c17_collector}


def gen_npts4(rng, grid, equal_rv=False, big=False):
    """Extents (r, theta, z, v).  Mostly uneven blocks; sometimes every distributed extent equals the process count (blocks of
    one point) or divides evenly."""
    p0, p1 = grid
    style = ['uneven', 'uneven', 'uneven', 'tight', 'plain'][int(rng.integers(0, 5))]
    w = 6 if big else 3
    lo = [max(p0, 2), max(p0, 3), max(p1, 3), max(p0, p1, 2)]
    if style == 'tight':
        nr, nq, nz, nv = lo
    else:
        nr, nq, nz, nv = (int(rng.integers(a, a + w)) for a in lo)
    if style == 'uneven':       # uneven blocks wherever the process grid allows it
        if p0 > 1 and nr % p0 == 0:
            nr += 1
        if p1 > 1 and nz % p1 == 0:
            nz += 1
        if p0 > 1 and nq % p0 == 0:
            nq += 1
        if max(p0, p1) > 1 and (nv % max(p0, p1) == 0 or nv % min(p0, p1) == 0):
            nv += 1
            if p0 > 1 and p1 > 1 and (nv % p0 == 0 or nv % p1 == 0):
                nv += 1
    if equal_rv:
        nv = nr = max(nr, nv)
    return [nr, nq, nz, nv]


def c17_cases(tier, seed):
    rng = np.random.default_rng(seed)
    quick = tier == 'quick'
    cases = []
    names = list(LAYOUTS4)
    rounds = 5 if quick else 60
    for rd in range(rounds):
        for gi, grid in enumerate(GRIDS):
            fs = int(rng.integers(0, 2 ** 31))
            combos = [('float', 'rand'), ('complex', 'rand'), ('float', 'one')]
            if quick:
                combos = [combos[0], combos[1 + ((gi + rd) % 2)]]
            for ci, (dt, fk) in enumerate(combos):
                cases.append(dict(kind='norms', grid=list(grid), npts=gen_npts4(rng, grid, equal_rv=(ci + gi + rd) % 3 == 0, big=(rd % 4 == 3)), dtype=dt, field=fk,
                                  start=names[int(rng.integers(0, 3))], fseed=fs + ci, jitter=(rd % 7 == 2)))
            n4 = gen_npts4(rng, grid)
            n3 = [n4[0], n4[1], n4[2]]
            for ci, (via, dt, fk) in enumerate([('swapper', 'complex', 'rand'), ('handler', 'complex', 'rand'), ('swapper', 'float', 'one'),
                                                ('handler', 'float', 'rand')][:2 if quick else 4]):
                if quick and ci == 1 and (gi + rd) % 2:
                    via, dt, fk = 'swapper', 'float', 'one'
                cases.append(dict(kind='norms3', grid=list(grid), npts=n3, dtype=dt, field=fk, via=via, fseed=fs + 10 + ci))
            lay = names[(gi + rd) % 3]
            cases.append(dict(kind='minmax', grid=list(grid), npts=gen_npts4(rng, grid), dtype='float' if (gi + rd) % 3 else 'complex', layout=lay, fseed=fs + 20))
            if not quick or (gi + rd) % 3 == 2:
                cases.append(dict(kind='minmax', grid=list(grid), npts=n3, dtype='complex', layout=list(LAYOUTS3)[(gi + rd) % 2], fseed=fs + 21))
            # collector
            S = [1, 2, 3, 5, 4, 3][(gi + rd) % 6]
            cases.append(dict(kind='collector', grid=list(grid), npts=gen_npts4(rng, grid), saveStep=S, dt=[1, 2, 3][(gi + rd) % 3], tkind='int',
                              start=int(rng.integers(0, 9)), nsteps=int(rng.integers(S, 2 * S + 2)), via=['swapper', 'handler'][(gi + rd) % 2], fseed=fs + 30))
    # float times (the driver's t becomes a float as soon as dt is one)
    fl = [dict(grid=[1, 1], saveStep=3, dt=2.0, tkind='float_exact', start=0, nsteps=4),
          dict(grid=[2, 2], saveStep=5, dt=0.5, tkind='float_exact', start=3, nsteps=6),
          dict(grid=[2, 1], saveStep=4, dt=0.1, tkind='float_accum', start=5, nsteps=5)]
    if not quick:
        fl += [dict(grid=[3, 2], saveStep=2, dt=0.25, tkind='float_exact', start=1, nsteps=5),
               dict(grid=[1, 2], saveStep=5, dt=2.0, tkind='float_exact', start=7, nsteps=5),
               dict(grid=[1, 1], saveStep=6, dt=0.1, tkind='float_accum', start=0, nsteps=12),
               dict(grid=[2, 2], saveStep=3, dt=0.3, tkind='float_accum', start=2, nsteps=7)]
    for k, c in enumerate(fl):
        c.update(kind='collector', npts=gen_npts4(rng, tuple(c['grid'])), via=['handler', 'swapper'][k % 2], fseed=int(rng.integers(0, 2 ** 31)))
        cases.append(c)
    return cases


# =================================================================================================
# C18
# =================================================================================================

def special_field(npts, seed, dtype='float', tag=0):
    """Random field with a few bit patterns that only an exact copy preserves."""
    rng = np.random.default_rng([int(seed), 404, int(tag)])
    G = rng.standard_normal(npts) * 10.0 ** rng.integers(-3, 4, npts)
    flat = G.reshape(-1)
    sp = [-0.0, 5e-324, 1.7e308, -np.inf, np.nan, 1.0 + 2.0 ** -52, float(tag)]
    idx = rng.choice(flat.size, size=min(len(sp), flat.size), replace=False)
    flat[idx] = sp[:len(idx)]
    if dtype == 'complex':
        G = G + 1j * rng.standard_normal(npts)
    return G


def proc_grid_for(P, rng=None, k=0):
    opts = {1: [(1, 1)], 2: [(2, 1), (1, 2)], 3: [(3, 1), (1, 3)], 4: [(2, 2), (4, 1), (1, 4)], 6: [(3, 2), (2, 3), (6, 1), (1, 6)]}[P]
    return list(opts[k % len(opts)])


def plain_eta(npts):
    return [np.linspace(0.1, 1.0 + d, n) for d, n in enumerate(npts)]


def fname(folder, conv, t):
    return '{0}/{1}_{2:06}.h5'.format(folder, conv, t)


def c18_roundtrip(case):
    """Grid.writeH5Dataset on a process grid gridP, file inspected with plain h5py, Grid.loadFromFile on gridQ."""
    from mpi4py import MPI
    import h5py
    from pygyro.model.layout import getLayoutHandler
    from pygyro.model.grid import Grid
    npts = case['npts']
    nd = len(npts)
    lays = LAYOUTS4 if nd == 4 else LAYOUTS3
    eta = plain_eta(npts)
    G = special_field(npts, case['fseed'], case['dtype'])
    lay, conv, tm = case['layout'], case['conv'], case['time']
    order = lays[lay]
    checks = []
    with scratch() as d, h5_mpio():
        def writer(rank, note):
            comm = MPI.COMM_WORLD
            h = getLayoutHandler(comm, dict(lays), list(case['gridP']), eta)
            g = Grid(eta, [None] * nd, h, lay, comm, dtype=G.dtype)
            g.getAllData()[:] = local_block(G, h.getLayout(lay))
            note[0] = 'Grid.writeH5Dataset(folder, %r, %r) in layout %s on process grid %s' % (tm, conv, lay, case['gridP'])
            g.writeH5Dataset(d, tm, conv)
            if case.get('same_object'):
                comm.Barrier()
                g.getAllData()[:] = -7.0
                note[0] = 'Grid.loadFromFile(folder, %r, %r) into the grid that wrote it' % (tm, conv)
                g.loadFromFile(d, tm, conv)
                return same_bits(g.getAllData(), local_block(G, h.getLayout(lay)))
            return None

        res = run_ranks(int(np.prod(case['gridP'])), writer, seed=case['fseed'])
        if case.get('same_object'):
            checks.append(('reload into the same grid', all(res), 'ranks with identical blocks after reload: %s' % res))
        fn = fname(d, conv, tm)
        ok = os.path.exists(fn)
        checks.append(('file name', ok, 'expected %s, folder holds %s' % (os.path.basename(fn), sorted(os.listdir(d)))))
        if ok:
            with _h5_real[0](fn, 'r') as f:
                data = f['/dset'][...]
                attr = [int(x) for x in f['/dset'].attrs['Layout']]
            checks.append(('file content', same_bits(data, np.ascontiguousarray(np.transpose(G, order))) and attr == list(order),
                           'dataset equals the global field in the order %s: %s; Layout attribute %s'
                           % (order, same_bits(data, np.ascontiguousarray(np.transpose(G, order))), attr)))

            def reader(rank, note):
                comm = MPI.COMM_WORLD
                h = getLayoutHandler(comm, dict(lays), list(case['gridQ']), eta)
                g = Grid(eta, [None] * nd, h, lay, comm, dtype=G.dtype)
                g.getAllData()[:] = -7.0
                note[0] = 'Grid.loadFromFile(folder, %r, %r) in layout %s on process grid %s' % (tm, conv, lay, case['gridQ'])
                g.loadFromFile(d, tm, conv)
                return same_bits(g.getAllData(), local_block(G, h.getLayout(lay)))

            res = run_ranks(int(np.prod(case['gridQ'])), reader, seed=case['fseed'])
            checks.append(('load on another process grid', all(res),
                           'written on %s, loaded on %s, layout %s: ranks whose block equals the global field bit for bit: %s'
                           % (case['gridP'], case['gridQ'], lay, res)))
    return checks


def write_cfile(path, npts, dt=2, extra=None):
    c = {"B0": 1.0, "R0": 239.8081535, "rMin": 0.1, "rMax": 14.5, "zMin": 0.0, "zMax": "R0*2*pi", "vMax": 7.32, "vMin": "-vMax",
         "eps": 0.1, "eps0": 8.854187817e-12, "kN0": 0.055, "kTi": 0.27586, "kTe": "kTi", "deltaRTi": 1.45, "deltaRTe": "deltaRTi",
         "deltaRN0": "2.0*deltaRTe", "deltaR": "4.0*deltaRN0/deltaRTi", "CTi": 1.0, "CTe": "CTi", "m": 3, "n": 1, "iotaVal": 0.8,
         "npts": list(npts), "dt": dt, "splineDegrees": [3, 3, 3, 3]}
    c.update(extra or {})
    with open(path, 'w') as f:
        json.dump(c, f)


def write_checkpoints(d, npts, P, layout, times, fseed, save_constants=True):
    """Checkpoints grid_<t>.h5 for all times (in the given order) through the real set-up + writer; returns {t: global field}."""
    from mpi4py import MPI
    from pygyro.initialisation.setups import setupCylindricalGrid
    from pygyro.utilities.savingTools import setupSave
    cfile = os.path.join(d, 'c.json')
    write_cfile(cfile, npts)
    fields = {repr(t): special_field(npts, fseed, 'float', tag=k + 1) for k, t in enumerate(times)}

    def writer(rank, note):
        comm = MPI.COMM_WORLD
        note[0] = 'setupCylindricalGrid(layout=%s)' % layout
        g, constants, t0 = setupCylindricalGrid(constantFile=cfile, layout=layout, comm=comm, allocateSaveMemory=True)
        if save_constants:
            note[0] = 'setupSave(constants, folder)'
            setupSave(constants, os.path.join(d, 'run'), comm)
            comm.Barrier()
        L = g.getLayout(layout)
        for t in times:
            g.getAllData()[:] = local_block(fields[repr(t)], L)
            note[0] = 'Grid.writeH5Dataset(folder, %r)' % (t,)
            g.writeH5Dataset(os.path.join(d, 'run'), t)
        return list(L.nprocs)

    res = run_ranks(P, writer, seed=fseed)
    return fields, os.path.join(d, 'run'), res[0]


def c18_latest(case):
    """Several checkpoints; 'latest' and timepoint= selection through Grid.loadFromFile and setupFromFile."""
    from mpi4py import MPI
    from pygyro.initialisation.setups import setupFromFile, setupCylindricalGrid
    npts, lay, times = case['npts'], case['layout'], case['times']
    tmax = max(times)
    checks = []
    with scratch() as d, h5_mpio():
        fields, folder, gP = write_checkpoints(d, npts, case['P'], lay, times, case['fseed'])
        present = sorted(os.path.basename(x) for x in _glob.glob(folder + '/grid_*'))
        checks.append(('files written', len(present) == len(times), 'checkpoints for times %s: %s' % (times, present)))
        want_layout = case.get('want_layout')

        def reader(rank, note):
            comm = MPI.COMM_WORLD
            out = {}
            # (a) setupFromFile, latest
            note[0] = 'setupFromFile(folder%s) with checkpoints %s' % (', layout=%r' % want_layout if want_layout else '', times)
            kw = dict(layout=want_layout) if want_layout else {}
            g, c, t = setupFromFile(folder, comm=comm, allocateSaveMemory=True, **kw)
            out['setup_latest'] = (t, g.currentLayout, g.getAllData().copy(), tuple(g.getLayout(g.currentLayout).dims_order),
                                   tuple(int(s) for s in g.getLayout(g.currentLayout).starts))
            # (b) setupFromFile, timepoint=
            for tp in times:
                note[0] = 'setupFromFile(folder, timepoint=%r)' % (tp,)
                g2, c2, t2 = setupFromFile(folder, comm=comm, timepoint=tp)
                out['setup_tp_%r' % (tp,)] = (t2, g2.currentLayout, g2.getAllData().copy(), tuple(g2.getLayout(g2.currentLayout).dims_order),
                                              tuple(int(s) for s in g2.getLayout(g2.currentLayout).starts))
            # (c) Grid.loadFromFile into the grid of (b): latest and explicit
            g2.getAllData()[:] = -7.0
            note[0] = 'Grid.loadFromFile(folder) with checkpoints %s' % (times,)
            g2.loadFromFile(folder)
            L2 = g2.getLayout(g2.currentLayout)
            out['grid_latest'] = (None, g2.currentLayout, g2.getAllData().copy(), tuple(L2.dims_order), tuple(int(s) for s in L2.starts))
            for tp in times:
                g2.getAllData()[:] = -7.0
                note[0] = 'Grid.loadFromFile(folder, %r)' % (tp,)
                g2.loadFromFile(folder, tp)
                out['grid_tp_%r' % (tp,)] = (None, g2.currentLayout, g2.getAllData().copy(), tuple(L2.dims_order), tuple(int(s) for s in L2.starts))
            return out

        res = run_ranks(case['Q'], reader, seed=case['fseed'])

        def which(key):
            """Which written field do all ranks hold (bit for bit)?"""
            hits = []
            for tm in times:
                G = fields[repr(tm)]
                if all(same_bits(r[key][2], np.transpose(G, r[key][3])[tuple(slice(s, s + n) for s, n in zip(r[key][4], r[key][2].shape))]) for r in res):
                    hits.append(tm)
            return hits

        exp_layout = want_layout or lay
        hits = which('setup_latest')
        t_got = res[0]['setup_latest'][0]
        frac = any(float(t) != int(t) for t in times)
        checks.append(('setupFromFile latest%s' % (' (fractional time)' if frac else ''),
                       hits == [tmax] and t_got == tmax and type(t_got) in (int, float) and res[0]['setup_latest'][1] == exp_layout,
                       'checkpoint times %s (files %s): setupFromFile returned t=%r in layout %s holding the field of time %s; expected t=%r, the field of time %r, layout %s'
                       % (times, present, t_got, res[0]['setup_latest'][1], hits or 'none of the written ones', tmax, tmax, exp_layout)))
        hits = which('grid_latest')
        checks.append(('Grid.loadFromFile latest', hits == [tmax],
                       'checkpoint times %s (files %s): loadFromFile(folder) loaded the field of time %s, expected the one of the largest time %r'
                       % (times, present, hits or 'none of the written ones', tmax)))
        for tp in times:
            h1, h2 = which('setup_tp_%r' % (tp,)), which('grid_tp_%r' % (tp,))
            t2 = res[0]['setup_tp_%r' % (tp,)][0]
            checks.append(('timepoint', h1 == [tp] and h2 == [tp] and t2 == tp and res[0]['setup_tp_%r' % (tp,)][1] == lay,
                           'timepoint=%r: setupFromFile gave t=%r, layout %s, field of time %s; loadFromFile(folder,%r) gave field of time %s'
                           % (tp, t2, res[0]['setup_tp_%r' % (tp,)][1], h1, tp, h2)))
    return checks


# ---------------------------------------------------------------------------------------------
# constants
# ---------------------------------------------------------------------------------------------

def public_attrs(c):
    return {k: getattr(c, k) for k in dir(c) if k[0] != '_' and not callable(getattr(c, k))}


def cn0_oracle(v):
    x, w = np.polynomial.legendre.leggauss(48)
    a, b = v['rMin'], v['rMax']
    edges = np.linspace(a, b, 33)
    tot = 0.0
    for lo, hi in zip(edges[:-1], edges[1:]):
        r = 0.5 * (hi - lo) * x + 0.5 * (hi + lo)
        tot += 0.5 * (hi - lo) * float(np.sum(w * np.exp(-v['kN0'] * v['deltaRN0'] * np.tanh((r - v['rp']) / v['deltaRN0']))))
    return (b - a) / tot


def constants_oracle(items):
    """Values of all constants for a json object given as [[key, value], ...] (strings are expressions)."""
    from pygyro.initialisation.default_constants import defaults
    raw = dict((k, v) for k, v in items)
    vals = {}

    def get(k):
        if k not in vals:
            v = raw[k]
            if isinstance(v, str):
                tree = ast.parse(v.strip(), mode='eval')
                ns = {'pi': math.pi, 'e': math.e}
                for node in ast.walk(tree):
                    if isinstance(node, ast.Name) and node.id in raw:
                        ns[node.id] = get(node.id)
                    elif isinstance(node, ast.Name) and node.id == 'rp':
                        ns['rp'] = 0.5 * (get('rMin') + get('rMax'))
                v = eval(compile(tree, '<constants>', 'eval'), {'__builtins__': {}}, ns)
            vals[k] = v
        return vals[k]

    for k in raw:
        get(k)
    out = dict(defaults)
    out.update(vals)
    out['rp'] = 0.5 * (out['rMin'] + out['rMax'])
    if 'CN0' not in raw:
        out['CN0'] = cn0_oracle(out)
    return out


def compare_constants(got, want, exact_cn0=False):
    bad = []
    for k in sorted(set(got) | set(want)):
        if k not in got or k not in want:
            bad.append('%s: %s' % (k, 'missing' if k not in got else 'unexpected'))
        elif k == 'CN0' and not exact_cn0:
            if not abs(got[k] - want[k]) <= 1e-7 * abs(want[k]):
                bad.append('CN0: got %r, expected %r' % (got[k], want[k]))
        elif not (got[k] == want[k] and isinstance(got[k], (list, tuple)) == isinstance(want[k], (list, tuple))):
            bad.append('%s: got %r, expected %r' % (k, got[k], want[k]))
    return bad


STD_EXPR = {"zMax": "R0*2*pi", "vMin": "-vMax", "kTe": "kTi", "deltaRTe": "deltaRTi", "deltaRN0": "2.0*deltaRTe",
            "deltaR": "4.0*deltaRN0/deltaRTi", "CTe": "CTi"}


def gen_constants_items(rng, npts=None):
    """A constants file with non-default values everywhere and expressions that only reference keys of the file."""
    def u(a, b):
        return float(np.round(rng.uniform(a, b), int(rng.integers(1, 9))))
    items = {"B0": u(0.5, 2), "R0": u(100, 400), "rMin": u(0.05, 1.0), "zMin": u(-3, 3), "vMax": u(4, 9), "eps": u(1e-6, 1e-2), "eps0": 8.85e-12 * u(0.5, 2),
             "kN0": u(0.01, 0.2), "kTi": u(0.1, 0.5), "deltaRTi": u(0.8, 2.5), "CTi": u(0.5, 2.0), "m": int(rng.integers(1, 20)),
             "n": int(rng.integers(-12, 12)), "iotaVal": u(0.0, 1.5), "npts": list(npts or [int(x) for x in rng.integers(5, 40, 4)]),
             "splineDegrees": [int(x) for x in rng.integers(1, 6, 4)], "dt": int(rng.integers(1, 5))}
    items["rMax"] = "rMin+%r" % u(5, 20) if rng.integers(0, 2) else items["rMin"] + u(5, 20)
    for k, e in STD_EXPR.items():
        r = int(rng.integers(0, 4))
        if r == 0:      # numeric, different from what the expression would give
            items[k] = u(0.5, 3.0) if k != 'vMin' else -u(3, 8)
        elif r == 1 and k not in ('deltaRN0', 'deltaRTe'):
            a, b = (str(x) for x in rng.choice(["B0", "CTi", "kTi", "vMax", "R0", "m"], 2, replace=False))
            items[k] = ["%s*%s" % (a, b), "(%s+%s)/%r" % (a, b, u(1, 4)), "%r*%s/%s" % (u(1, 3), a, b), "%s - %s*2" % (a, b), "-%s" % a,
                        " %s * 2*pi " % a][int(rng.integers(0, 6))]
        else:
            items[k] = e
    if rng.integers(0, 2):      # longer dependency chains among free keys
        chain = [str(x) for x in rng.permutation(["B0", "CTi", "eps", "iotaVal", "zMin", "kTi"])]
        for a, b in zip(chain[1:], chain[:-1]):
            if rng.integers(0, 3):
                items[a] = ["%s/%r" % (b, u(2, 5)), "%r+%s" % (u(0.1, 1), b), "%s*(%r-%s)" % (b, u(2, 3), "n") if False else "%s*%r" % (b, u(0.5, 2))][int(rng.integers(0, 3))]
        # keep kTi positive/finite: it stays whatever the chain gives (all factors positive)
    # drop some keys nobody refers to (defaults then apply)
    refs = set()
    for v in items.values():
        if isinstance(v, str):
            refs |= {n.id for n in ast.walk(ast.parse(v.strip(), mode='eval')) if isinstance(n, ast.Name)}
    for k in ["B0", "eps0", "m", "n", "iotaVal", "splineDegrees", "dt", "zMin", "CTe", "deltaR", "zMax"]:
        if k not in refs and rng.integers(0, 5) == 0:
            items.pop(k, None)
    keys = list(items)
    return [[k, items[k]] for k in (keys[i] for i in rng.permutation(len(keys)))]


def load_constants(items, order, path):
    from pygyro.initialisation.constants import get_constants
    d = dict((k, v) for k, v in items)
    with open(path, 'w') as f:
        json.dump({k: d[k] for k in order}, f, indent=int(len(order) % 3))
    return guarded(lambda: public_attrs(get_constants(path)), 'get_constants on a file with keys in the order %s' % (list(order),))


def c18_const_perm(case):
    items = case['items']
    keys = [k for k, _ in items]
    checks = []
    with scratch() as d:
        want = constants_oracle(items)
        ref = None
        for pi_, order in enumerate(case['perms']):
            sub = dict(case, perms=[order])
            try:
                got = load_constants(items, order, os.path.join(d, 'p%d.json' % pi_))
            except CUT as e:
                checks.append(('key order: ' + e.cls, False, str(e), sub))
                continue
            bad = compare_constants(got, want)
            if ref is None:
                ref = (order, got)
            elif not bad:
                bad = ['differs from the result for key order %s: %s' % (ref[0], x) for x in compare_constants(got, ref[1], exact_cn0=True)]
            checks.append(('key order', not bad, 'keys in the order %s: %s' % (order, '; '.join(bad[:4]) or 'all constants as expected'), sub))
    return checks


def c18_const_save(case):
    """str(constants) written by setupSave (on P ranks) and read back by get_constants."""
    from mpi4py import MPI
    from pygyro.initialisation.constants import get_constants, Constants
    from pygyro.utilities.savingTools import setupSave
    checks = []
    with scratch() as d:
        if case['items'] == 'defaults':
            c1 = guarded(lambda: Constants(), 'Constants()')
            want = None
        else:
            src = os.path.join(d, 'in.json')
            with open(src, 'w') as f:
                json.dump(dict((k, v) for k, v in case['items']), f)
            c1 = guarded(lambda: get_constants(src), 'get_constants')
            want = constants_oracle(case['items'])
        a1 = public_attrs(c1)
        if want is not None:
            bad = compare_constants(a1, want)
            checks.append(('constants file', not bad, '; '.join(bad[:4]) or 'all constants as expected'))
        folder = os.path.join(d, 'out')
        cwd = os.getcwd()
        try:
            if case.get('folder_none'):
                os.chdir(d)

            def job(rank, note):
                note[0] = 'setupSave(constants, %s)' % ('None' if case.get('folder_none') else 'folder')
                return setupSave(c1, None if case.get('folder_none') else folder, MPI.COMM_WORLD)

            res = run_ranks(case['P'], job)
        finally:
            os.chdir(cwd)
        if case.get('folder_none'):
            checks.append(('setupSave folder name', all(r == 'simulation_0' for r in res), 'all ranks must get the new folder simulation_0: %s' % res))
            folder = os.path.join(d, res[0])
        fn = os.path.join(folder, 'initParams.json')
        try:
            js = json.load(open(fn))
            checks.append(('initParams.json is json', True, 'ok'))
        except Exception as e:
            js = None
            checks.append(('initParams.json is json', False, 'json.load failed: %r; text: %s' % (e, open(fn).read()[:300] if os.path.exists(fn) else 'no file')))
        if js is not None:
            a2 = public_attrs(guarded(lambda: get_constants(fn), 'get_constants(initParams.json written by setupSave)'))
            bad = compare_constants(a2, a1, exact_cn0=True)
            checks.append(('saved parameter file reproduces all constants', not bad, '; '.join(bad[:4]) or 'all %d constants identical' % len(a1)))
            # and once more through a second save (idempotent)
            bad = [k for k in a1 if k not in js]
            checks.append(('every constant is in the file', not bad, 'missing keys: %s' % bad))
    return checks


# ---------------------------------------------------------------------------------------------
# restart of the driver
# ---------------------------------------------------------------------------------------------

def load_driver(repo, mode):
    """fullSimulation.main, compiled from source.  mode 'slice': timing book-keeping inside the time loop removed."""
    path = os.path.join(repo, 'fullSimulation.py')
    src = open(path).read()
    tree = ast.parse(src)
    dropped = []
    if mode == 'slice':
        main = [n for n in tree.body if isinstance(n, ast.FunctionDef) and n.name == 'main'][0]

        def is_timing(st):
            if isinstance(st, (ast.Assign, ast.AugAssign)):
                tg = st.targets[0] if isinstance(st, ast.Assign) else st.target
                if isinstance(tg, ast.Name) and tg.id.startswith('average_'):
                    return True
                return 'time.time' in (ast.get_source_segment(src, st.value) or '')
            return False

        def strip(body):
            out = []
            for st in body:
                if is_timing(st):
                    dropped.append(st.lineno)
                    continue
                for fld in ('body', 'orelse'):
                    if isinstance(st, (ast.If, ast.For, ast.While)) and getattr(st, fld):
                        setattr(st, fld, strip(getattr(st, fld)) or ([ast.Pass()] if fld == 'body' else []))
                out.append(st)
            return out

        for st in main.body:
            if isinstance(st, ast.While):
                st.body = strip(st.body) or [ast.Pass()]
        ast.fix_missing_locations(tree)
    ns = {'__name__': 'fullSimulation_under_test'}
    exec(compile(tree, path, 'exec'), ns)
    return ns['main'], dropped


def run_driver(main, P, argv, timeout=240.0):
    from mpi4py import MPI
    old = sys.argv
    sys.argv = ['fullSimulation.py'] + [str(a) for a in argv]
    try:
        def job(rank, note):
            note[0] = 'fullSimulation.main() with argv %s on %d rank(s)' % (' '.join(sys.argv[1:]), P)
            main()
        run_ranks(P, job, timeout=timeout)
    finally:
        sys.argv = old


def read_h5(fn):
    with _h5_real[0](fn, 'r') as f:
        return f['/dset'][...], [int(x) for x in f['/dset'].attrs['Layout']]


def parse_phidat(fn):
    out = {}
    if not os.path.exists(fn):
        return out
    for line in open(fn):
        p = line.split()
        if p:
            out.setdefault(float(p[0]), []).append(line.strip())
    return out


def c18_restart(case):
    P, S, N, M, dt = case['P'], case['saveStep'], case['N'], case['M'], case['dt']
    mode = case['mode']
    checks = []
    cwd = os.getcwd()
    with scratch() as d, h5_mpio():
        main, dropped = load_driver(REPO[0], mode)
        write_cfile(os.path.join(d, 'c.json'), case['npts'], dt=dt, extra=dict(iotaVal=case.get('iotaVal', 0.8)))
        os.chdir(d)
        try:
            def tend_arg(k):        # tEnd is an integer argument of the driver
                assert float(k * dt) == int(k * dt), 'choose N, M with integral N*dt and (N+M)*dt'
                return int(k * dt)

            runs = [('unsplit run of %d steps' % (N + M), [tend_arg(N + M), 100000, '-c', 'c.json', '-f', 'A', '-s', S]),
                    ('first part, %d steps' % N, [tend_arg(N), 100000, '-c', 'c.json', '-f', 'B', '-s', S]),
                    ('restart for %d more steps' % M, [tend_arg(N + M), 100000, '-f', 'B', '-s', S])]
            done = []
            for label, argv in runs:
                try:
                    run_driver(main, P, argv)
                    checks.append(('driver completes', True, '%s: ok' % label))
                    done.append(True)
                except CUT as e:
                    checks.append(('driver completes: ' + e.cls, False, '%s (saveStep=%d, dt=%r, npts=%s, %s): %s' % (
                        label, S, dt, case['npts'], 'real main()' if mode == 'real' else 'main() without the in-loop timing statements of lines %s' % dropped, e)))
                    done.append(False)
                    if label.startswith('first'):
                        break
            def found(folder, conv):
                return {float(os.path.basename(x)[len(conv) + 1:-3]): x for x in _glob.glob('%s/%s_*.h5' % (folder, conv))}

            tA, tB = found('A', 'grid'), found('B', 'grid')
            if all(done) and len(done) == 3:
                tend = (N + M) * dt
                saves = {0} | {k * S * dt for k in range(1, (N + M) // S + 1)} | {tend}
                checks.append(('checkpoint times', sorted(tA) == sorted(saves) and sorted(tB) == sorted(saves | {N * dt}),
                               'unsplit run wrote %s (expected %s); split run wrote %s (expected %s)'
                               % (sorted(tA), sorted(saves), sorted(tB), sorted(saves | {N * dt}))))
                for conv in ('grid', 'phi'):
                    fa, fb = found('A', conv).get(float(tend)), found('B', conv).get(float(tend))
                    if fa is None or fb is None:
                        checks.append(('final %s checkpoint' % conv, False, 'no %s checkpoint for the final time %r: unsplit run %s, split run %s' % (
                            conv, tend, sorted(found('A', conv)), sorted(found('B', conv)))))
                        continue
                    (a, la), (b, lb) = read_h5(fa), read_h5(fb)
                    same = same_bits(a, b) and la == lb
                    diff = float(np.max(np.abs(a - b))) if a.shape == b.shape else float('nan')
                    checks.append(('final %s checkpoint' % conv, same,
                                   '%s at t=%r after %d+%d steps vs %d steps (saveStep=%d): identical bits %s, max |difference| %.3e, layouts %s/%s'
                                   % (conv, tend, N, M, N + M, S, same, diff, la, lb)))
                # all common checkpoints agree
                bad = []
                for t in sorted(set(tA) & set(tB)):
                    a, la = read_h5(tA[t])
                    b, lb = read_h5(tB[t])
                    if not (same_bits(a, b) and la == lb):
                        bad.append(t)
                checks.append(('intermediate checkpoints', not bad, 'checkpoints that differ between the split and unsplit run: %s' % bad))
                # diagnostics file: every step once (at least), identical lines in both runs
                pa, pb = parse_phidat('A/phiDat.txt'), parse_phidat('B/phiDat.txt')
                want_t = [float(k * dt) for k in range(N + M + 1)]
                msg = []
                for nm, pdat in (('unsplit', pa), ('split', pb)):
                    miss = [t for t in want_t if t not in pdat]
                    if miss:
                        msg.append('%s run: no line for t=%s (lines for t=%s)' % (nm, miss, sorted(pdat)))
                    amb = [t for t, ls in pdat.items() if len(set(ls)) > 1]
                    if amb:
                        msg.append('%s run: different lines for the same t=%s' % (nm, amb))
                difft = [t for t in want_t if t in pa and t in pb and set(pa[t]) != set(pb[t])]
                if difft:
                    msg.append('lines differ between split and unsplit run for t=%s' % difft)
                # informational only: which lines the driver prints into phiDat.txt is not part of property C18
                # (state = grids/checkpoints); on the pinned tree the final flush prints slots range(ti % saveStep),
                # one slot off (recorded in DESIGN.md as an observation, not as a finding against C18)
                checks.append(('phiDat.txt (informational)', True, 'N=%d M=%d saveStep=%d dt=%r: %s' % (N, M, S, dt, '; '.join(msg) or 'every step present and identical')))
        finally:
            os.chdir(cwd)
    return checks


C18_CASES = {'roundtrip': c18_roundtrip, 'latest': c18_latest, 'const_perm': c18_const_perm, 'const_save': c18_const_save, 'restart': c18_restart}


def c18_cases(tier, seed):
    rng = np.random.default_rng(seed)
    quick = tier == 'quick'
    cases = []
    sizes = [1, 2, 3, 4, 6]
    names4, names3 = list(LAYOUTS4), list(LAYOUTS3)
    pairs = [(p, q) for p in sizes for q in sizes]
    if quick:       # every size on both sides, all layouts; the remaining pairs come with other seeds / the thorough tier
        sel = [(1, 6, 4), (6, 1, 4), (2, 3, 4), (3, 4, 4), (4, 2, 4), (6, 6, 4), (3, 3, 3), (4, 6, 4), (6, 4, 3), (2, 2, 4), (1, 1, 3), (3, 2, 4)]
        sel += [pairs[int(i)] + (4,) for i in rng.choice(len(pairs), 4, replace=False)]
        sel = [(p, q, nd, names4[k % 3] if nd == 4 else names3[k % 2]) for k, (p, q, nd) in enumerate(sel)]
    else:
        sel = [(p, q, 4, lay) for lay in names4 for (p, q) in pairs] + [(p, q, 3, names3[k % 2]) for k, (p, q) in enumerate(pairs)]
    for k, (p, q, nd, lay) in enumerate(sel):
        gp, gq = proc_grid_for(p, k=int(rng.integers(0, 4))), proc_grid_for(q, k=int(rng.integers(0, 4)))
        mx = max(gp + gq)
        npts = [int(rng.integers(mx, mx + 3)) + (1 if mx > 1 else 0) for _ in range(nd)]
        cases.append(dict(kind='roundtrip', npts=npts, gridP=gp, gridQ=gq, layout=lay, dtype='complex' if nd == 3 else ('float' if k % 5 else 'complex'),
                          conv='phi' if nd == 3 else 'grid', time=[0, 7, 40, 123456, 1000000, 999999][k % 6], same_object=(p == q or k % 7 == 0),
                          fseed=int(rng.integers(0, 2 ** 31))))
    # latest / timepoint
    seqs = [[5, 50, 999999, 1000000], [0, 2, 10], [8, 10, 12], [99, 100, 7], [1000000, 2], [999998, 1000002, 10000000, 40], [0], [999999, 1000000]]
    fracs = [[0.5, 2.5], [2.0, 4.0]]
    nlat = 8 if quick else 40
    for k in range(nlat):
        times = [int(x) for x in rng.permutation(seqs[k % len(seqs)])]       # creation order is not time order
        P, Q = int(rng.choice(sizes)), int(rng.choice(sizes))
        lay = names4[k % 3]
        cases.append(dict(kind='latest', npts=[5, 6, 7, 6] if k % 2 else [6, 7, 8, 7], P=P, Q=Q, layout=lay, times=times,
                          want_layout=[None, 'v_parallel', 'poloidal', 'flux_surface'][k % 4], fseed=int(rng.integers(0, 2 ** 31))))
    for k, fr in enumerate(fracs[:1 if quick else 2]):
        cases.append(dict(kind='latest', npts=[5, 6, 7, 6], P=[2, 3][k], Q=[3, 1][k], layout=names4[k], times=fr, want_layout=None,
                          fseed=int(rng.integers(0, 2 ** 31))))
    # constants
    for k in range(3 if quick else 30):
        items = gen_constants_items(rng)
        keys = [kk for kk, _ in items]
        nperm = 40 if quick else 120
        perms = [keys, keys[::-1], sorted(keys), sorted(keys)[::-1]] + [[keys[i] for i in rng.permutation(len(keys))] for _ in range(nperm - 4)]
        cases.append(dict(kind='const_perm', items=items, perms=perms))
    small = [["rMin", 0.4], ["rMax", "rMin*30"], ["vMax", 5.5], ["vMin", "-vMax"], ["deltaRTi", 1.1], ["deltaRTe", "deltaRTi"], ["deltaRN0", "2.0*deltaRTe"],
             ["deltaR", "4.0*deltaRN0/deltaRTi"]]
    cases.append(dict(kind='const_perm', items=small, perms=[[small[i][0] for i in p] for p in
                                                            (itertools.permutations(range(len(small))) if not quick else
                                                             [rng.permutation(len(small)) for _ in range(150)])]))
    cases.append(dict(kind='const_save', items='defaults', P=1))
    for k in range(3 if quick else 20):
        cases.append(dict(kind='const_save', items=gen_constants_items(rng), P=int(rng.choice(sizes)), folder_none=(k % 3 == 2)))
    # restart: (mode, ranks, saveStep, N, M, dt)
    if quick:
        rs = [('real', 1, 1, 1, 1, 2), ('real', 1, 3, 2, 1, 2), ('real', 2, 2, 2, 2, 2), ('real', 1, 3, 1, 3, 2), ('slice', 1, 1, 1, 2, 2),
              ('real', 1, 2, 1, 1, 2.0)]
    else:
        rs = [('real', 1, 1, 1, 1, 2), ('real', 2, 1, 2, 2, 1), ('real', 1, 3, 2, 1, 3), ('real', 2, 2, 1, 2, 2), ('real', 1, 2, 2, 2, 1),
              ('real', 3, 5, 2, 2, 3), ('real', 4, 3, 1, 3, 2), ('real', 2, 5, 4, 2, 1), ('real', 6, 4, 2, 3, 3), ('real', 1, 3, 3, 3, 2),
              ('real', 1, 4, 1, 2, 2), ('real', 2, 3, 4, 1, 1), ('real', 1, 2, 1, 1, 2.0), ('real', 2, 2, 2, 4, 0.5),
              ('slice', 1, 1, 1, 2, 2), ('slice', 2, 1, 2, 1, 1), ('slice', 1, 3, 2, 2, 3), ('slice', 3, 2, 1, 2, 2), ('slice', 4, 3, 5, 1, 1),
              ('slice', 2, 5, 4, 3, 3), ('slice', 1, 4, 3, 2, 2), ('slice', 6, 2, 3, 2, 1), ('slice', 1, 3, 5, 3, 2), ('slice', 2, 4, 7, 1, 1)]
    for k, (mode, P, S, N, M, dt) in enumerate(rs):
        cases.append(dict(kind='restart', mode=mode, P=P, saveStep=S, N=N, M=M, dt=dt, npts=[5, 6, 7, 6] if P < 3 else [6, 6, 8, 6],
                          iotaVal=0.8 if k % 2 == 0 else 0.0))
    return cases


# =================================================================================================
# driver
# =================================================================================================

CASES = {'C17': C17_CASES, 'C18': C18_CASES}
GEN = {'C17': c17_cases, 'C18': c18_cases}


def run_case(prop, case):
    """-> (checks [(name, ok, detail, subcase)], errors)"""
    from mpi4py import MPI
    try:
        raw = CASES[prop][case['kind']](case)
        return [(c + (None,))[:4] for c in raw], []
    except CUT as e:
        return [(e.cls, False, str(e), None)], []
    except (MPI.DeadlockError, MPI.CollectiveMismatch) as e:
        return [('collectives: %s' % type(e).__name__, False, '%s: %s' % (type(e).__name__, str(e)[:400]), None)], []
    except (Exception, SystemExit) as e:
        d = _describe(e, 'harness call')
        if d is not None:
            return [(d[1], False, d[0], None)], []
        return [], [traceback.format_exc()[-1500:]]


def brief(case):
    c = dict(case)
    if c.get('kind') == 'const_perm' and len(c.get('perms', [])) > 2:
        c['perms'] = '%d key orders (first: %s)' % (len(c['perms']), c['perms'][0])
    return c


def aggregate(prop, cases, budget=None):
    out = dict(evaluated=0, ok=0, failures=[], samples=[], errors=[], failure_classes={})
    allf = []
    t0 = time.time()
    kinds_seen = set()
    for case in cases:
        if budget and time.time() - t0 > budget:
            out.setdefault('skipped_for_time', 0)
            out['skipped_for_time'] += 1
            continue
        tc = time.time()
        checks, errs = run_case(prop, case)
        print('%s %s: %d checks, %d failed, %.1fs' % (prop, brief(case), len(checks), sum(1 for c in checks if not c[1]), time.time() - tc), file=sys.stderr)
        out['errors'].extend(errs[:1] if len(out['errors']) < 5 else [])
        for (name, good, detail, sub) in checks:
            out['evaluated'] += 1
            if good:
                out['ok'] += 1
            else:
                cls = '%s/%s' % (case['kind'], name)
                out['failure_classes'][cls] = out['failure_classes'].get(cls, 0) + 1
                allf.append((cls, dict(case=sub or case, check=name, detail=detail)))
        if case['kind'] not in kinds_seen or len(out['samples']) < 4:
            if len(out['samples']) < 10:
                out['samples'].append(dict(brief(case), checks=len(checks)))
            kinds_seen.add(case['kind'])
    seen = set()
    for cls, f in allf:                      # one representative per class first
        if cls not in seen and len(out['failures']) < 8:
            seen.add(cls)
            out['failures'].append(f)
    return out


def main():
    prop, tier, seed, repo = sys.argv[1], sys.argv[2], int(sys.argv[3]), os.path.abspath(sys.argv[4])
    REPO[0] = repo
    _setup(repo)
    t0 = time.time()
    real_stdout = sys.stdout
    sys.stdout = open(os.devnull, 'w')
    try:
        import h5py
        _h5_real[0] = h5py.File
        if len(sys.argv) > 5:
            case = json.load(open(sys.argv[5]))
            case = case.get('case', case)
            out = aggregate(prop, [case])
        else:
            out = aggregate(prop, GEN[prop](tier, seed), budget=50 if tier == 'quick' else 560)
    except BaseException:
        out = dict(evaluated=0, ok=0, failures=[], samples=[], errors=[traceback.format_exc()[-2500:]])
    finally:
        sys.stdout = real_stdout
    out['wall_s'] = round(time.time() - t0, 2)
    json.dump(out, sys.stdout, default=lambda o: o.tolist() if hasattr(o, 'tolist') else str(o))


if __name__ == '__main__':
    main()
