"""Bounded stand-ins for the layout / grid properties (C01-C04, C06): the real classes of /repo run on the
simulated MPI of vf/shim, compared with a plain numpy model of one global array.  Never counted as proved.

python -m vf.rt.bounded_layout <prop> <tier> <seed> <repo> [case.json]  -> JSON on stdout
"""
import itertools
import json
import os
import sys
import time
import traceback
import warnings

import numpy as np

warnings.filterwarnings('ignore')


def _setup(repo):
    here = os.path.dirname(os.path.dirname(os.path.dirname(os.path.abspath(__file__))))
    shim = os.path.join(here, 'vf', 'shim')
    for p in (repo, shim):
        if p in sys.path:
            sys.path.remove(p)
    sys.path.insert(0, repo)
    sys.path.insert(0, shim)


def global_field(npts, dtype):
    n = int(np.prod(npts))
    G = np.arange(1, n + 1, dtype=float).reshape(npts)
    if dtype == 'complex':
        return (G + 1j * (G[::-1] if G.ndim == 1 else np.flip(G))).astype(complex)
    if dtype == 'int':
        return G.astype(int)
    return G


def local_block(G, layout):
    sl = tuple(slice(s, e) for s, e in zip(layout.starts, layout.ends))
    return np.transpose(G, layout.dims_order)[sl]


def eta(npts):
    return [np.linspace(0, 1, n, endpoint=False) + 0.5 * k for k, n in enumerate(npts)]


# ---------------------------------------------------------------------------------------------
# C02
# ---------------------------------------------------------------------------------------------

def c02_layout_case(n, p, ndims=2, pos=0):
    """One distributed dimension of extent n over p processes: all ranks' view of the partition."""
    from pygyro.model.layout import Layout
    npts = [3] * ndims
    npts[pos] = n
    order = list(range(ndims))
    order[0], order[pos] = order[pos], order[0]
    errs = []
    starts_seen = []
    for r in range(p):
        L = Layout('l', [p], order, eta(npts), [r])
        st, ln = L.mpi_starts(0), L.mpi_lengths(0)
        if len(st) != p or len(ln) != p:
            errs.append('mpi_starts/lengths have wrong length')
            break
        if st[0] != 0 or any(st[k] + ln[k] != (st[k + 1] if k + 1 < p else n) for k in range(p)):
            errs.append('ranges do not tile [0,%d): starts=%s lengths=%s' % (n, list(st), list(ln)))
        if max(ln) - min(ln) > 1 or min(ln) < 1:
            errs.append('block lengths not balanced: %s' % list(ln))
        if L.starts[0] != st[r] or L.ends[0] != st[r] + ln[r] or L.shape[0] != ln[r]:
            errs.append('rank %d: starts/ends/shape disagree with mpi_starts/lengths' % r)
        if L.size != int(np.prod(L.shape)):
            errs.append('size != prod(shape)')
        if L.max_block_shape[0] != max(ln):
            errs.append('max_block_shape %d != largest block %d' % (L.max_block_shape[0], max(ln)))
        if tuple(L.fullShape) != tuple(npts[d] for d in order):
            errs.append('fullShape wrong')
        if any(L.inv_dims_order[L.dims_order[k]] != k for k in range(ndims)):
            errs.append('inv_dims_order is not the inverse permutation')
        if L.max_block_size != int(np.prod(L.max_block_shape)):
            errs.append('max_block_size != prod(max_block_shape)')
        if errs:
            break
    return errs


def c02_grid_case(npts, nprocs, orders, seed):
    """Grid accessors and buffer sizes on every rank of a process grid."""
    from mpi4py import MPI
    from pygyro.model.layout import getLayoutHandler
    from pygyro.model.grid import Grid
    P = int(np.prod(nprocs))
    layouts = {'L%d' % k: list(o) for k, o in enumerate(orders)}
    R = len(npts)
    et = eta(npts)

    def job(rank):
        errs = []
        h = getLayoutHandler(MPI.COMM_WORLD, layouts, list(nprocs), et)
        owned = {}
        for name in layouts:
            L = h.getLayout(name)
            if L.size > h.bufferSize:
                errs.append('%s: block %d larger than bufferSize %d' % (name, L.size, h.bufferSize))
            g = Grid(et, [None] * R, h, name)
            for i in range(R):
                d = L.dims_order[i]
                want = [(k, et[d][L.starts[i] + k]) for k in range(L.shape[i])]
                got = list(g.getCoords(i))
                if len(got) != len(want) or any(a[0] != b[0] or a[1] != b[1] for a, b in zip(got, want)):
                    errs.append('%s getCoords(%d) disagrees with the partition' % (name, i))
                if list(g.getCoordVals(i)) != [w for _, w in want]:
                    errs.append('%s getCoordVals(%d)' % (name, i))
                if list(g.getGlobalIdxVals(i)) != list(range(L.starts[i], L.ends[i])):
                    errs.append('%s getGlobalIdxVals(%d)' % (name, i))
                try:
                    ge = list(g.getEta(d))
                    if ge != want:
                        errs.append('%s getEta(%d) disagrees with getCoords' % (name, d))
                except Exception as e:
                    errs.append('%s getEta(%d) raised %r' % (name, d, e))
            idx = tuple(max(0, s - 1) for s in L.shape)
            if all(s > 0 for s in L.shape):
                gi = g.getGlobalIndices(*idx)
                want = [None] * R
                for i in range(R):
                    want[L.dims_order[i]] = idx[i] + L.starts[i]
                if list(gi) != want:
                    errs.append('%s getGlobalIndices%s = %s, expected %s' % (name, idx, list(gi), want))
            if g.getAllData().shape != tuple(L.shape):
                errs.append('%s grid block shape' % name)
            owned[name] = (tuple(int(x) for x in L.starts), tuple(int(x) for x in L.ends))
        return errs, owned, h.bufferSize

    res, _ = MPI.run_job(P, job)
    errs = []
    for r, (e, owned, bs) in enumerate(res):
        errs.extend('rank %d: %s' % (r, x) for x in e)
    # every global point owned exactly once per layout (over the ranks of the process grid)
    for name, o in layouts.items():
        cnt = np.zeros([npts[d] for d in o], int)
        for r, (e, owned, bs) in enumerate(res):
            st, en = owned[name]
            cnt[tuple(slice(a, b) for a, b in zip(st, en))] += 1
        # replicated directions: a layout distributed over fewer axes than the grid has is owned by several ranks
        rep = P // int(np.prod([nprocs[k] for k in range(len(nprocs))]))
        if not (cnt == cnt.flat[0]).all() or cnt.flat[0] < 1:
            errs.append('%s: ownership count not uniform/positive: %s' % (name, np.unique(cnt)))
    return errs


# ---------------------------------------------------------------------------------------------
# C01
# ---------------------------------------------------------------------------------------------

def c01_case(npts, nprocs, orders, dtypes=('float',), pairs=None, trace=False):
    from mpi4py import MPI
    from pygyro.model.layout import getLayoutHandler
    P = int(np.prod(nprocs))
    layouts = {'L%d' % k: list(o) for k, o in enumerate(orders)}
    et = eta(npts)
    names = list(layouts)
    allpairs = pairs or [(a, b) for a in names for b in names]

    def job(rank):
        errs = []
        try:
            h = getLayoutHandler(MPI.COMM_WORLD, layouts, list(nprocs), et)
        except RuntimeError as e:
            if 'connected' in str(e):
                return 'unconnected'
            raise
        n_ok = 0
        for dt in dtypes:
            G = global_field(npts, dt)
            for (a, b) in allpairs:
                for with_buf in (False, True):
                    La, Lb = h.getLayout(a), h.getLayout(b)
                    src = np.full(h.bufferSize, -7, dtype=G.dtype)
                    dst = np.full(h.bufferSize, -9, dtype=G.dtype)
                    buf = np.full(h.bufferSize, -11, dtype=G.dtype) if with_buf else None
                    src[:La.size] = local_block(G, La).ravel()
                    src0 = src.copy()
                    try:
                        h.transpose(src, dst, a, b, buf)
                    except (MPI.DeadlockError, MPI.CollectiveMismatch):
                        raise
                    except Exception as e:
                        errs.append(dict(pair=(a, b), buf=with_buf, dtype=dt, detail='raised %r' % (e,)))
                        raise
                    want = local_block(G, Lb)
                    got = dst[:Lb.size].reshape(Lb.shape)
                    if not np.array_equal(got, want):
                        errs.append(dict(pair=(a, b), buf=with_buf, dtype=dt,
                                         detail='destination block differs from the global field in %d of %d entries'
                                         % (int((got != want).sum()), want.size)))
                    elif with_buf and not np.array_equal(src[:La.size], src0[:La.size]):
                        errs.append(dict(pair=(a, b), buf=with_buf, dtype=dt, detail='source block modified although a buffer was given'))
                    else:
                        n_ok += 1
        return errs, n_ok

    try:
        res, traces = MPI.run_job(P, job)
    except Exception as e:
        return [dict(detail='job failed: %r' % (e,))], 0, None
    if any(r == 'unconnected' for r in res):
        return None, 0, None
    errs = []
    n_ok = 0
    for r, (e, k) in enumerate(res):
        for x in e:
            x['rank'] = r
            errs.append(x)
        n_ok += k
    return errs, n_ok, (traces if trace else None)


def orderings(R):
    return list(itertools.permutations(range(R)))


def gen_shape(rng, R, nprocs, style):
    npts = []
    for d in range(R):
        npts.append(int(rng.integers(2, 7)))
    pm = max(nprocs)
    if style == 'tight':      # extents equal to the process count somewhere
        npts = [max(n, pm) for n in npts]
        npts[int(rng.integers(0, R))] = pm
    elif style == 'uneven':
        npts = [max(n, pm) + (1 if (max(n, pm) % pm == 0 and pm > 1) else 0) for n in npts]
    else:
        npts = [max(n, pm) for n in npts]
    return npts


STANDARD4 = [(0, 3, 1, 2), (0, 2, 1, 3), (3, 2, 1, 0)]   # flux_surface, v_parallel, poloidal
STANDARD3 = [(0, 2, 1), (1, 2, 0), (0, 1, 2)]             # v_parallel_2d, mode_solve-like, poloidal-like


def c01_run(tier, seed):
    rng = np.random.default_rng(seed)
    out = dict(evaluated=0, ok=0, failures=[], samples=[], skipped_unconnected=0)
    cases = []
    grids2 = [(1, 1), (2, 1), (1, 2), (2, 2), (1, 3), (3, 1), (2, 3), (3, 2)]
    grids1 = [(1,), (2,), (3,)]
    # the property's own example and the production sets
    cases.append(([4, 5, 7, 8], (1, 3), STANDARD4))
    cases.append(([5, 4, 6, 7], (2, 2), STANDARD4))
    cases.append(([6, 5, 7, 6], (3, 2), STANDARD4))
    cases.append(([5, 6, 7], (2, 3), STANDARD3))
    nrand = 14 if tier == 'quick' else 150
    for _ in range(nrand):
        R = int(rng.integers(2, 5))
        grid = grids2[int(rng.integers(0, len(grids2)))] if rng.integers(0, 4) else grids1[int(rng.integers(0, len(grids1)))]
        if len(grid) > R:
            continue
        style = ['plain', 'tight', 'uneven'][int(rng.integers(0, 3))]
        npts = gen_shape(rng, R, grid, style)
        allo = orderings(R)
        k = int(rng.integers(2, 5))
        sel = [allo[i] for i in rng.choice(len(allo), size=min(k, len(allo)), replace=False)]
        cases.append((npts, grid, sel))
    for (npts, grid, sel) in cases:
        dts = ('float', 'complex', 'int') if (tier != 'quick' or out['evaluated'] < 40) else ('float',)
        errs, n_ok, _ = c01_case(npts, grid, sel, dts)
        if errs is None:
            out['skipped_unconnected'] += 1
            continue
        out['evaluated'] += n_ok + len(errs)
        out['ok'] += n_ok
        if len(out['samples']) < 4:
            out['samples'].append(dict(npts=npts, nprocs=list(grid), orderings=[list(o) for o in sel], transposes_checked=n_ok))
        for e in errs[:2]:
            if len(out['failures']) < 4:
                out['failures'].append(dict(case=dict(npts=npts, nprocs=list(grid), orderings=[list(o) for o in sel]), **e))
    return out


def c01_replay(case):
    errs, n_ok, _ = c01_case(case['npts'], tuple(case['nprocs']), [tuple(o) for o in case['orderings']], ('float', 'complex', 'int'))
    return dict(evaluated=n_ok + len(errs or []), ok=n_ok, failures=[dict(case=case, **e) for e in (errs or [])[:3]])


def c02_run(tier, seed):
    rng = np.random.default_rng(seed)
    out = dict(evaluated=0, ok=0, failures=[], samples=[])
    N = 24 if tier == 'quick' else 80
    for n in range(1, N + 1):
        for p in range(1, n + 1):
            for (nd, pos) in ((2, 0), (3, 2)):
                errs = c02_layout_case(n, p, nd, pos)
                out['evaluated'] += 1
                if errs:
                    if len(out['failures']) < 4:
                        out['failures'].append(dict(case=dict(kind='layout', n=n, p=p, ndims=nd, pos=pos), detail='; '.join(errs[:3])))
                else:
                    out['ok'] += 1
    out['samples'].append(dict(kind='layout', n_range=[1, N], p_range='1..n', exhaustive=True))
    gcases = [([4, 5, 7, 8], (1, 3), STANDARD4), ([5, 4, 6, 7], (2, 2), STANDARD4), ([11, 7, 9], (4, 3), [(0, 1, 2), (2, 1, 0), (0, 2, 1)]),
              ([6, 5, 7, 6], (3, 2), STANDARD4)]
    for _ in range(4 if tier == 'quick' else 40):
        R = int(rng.integers(2, 5))
        grid = [(2, 1), (1, 2), (2, 2), (3, 2), (2, 3), (3,), (2,), (1, 1)][int(rng.integers(0, 8))]
        if len(grid) > R:
            continue
        npts = gen_shape(rng, R, grid, ['plain', 'tight', 'uneven'][int(rng.integers(0, 3))])
        allo = orderings(R)
        sel = [allo[i] for i in rng.choice(len(allo), size=min(3, len(allo)), replace=False)]
        gcases.append((npts, grid, sel))
    for (npts, grid, sel) in gcases:
        try:
            errs = c02_grid_case(npts, grid, sel, seed)
        except RuntimeError as e:
            if 'connected' in str(e):
                continue
            errs = ['job failed: %r' % (e,)]
        except Exception as e:
            errs = ['job failed: %r' % (e,)]
        out['evaluated'] += 1
        if errs:
            if len(out['failures']) < 6:
                out['failures'].append(dict(case=dict(kind='grid', npts=npts, nprocs=list(grid), orderings=[list(o) for o in sel]),
                                            detail='; '.join(errs[:3])))
        else:
            out['ok'] += 1
        if len(out['samples']) < 4:
            out['samples'].append(dict(kind='grid', npts=npts, nprocs=list(grid), orderings=[list(o) for o in sel]))
    return out


def c02_replay(case):
    if case.get('kind') == 'layout':
        errs = c02_layout_case(case['n'], case['p'], case.get('ndims', 2), case.get('pos', 0))
    else:
        errs = c02_grid_case(case['npts'], tuple(case['nprocs']), [tuple(o) for o in case['orderings']], 0)
    return dict(evaluated=1, ok=0 if errs else 1, failures=[dict(case=case, detail='; '.join(errs[:3]))] if errs else [])



# ---------------------------------------------------------------------------------------------
# C03: LayoutSwapper
# ---------------------------------------------------------------------------------------------

def swapper_configs(R):
    """(layout groups, nprocs spec builder) families accepted by the constructor."""
    if R == 3:
        return [
            # the driver's remapperPhi: 2-D distributed, 1-D distributed (two ways)
            ('phi', lambda p0, p1: ([{'v_parallel_2d': [0, 2, 1], 'mode_solve': [1, 2, 0]}, {'v_parallel_1d': [0, 2, 1], 'poloidal': [2, 1, 0]}],
                                    [[p0, p1], p0])),
            ('phi_b', lambda p0, p1: ([{'a2': [0, 2, 1], 'b2': [1, 2, 0]}, {'a1': [0, 2, 1]}], [[p0, p1], [p0]])),
            ('rep', lambda p0, p1: ([{'a2': [0, 2, 1], 'b2': [1, 2, 0]}, {'a1': [0, 2, 1], 'c1': [2, 1, 0]}, {'s': [0, 1, 2]}],
                                    [[p0, p1], [p0], 1]) if False else None),
        ]
    return [
        ('f4', lambda p0, p1: ([{'flux_surface': [0, 3, 1, 2], 'v_parallel': [0, 2, 1, 3], 'poloidal': [3, 2, 1, 0]},
                                {'flux_surface_1d': [0, 3, 1, 2], 'v_parallel_1d': [0, 2, 1, 3]}], [[p0, p1], [p0]])),
    ]


def c03_case(npts, p0, p1, groups, nprocs, start, seqs, dtype='float'):
    from mpi4py import MPI
    from pygyro.model.layout import LayoutSwapper
    P = p0 * p1
    et = eta(npts)
    G = global_field(npts, dtype)

    def job(rank):
        errs = []
        sw = LayoutSwapper(MPI.COMM_WORLD, groups, nprocs, et, start)
        nok = 0
        for (seq, with_buf) in seqs:
            bufs = [np.full(sw.bufferSize, -7.0, dtype=G.dtype) for _ in range(3)]
            cur = seq[0]
            L = sw.getLayout(cur)
            bufs[0][:L.size] = local_block(G, L).ravel()
            a, b = 0, 1
            first_block = bufs[0][:L.size].copy()
            for nxt in seq[1:]:
                before = bufs[a][:sw.getLayout(cur).size].copy()
                sw.transpose(bufs[a], bufs[b], cur, nxt, bufs[2] if with_buf else None)
                Ln = sw.getLayout(nxt)
                got = bufs[b][:Ln.size].reshape(Ln.shape)
                want = local_block(G, Ln)
                if not np.array_equal(got, want):
                    errs.append(dict(seq=seq, buf=with_buf, step=(cur, nxt),
                                     detail='after %s -> %s the block differs from the global field in %d of %d entries'
                                     % (cur, nxt, int((got != want).sum()), want.size)))
                    break
                if with_buf and not np.array_equal(bufs[a][:len(before)], before):
                    errs.append(dict(seq=seq, buf=with_buf, step=(cur, nxt), detail='source block modified although a buffer was given'))
                    break
                nok += 1
                a, b = b, a
                cur = nxt
        return errs, nok

    try:
        res, traces = MPI.run_job(P, job)
    except Exception as e:
        return [dict(detail='job failed: %r' % (e,))], 0
    errs, nok = [], 0
    for r, (e, k) in enumerate(res):
        for x in e:
            x['rank'] = r
            errs.append(x)
        nok += k
    return errs, nok


def c03_run(tier, seed):
    rng = np.random.default_rng(seed)
    out = dict(evaluated=0, ok=0, failures=[], samples=[])
    grids = [(1, 1), (2, 1), (1, 2), (2, 2), (2, 3), (3, 2), (1, 3), (3, 1)]
    ncfg = 10 if tier == 'quick' else 80
    for it in range(ncfg):
        R = 3 if rng.integers(0, 3) else 4
        fam = [f for f in swapper_configs(R) if f[1](2, 2) is not None]
        name, build = fam[int(rng.integers(0, len(fam)))]
        p0, p1 = grids[int(rng.integers(0, len(grids)))] if it >= len(grids) else grids[it]
        groups, nprocs = build(p0, p1)
        style = ['plain', 'tight', 'uneven'][int(rng.integers(0, 3))]
        npts = gen_shape(rng, R, (p0, p1), style)
        names = [n for g in groups for n in g]
        seqs = []
        for a in names:
            for b in names:
                if a != b:
                    seqs.append(([a, b, a], bool(rng.integers(0, 2))))
        for _ in range(4):
            seqs.append(([names[i] for i in rng.integers(0, len(names), 5)], bool(rng.integers(0, 2))))
        seqs = [(s_, bf) for (s_, bf) in seqs if all(x != y for x, y in zip(s_, s_[1:]))]
        case = dict(npts=npts, p0=p0, p1=p1, family=name, R=R)
        try:
            errs, nok = c03_case(npts, p0, p1, groups, nprocs, names[0], seqs)
        except Exception as e:
            errs, nok = [dict(detail='job failed: %r' % (e,))], 0
        out['evaluated'] += nok + len(errs)
        out['ok'] += nok
        if len(out['samples']) < 4:
            out['samples'].append(dict(case, sequences=len(seqs)))
        for e in errs[:2]:
            if len(out['failures']) < 4:
                out['failures'].append(dict(case=dict(case, seqs=[[s_, bf] for (s_, bf) in seqs]), **e))
    return out


def c03_replay(case):
    fam = dict((f[0], f[1]) for f in swapper_configs(case['R']))
    groups, nprocs = fam[case['family']](case['p0'], case['p1'])
    names = [n for g in groups for n in g]
    seqs = [(s_, bf) for s_, bf in case['seqs']]
    errs, nok = c03_case(case['npts'], case['p0'], case['p1'], groups, nprocs, names[0], seqs)
    return dict(evaluated=nok + len(errs), ok=nok, failures=[dict(case=case, **e) for e in errs[:3]])


# ---------------------------------------------------------------------------------------------
# C04: Grid operation sequences against one undistributed array
# ---------------------------------------------------------------------------------------------

OPS = ['save', 'restore', 'free', 'write', 'L0', 'L1', 'L2']


def c04_case(npts, nprocs, orders, seq, save_mem, dtype):
    from mpi4py import MPI
    from pygyro.model.layout import getLayoutHandler
    from pygyro.model.grid import Grid
    P = int(np.prod(nprocs))
    layouts = {'L%d' % k: list(o) for k, o in enumerate(orders)}
    et = eta(npts)
    R = len(npts)

    def job(rank):
        h = getLayoutHandler(MPI.COMM_WORLD, layouts, list(nprocs), et)
        g = Grid(et, [None] * R, h, 'L0', allocateSaveMemory=save_mem, dtype=complex if dtype == 'complex' else float)
        G = global_field(npts, dtype).astype(g.getAllData().dtype)
        g.getAllData()[:] = local_block(G, h.getLayout('L0'))
        model = dict(G=G.copy(), name='L0', saved=None)
        wcount = 0
        for k, op in enumerate(seq):
            refused = False
            try:
                if op == 'save':
                    g.saveGridValues()
                elif op == 'restore':
                    g.restoreGridValues()
                elif op == 'free':
                    g.freeGridSave()
                elif op == 'write':
                    wcount += 1
                    newG = model['G'] * 2 + wcount
                    g.getAllData()[:] = local_block(newG, h.getLayout(g.currentLayout))
                else:
                    g.setLayout(op)
            except AssertionError:
                refused = True
            # model
            must_refuse = False
            if op == 'save':
                must_refuse = (not save_mem) or model['saved'] is not None
                if not must_refuse:
                    model['saved'] = (model['G'].copy(), model['name'])
            elif op == 'restore':
                must_refuse = (not save_mem) or model['saved'] is None
                if not must_refuse:
                    model['G'], model['name'] = model['saved']
                    model['saved'] = None
            elif op == 'free':
                must_refuse = (not save_mem) or model['saved'] is None
                if not must_refuse:
                    model['saved'] = None
            elif op == 'write':
                model['G'] = model['G'] * 2 + wcount
            else:
                model['name'] = op
            if refused != must_refuse:
                return 'step %d (%s): %s' % (k, op, 'refused although allowed' if refused else 'accepted although it must be refused')
            if g.currentLayout != model['name']:
                return 'step %d (%s): layout is %s, model says %s' % (k, op, g.currentLayout, model['name'])
            L = h.getLayout(model['name'])
            want = local_block(model['G'], L)
            got = g.getAllData()
            if got.shape != want.shape or not np.array_equal(got, want):
                return 'step %d (%s): visible data differs from the global-array model' % (k, op)
        return None

    try:
        res, _ = MPI.run_job(P, job)
    except Exception as e:
        return 'job failed: %r' % (e,)
    for r, e in enumerate(res):
        if e:
            return 'rank %d: %s' % (r, e)
    return None


def c04_run(tier, seed):
    rng = np.random.default_rng(seed)
    out = dict(evaluated=0, ok=0, failures=[], samples=[])
    setups = [([3, 4, 5], (1,), [(0, 1, 2), (1, 0, 2), (2, 1, 0)]),
              ([4, 5, 3], (2,), [(0, 1, 2), (1, 0, 2), (2, 1, 0)]),
              ([4, 3, 5, 4], (2, 2), STANDARD4)]
    maxlen = 5 if tier == 'quick' else 6
    # exhaustive short sequences on the single-process setup (both with and without save memory)
    npts, grid, orders = setups[0]
    for save_mem in (True, False):
        ops = OPS if save_mem else ['save', 'restore', 'write', 'L1', 'L2']
        for n in range(1, (maxlen if save_mem else 3) + 1):
            for seq in itertools.product(ops, repeat=n):
                e = c04_case_fast(npts, grid, orders, list(seq), save_mem, 'float')
                out['evaluated'] += 1
                if e:
                    if len(out['failures']) < 3:
                        out['failures'].append(dict(case=dict(npts=npts, nprocs=list(grid), orderings=[list(o) for o in orders], seq=list(seq),
                                                              save_mem=save_mem, dtype='float'), detail=e))
                else:
                    out['ok'] += 1
    out['samples'].append(dict(kind='exhaustive', max_len=maxlen, ops=OPS, setup=dict(npts=npts, nprocs=list(grid))))
    # random longer sequences on distributed setups
    for _ in range(12 if tier == 'quick' else 150):
        npts, grid, orders = setups[int(rng.integers(1, len(setups)))]
        seq = [OPS[i] for i in rng.integers(0, len(OPS), int(rng.integers(6, 25)))]
        save_mem = bool(rng.integers(0, 4))
        dt = 'complex' if rng.integers(0, 3) == 0 else 'float'
        e = c04_case(npts, grid, orders, seq, save_mem, dt)
        out['evaluated'] += 1
        if e:
            if len(out['failures']) < 4:
                out['failures'].append(dict(case=dict(npts=npts, nprocs=list(grid), orderings=[list(o) for o in orders], seq=seq,
                                                      save_mem=save_mem, dtype=dt), detail=e))
        else:
            out['ok'] += 1
        if len(out['samples']) < 4:
            out['samples'].append(dict(kind='random', npts=npts, nprocs=list(grid), seq=seq, save_mem=save_mem, dtype=dt))
    return out


_fast = {}


def c04_case_fast(npts, nprocs, orders, seq, save_mem, dtype):
    """Single-process variant without thread start-up (the job function runs in the calling thread)."""
    return c04_case(npts, nprocs, orders, seq, save_mem, dtype)


def c04_replay(case):
    e = c04_case(case['npts'], tuple(case['nprocs']), [tuple(o) for o in case['orderings']], case['seq'], case['save_mem'], case['dtype'])
    return dict(evaluated=1, ok=0 if e else 1, failures=[dict(case=case, detail=e)] if e else [])


RUN = {'C01': c01_run, 'C02': c02_run, 'C03': c03_run, 'C04': c04_run}
REPLAY = {'C01': c01_replay, 'C02': c02_replay, 'C03': c03_replay, 'C04': c04_replay}


def main():
    prop, tier, seed, repo = sys.argv[1], sys.argv[2], int(sys.argv[3]), sys.argv[4]
    _setup(repo)
    t0 = time.time()
    try:
        if len(sys.argv) > 5:
            case = json.load(open(sys.argv[5]))
            out = REPLAY[prop](case.get('case', case))
        else:
            out = RUN[prop](tier, seed)
        out.setdefault('errors', [])
    except Exception:
        out = dict(evaluated=0, ok=0, failures=[], samples=[], errors=[traceback.format_exc()[-1500:]])
    out['wall_s'] = round(time.time() - t0, 2)
    json.dump(out, sys.stdout, default=lambda o: o.tolist() if hasattr(o, 'tolist') else str(o))


if __name__ == '__main__':
    main()
