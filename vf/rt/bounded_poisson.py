"""Bounded stand-ins for the field-solver properties C14 (radial Galerkin solve), C15 (quasi-neutrality pipeline) and
C16 (density = velocity integral of the interpolated distribution).

The REAL classes of <repo>/pygyro/poisson/poisson_solver.py run on real Layout/LayoutHandler/LayoutSwapper/Grid objects under
the simulated MPI of vf/shim (process grids 1x1, 2x1, 1x2, 2x2, 3x2 with uneven blocks); every expected value comes from an
independent oracle written from the property statement:
  * C14/C15: a dense Galerkin assembly (scipy.interpolate.BSpline on the clamped knot vector of the break points, own
    Gauss-Legendre rule per cell, numpy.linalg.solve), manufactured polynomial solutions, an explicit DFT matrix;
  * C16: exact integration (BSpline.integrate) of scipy's interpolating spline, analytic integrals of polynomials, and the
    equilibrium formula written out here.
Never counted as proved.

python -m vf.rt.bounded_poisson <C14|C15|C16> <tier> <seed> <repo> [case.json]  -> ONE JSON object on stdout
"""
import json
import sys
import time
import traceback
import warnings

import numpy as np

warnings.filterwarnings('ignore')
from .bounded_layout import _setup, local_block  # noqa

EPS = float(np.finfo(float).eps)
GRIDS = [(1, 1), (2, 1), (1, 2), (2, 2), (3, 2)]
MAXFAIL = 8


# =============================================================================================
# independent mathematics
# =============================================================================================

def mkfun(spec, default):
    """spec = [c0, c1, c2, cm1, ce]  ->  r -> c0 + c1 r + c2 r^2 + cm1/r + ce exp(-r/2);  None -> the constant `default`."""
    if spec is None:
        c = [float(default), 0.0, 0.0, 0.0, 0.0]
    else:
        c = [float(x) for x in spec]

    def f(r):
        return c[0] + c[1] * r + c[2] * r * r + c[3] / r + c[4] * np.exp(-0.5 * r)
    return f


def is_null(spec):
    return spec is None or all(float(x) == 0.0 for x in spec)


def clamped_knots(breaks, p):
    return np.concatenate([[breaks[0]] * p, np.asarray(breaks, float), [breaks[-1]] * p])


def make_breaks(a, b, ncells, kind):
    s = np.linspace(0.0, 1.0, ncells + 1)
    if kind == 'graded':
        s = s ** 1.6
    return a + (b - a) * s


def basis_matrix(t, p, x, der=0):
    """(len(x), nbasis) values of all clamped B-splines (or a derivative) at x."""
    from scipy.interpolate import BSpline
    nb = len(t) - p - 1
    s = BSpline(t, np.eye(nb), p)
    if der:
        s = s.derivative(der)
    return np.asarray(s(np.asarray(x, float)))


class Galerkin:
    """Dense weak form of  A phi'' + B phi' + C phi - m^2 D phi = E rho  in the measure r dr on the spline space of degree p over
    `breaks`, A constant; the second-derivative term integrated by parts (boundary term dropped: it vanishes for test
    functions that are zero at a Dirichlet end and it is the natural condition phi' = 0 at a Neumann end).
    Quadrature: nq Gauss-Legendre points on every cell."""

    def __init__(self, breaks, p, nq, A, fB, fC, fD, fE, nodes):
        from scipy.special import roots_legendre
        xi, wi = roots_legendre(int(nq))
        breaks = np.asarray(breaks, float)
        self.p, self.breaks = p, breaks
        self.t = clamped_knots(breaks, p)
        self.nb = len(breaks) - 1 + p
        mid = 0.5 * (breaks[1:] + breaks[:-1])
        half = 0.5 * (breaks[1:] - breaks[:-1])
        x = (mid[:, None] + half[:, None] * xi[None, :]).ravel()
        w = (half[:, None] * wi[None, :]).ravel()
        self.x, self.w = x, w
        N0 = basis_matrix(self.t, p, x)
        N1 = basis_matrix(self.t, p, x, 1)
        self.N0 = N0
        Bx = fB(x) * np.ones_like(x)
        Cx = fC(x) * np.ones_like(x)
        Dx = fD(x) * np.ones_like(x)
        Ex = fE(x) * np.ones_like(x)
        # row = test function, column = trial function
        self.K0 = N1.T @ ((w * (-A) * x)[:, None] * N1) + N0.T @ ((w * (-A + Bx * x))[:, None] * N1)
        self.KC = N0.T @ ((w * Cx * x)[:, None] * N0)
        self.KD = N0.T @ ((w * Dx * x)[:, None] * N0)
        self.M = N0.T @ ((w * Ex * x)[:, None] * N0)
        self.Ex = Ex
        self.nodes = np.asarray(nodes, float)
        self.Bn = basis_matrix(self.t, p, self.nodes)

    def _solve(self, K, rhs, lN, uN):
        nb = self.nb
        idx = np.arange(0 if lN else 1, nb - (0 if uN else 1))
        Ks = K[np.ix_(idx, idx)]
        c = np.zeros(nb, complex)
        c[idx] = np.linalg.solve(Ks, rhs[idx])
        return c, float(np.linalg.cond(Ks))

    def stiffness(self, m2, with_C=True):
        return self.K0 + (self.KC if with_C else 0.0) - m2 * self.KD

    def solve_nodes(self, m2, lN, uN, rho_nodes, with_C=True):
        """rho given by its values at the radial nodes: interpolated in the spline space, then projected."""
        cr = np.linalg.solve(self.Bn.astype(complex), np.asarray(rho_nodes, complex))
        c, cond = self._solve(self.stiffness(m2, with_C), self.M @ cr, lN, uN)
        return c, self.Bn @ c, cond

    def solve_func(self, m2, lN, uN, rhofun, with_E=True):
        r = rhofun(self.x) * np.ones_like(self.x)
        rhs = self.N0.T @ (self.w * self.x * r * (self.Ex if with_E else 1.0))
        c, cond = self._solve(self.stiffness(m2), rhs.astype(complex), lN, uN)
        return c, self.Bn @ c, cond


def dft_matrix(n):
    k = np.arange(n)
    return np.exp(-2j * np.pi * np.outer(k, k) / n)


def mode_numbers(n):
    """Signed mode numbers in DFT order: 0,1,...,ceil(n/2)-1,-floor(n/2),...,-1."""
    k = np.arange(n)
    return np.where(k < (n + 1) // 2, k, k - n)


def interp_integrals(vbreaks, p, vpts, Y):
    """Integral over the whole v domain of the degree-p spline (break points vbreaks) interpolating Y[..., :] at vpts."""
    from scipy.interpolate import make_interp_spline
    t = clamped_knots(vbreaks, p)
    s = make_interp_spline(np.asarray(vpts, float), np.moveaxis(np.asarray(Y, float), -1, 0), k=p, t=t)
    return np.asarray(s.integrate(vbreaks[0], vbreaks[-1]))


def own_n0(r, c):
    return c['CN0'] * np.exp(-c['kN0'] * c['deltaRN0'] * np.tanh((r - c['rp']) / c['deltaRN0']))


def own_Ti(r, c):
    return c['CTi'] * np.exp(-c['kTi'] * c['deltaRTi'] * np.tanh((r - c['rp']) / c['deltaRTi']))


def own_Te(r, c):
    return c['CTe'] * np.exp(-c['kTe'] * c['deltaRTe'] * np.tanh((r - c['rp']) / c['deltaRTe']))


def own_dlogn0(r, c):
    return -c['kN0'] * (1.0 - np.tanh((r - c['rp']) / c['deltaRN0']) ** 2)


def own_feq(r, v, c):
    T = own_Ti(r, c)
    return own_n0(r, c) * np.exp(-0.5 * v * v / T) / np.sqrt(2.0 * np.pi * T)


# =============================================================================================
# building the real objects
# =============================================================================================

def radial_spline(p, ncells, dom, uniform, kind='uniform'):
    from pygyro import splines as spl
    breaks = make_breaks(dom[0], dom[1], ncells, kind)
    return spl.BSplines(spl.make_knots(breaks, int(p), False), int(p), False, bool(uniform) and kind == 'uniform'), breaks


def periodic_spline(n, lo, hi):
    from pygyro import splines as spl
    d = 3 if n >= 4 else 1
    breaks = np.linspace(lo, hi, n + 1)
    return spl.BSplines(spl.make_knots(breaks, d, True), d, True, True)


def make_constants(cdict):
    from pygyro.initialisation.constants import Constants
    c = Constants()
    for k, v in cdict.items():
        if k not in ('rp', 'CN0'):
            setattr(c, k, v)
    c.getCN0()
    return c


def constants_dict(c):
    keys = ['CN0', 'kN0', 'deltaRN0', 'rp', 'CTi', 'kTi', 'deltaRTi', 'CTe', 'kTe', 'deltaRTe', 'R0', 'deltaR']
    return {k: float(getattr(c, k)) for k in keys}


def rand_constants(rng, dom, vdom=(-5.0, 5.0)):
    """Physical parameters, deliberately all different (defaults have Te == Ti)."""
    return dict(rMin=float(dom[0]), rMax=float(dom[1]), vMin=float(vdom[0]), vMax=float(vdom[1]),
                kN0=round(float(rng.uniform(0.03, 0.09)), 4), kTi=round(float(rng.uniform(0.15, 0.35)), 4),
                kTe=round(float(rng.uniform(0.05, 0.14)), 4), deltaRTi=round(float(rng.uniform(1.0, 1.6)), 3),
                deltaRTe=round(float(rng.uniform(1.7, 2.4)), 3), deltaRN0=round(float(rng.uniform(2.5, 3.5)), 3),
                CTi=round(float(rng.uniform(0.8, 1.2)), 3), CTe=round(float(rng.uniform(1.3, 1.7)), 3), eps=0.0)


def assemble(res, key, npts):
    """Global array in natural dimension order from the per-rank blocks res[rank][key] = (dims_order, starts, block)."""
    order = res[0][key][0]
    dt = res[0][key][2].dtype
    G = np.full([npts[d] for d in order], np.nan, dtype=dt)
    cnt = np.zeros(G.shape, int)
    for r in res:
        _, st, blk = r[key]
        sl = tuple(slice(s, s + n) for s, n in zip(st, blk.shape))
        G[sl] = blk
        cnt[sl] += 1
    if (cnt != 1).any():
        raise RuntimeError('blocks of %s do not tile the global array' % key)
    return np.transpose(G, np.argsort(order))


def block_of(g):
    L = g.getLayout(g.currentLayout)
    return (tuple(int(d) for d in L.dims_order), tuple(int(s) for s in L.starts), g.getAllData().copy())


def relerr(a, b, scale=None):
    a, b = np.asarray(a), np.asarray(b)
    if a.shape != b.shape:
        return float('inf')
    s = float(np.max(np.abs(b))) if scale is None else float(scale)
    d = np.abs(a - b)
    if not np.isfinite(d).all():
        return float('inf')
    return float(np.max(d)) / max(s, 1e-300)


class Tally:
    def __init__(self):
        self.evaluated = 0
        self.ok = 0
        self.failures = []
        self.samples = []
        self.errors = []
        self.nfail = {}
        self.ngrp = {}
        self.skipped = 0

    def check(self, good, case, detail, cls='general'):
        """One check. Failures are counted per class in `failure_classes`; at most 2 per class group are written out (1 for the
        two classes known on the unchanged tree) so that one class cannot hide another one."""
        self.evaluated += 1
        if good:
            self.ok += 1
        else:
            self.nfail[cls] = self.nfail.get(cls, 0) + 1
            grp = cls.split('/')[0]
            self.ngrp[grp] = self.ngrp.get(grp, 0) + 1
            lim = 1 if grp == 'function_rhs_ignores_E' else 2
            if self.ngrp[grp] <= lim and len(self.failures) < MAXFAIL:
                self.failures.append(dict(case=case, detail='[%s] %s' % (cls, detail)))
        return good

    def out(self):
        return dict(evaluated=self.evaluated, ok=self.ok, failures=self.failures, samples=self.samples[:5], errors=self.errors,
                    failure_classes=self.nfail, skipped_ill_conditioned=self.skipped)


def run_ranks(grid, job, timeout=300):
    from mpi4py import MPI
    res, _ = MPI.run_job(int(np.prod(grid)), job, timeout=timeout)
    return res


def rand_complex(rng, shape):
    return rng.uniform(-1, 1, shape) + 1j * rng.uniform(-1, 1, shape)


# =============================================================================================
# C14
# =============================================================================================

def c14_fields(case):
    """The global right-hand sides (natural order r,theta,z) of a 'solve' case."""
    nr = case['ncells'] + case['p']
    rng = np.random.default_rng(case['seed'])
    shp = (nr, case['ntheta'], case['nz'])
    rho1 = rand_complex(rng, shp)
    rho2 = rand_complex(rng, shp)
    a, b = 0.7 - 0.4j, -1.3 + 0.25j
    k = int(rng.integers(0, case['ntheta']))
    rho4 = rho1.copy()
    rho4[:, k, :] = rand_complex(rng, (nr, case['nz']))
    return dict(rho1=rho1, rho2=rho2, rho3=a * rho1 + b * rho2, rho4=rho4, a=a, b=b, k=k)


def c14_solver_kwargs(case):
    kw = {}
    for name, key, dflt in (('drFactor', 'B', 0.0), ('rFactor', 'C', 0.0), ('ddThetaFactor', 'D', -1.0), ('rhoFactor', 'E', 1.0)):
        if case.get(key) is not None:
            kw[name] = mkfun(case[key], dflt)
    if case.get('A') is not None:
        Aval = float(case['A'])
        kw['ddrFactor'] = lambda r: Aval
    if case.get('lN') is not None:
        kw['lNeumannIdx'] = list(case['lN'])
    if case.get('uN') is not None:
        kw['uNeumannIdx'] = list(case['uN'])
    return kw


def c14_oracle(case, nodes, breaks, extra_pts=0):
    A = -1.0 if case.get('A') is None else float(case['A'])
    nq = case['qdeg'] // 2 + 1 + extra_pts
    return Galerkin(breaks, case['p'], nq, A, mkfun(case.get('B'), 0.0), mkfun(case.get('C'), 0.0), mkfun(case.get('D'), -1.0),
                    mkfun(case.get('E'), 1.0), nodes)


def c14_job(case, grid, fields, rhofun_spec):
    """Runs on every rank: one solver object, several calls; returns the local blocks."""
    def job(rank):
        from mpi4py import MPI
        from pygyro.model.layout import getLayoutHandler
        from pygyro.model.grid import Grid
        from pygyro.poisson.poisson_solver import DiffEqSolver
        comm = MPI.COMM_WORLD
        rs, _ = radial_spline(case['p'], case['ncells'], case['dom'], case['uniform'], case.get('breaks', 'uniform'))
        bs = [rs, periodic_spline(case['ntheta'], 0.0, 2 * np.pi), periodic_spline(case['nz'], 0.0, 1.0)]
        et = [b.greville for b in bs]
        nr = et[0].size
        h = getLayoutHandler(comm, {'mode_solve': [1, 2, 0]}, list(grid), et)
        ps = DiffEqSolver(case['qdeg'], rs, nr, case['ntheta'], **c14_solver_kwargs(case))
        L = h.getLayout('mode_solve')
        phi = Grid(et, bs, h, 'mode_solve', comm, dtype=np.complex128)
        rho = Grid(et, bs, h, 'mode_solve', comm, dtype=np.complex128)
        out = {'flags': []}

        def solve(name, G):
            rho.getAllData()[:] = local_block(G, L)
            phi.getAllData()[:] = 7.5e3 - 3.25e3j
            before = rho.getAllData().copy()
            ps.solveEquation(phi, rho)
            if not np.array_equal(before, rho.getAllData()):
                out['flags'].append('%s: solveEquation modified its right-hand side grid' % name)
            out[name] = block_of(phi)

        for name in case.get('calls', ['rho1', 'rho2', 'rho1', 'rho3', 'rho4']):
            key = name if name not in out else name + '_again'
            solve(key, fields[name])
            if key == 'rho1':
                # coefficients left in the solver after the last (mode, z) of this rank
                cf = getattr(ps, '_coeffs', None)
                out['coeffs'] = (int(L.ends[0]) - 1, int(L.ends[1]) - 1, None if cf is None else np.array(cf, complex))
        if rhofun_spec is not None:
            phi.getAllData()[:] = 7.5e3 - 3.25e3j
            ps.solveEquationForFunction(phi, mkfun(rhofun_spec, 0.0))
            out['func'] = block_of(phi)
            # and a discrete solve after the function solve on the same object
            solve('rho2_after_func', fields['rho2'])
        return out
    return job


def c14_expected(orc, case, G):
    """Oracle field (r, theta, z) for the discrete right-hand side G; also the worst condition number."""
    ms = mode_numbers(case['ntheta'])
    lN, uN = set(case.get('lN') or []), set(case.get('uN') or [])
    want = np.zeros(G.shape, complex)
    coefs = {}
    cond = 1.0
    for k, m in enumerate(ms):
        for j in range(G.shape[2]):
            c, vals, cd = orc.solve_nodes(float(m) ** 2, int(m) in lN, int(m) in uN, G[:, k, j])
            want[:, k, j] = vals
            coefs[(k, j)] = c
            cond = max(cond, cd)
    return want, coefs, cond


def c14_solve_case(case, T, grids=None):
    grids = [tuple(g) for g in (grids or case.get('grids') or GRIDS)]
    nr = case['ncells'] + case['p']
    npts = [nr, case['ntheta'], case['nz']]
    fields = c14_fields(case)
    rs, breaks = radial_spline(case['p'], case['ncells'], case['dom'], case['uniform'], case.get('breaks', 'uniform'))
    nodes = np.array(rs.greville, float)
    orc = c14_oracle(case, nodes, breaks, 2 if case.get('exactq') else 0)
    exp = {}
    cond = 1.0
    for nm in ('rho1', 'rho2', 'rho3', 'rho4'):
        exp[nm], cf, cd = c14_expected(orc, case, fields[nm])
        cond = max(cond, cd)
        if nm == 'rho1':
            coefs1 = cf
    if cond > 1e9:
        return False
    tol = max(1e-10, 400 * cond * EPS)
    ms = mode_numbers(case['ntheta'])
    lN, uN = set(case.get('lN') or []), set(case.get('uN') or [])
    fspec = case.get('rhofun')
    if fspec is not None:
        f_with = np.zeros((nr, case['ntheta']), complex)
        f_without = np.zeros((nr, case['ntheta']), complex)
        for k, m in enumerate(ms):
            f_with[:, k] = orc.solve_func(float(m) ** 2, int(m) in lN, int(m) in uN, mkfun(fspec, 0.0), True)[1]
            f_without[:, k] = orc.solve_func(float(m) ** 2, int(m) in lN, int(m) in uN, mkfun(fspec, 0.0), False)[1]
    first = None
    pre = 'nonuniform_breaks/' if case.get('breaks', 'uniform') != 'uniform' else ''
    for g in grids:
        if g[0] > case['ntheta'] or g[1] > case['nz']:
            continue
        cs = dict(case, grids=[list(g)])
        try:
            res = run_ranks(g, c14_job(case, g, fields, fspec))
        except Exception as e:
            T.check(False, cs, 'process grid %s: the run raised %s: %s' % (list(g), type(e).__name__, str(e)[:300]), pre + 'raised')
            continue
        got = {k: assemble(res, k, npts) for k in res[0] if k not in ('flags', 'coeffs')}
        for r in res:
            for fl in r['flags']:
                T.check(False, cs, fl, pre + 'rhs_modified')
        desc = 'degree %d, %d cells (%s%s), quadrature exactness %d, grid %s' % (
            case['p'], case['ncells'], case.get('breaks', 'uniform'), ', uniform-cubic object' if (case['uniform'] and case['p'] == 3) else '',
            case['qdeg'], list(g))
        # (a) dense oracle, first and second call on the same object
        for nm in ('rho1', 'rho2'):
            e = relerr(got[nm], exp[nm])
            T.check(e <= tol, cs, '%s: solveEquation(%s) differs from the independent dense Galerkin solution: relative max error %.3e '
                    '(tolerance %.1e, cond %.1e); worst mode %s' % (desc, nm, e, tol, cond, _worst_mode(got[nm], exp[nm], ms)), pre + 'dense_oracle')
        # (b) repeated call with the first right-hand side after another one: same answer
        e = relerr(got['rho1_again'], got['rho1'])
        T.check(e <= 1e-13, cs, '%s: solving the same right-hand side again on the same solver object changed the result by %.3e (relative)' % (desc, e), pre + 'repeated_call')
        # (c) linearity (direct, no oracle)
        lin = fields['a'] * got['rho1'] + fields['b'] * got['rho2']
        e = relerr(got['rho3'], lin)
        T.check(e <= tol, cs, '%s: phi(a rho1 + b rho2) differs from a phi(rho1) + b phi(rho2) by %.3e (relative)' % (desc, e), pre + 'linearity')
        # (d) zero at Dirichlet ends
        sc = float(np.max(np.abs(exp['rho1'])))
        worst = 0.0
        wm = None
        for k, m in enumerate(ms):
            if int(m) not in lN and np.max(np.abs(got['rho1'][0, k, :])) > worst:
                worst, wm = float(np.max(np.abs(got['rho1'][0, k, :]))), (int(m), 'lower')
            if int(m) not in uN and np.max(np.abs(got['rho1'][-1, k, :])) > worst:
                worst, wm = float(np.max(np.abs(got['rho1'][-1, k, :]))), (int(m), 'upper')
        T.check(worst <= 1e-13 * sc, cs, '%s: Dirichlet mode %s is %.3e at its Dirichlet boundary (field scale %.2e)' % (desc, wm, worst, sc), pre + 'dirichlet_zero')
        # (e) modes independent: only the right-hand side of mode index k changed
        k = fields['k']
        other = [i for i in range(case['ntheta']) if i != k]
        e = relerr(got['rho4'][:, other, :], got['rho1'][:, other, :]) if other else 0.0
        e2 = relerr(got['rho4'], exp['rho4'])
        T.check(e <= 1e-13, cs, '%s: changing only the right-hand side of mode index %d changed the other modes by %.3e (relative)'
                % (desc, k, e), pre + 'mode_independence')
        T.check(e2 <= tol, cs, '%s: solveEquation(rho4) (fifth call on the object) differs from the independent dense Galerkin solution: %.3e relative '
                '(tolerance %.1e)' % (desc, e2, tol), pre + 'dense_oracle')
        # (f) the coefficient vector left in the solver (last mode / last z of each rank)
        bad = None
        for r in res:
            kk, jj, cf = r['coeffs']
            if cf is None:
                continue
            want = coefs1[(kk, jj)]
            ee = relerr(cf, want, max(np.max(np.abs(want)), 1e-300))
            if ee > tol:
                bad = 'mode index %d, z index %d: relative error %.3e' % (kk, jj, ee)
        T.check(bad is None, cs, '%s: spline coefficients left in the solver differ from the oracle coefficients (%s)' % (desc, bad), pre + 'coefficients')
        # (g) right-hand side given as a function
        if fspec is not None:
            gf = got['func']
            same_z = max(relerr(gf[:, :, j], gf[:, :, 0]) for j in range(case['nz']))
            e = relerr(gf[:, :, 0], f_with)
            ew = relerr(gf[:, :, 0], f_without)
            T.check(e <= tol and same_z <= 1e-13, cs, '%s: solveEquationForFunction differs from the dense Galerkin solution of "... = E rho" with '
                    'quadrature of the function right-hand side: relative error %.3e (tolerance %.1e); against a solution whose right-hand '
                    'side omits the factor E: %.3e; variation over z %.1e' % (desc, e, tol, ew, same_z),
                    pre + ('function_rhs_ignores_E' if (ew <= tol < e and not is_null(case.get('E'))) else 'function_rhs'))
            e = relerr(got['rho2_after_func'], got['rho2'])
            T.check(e <= 1e-13, cs, '%s: a discrete solve after a function solve on the same object differs from the earlier one by %.3e' % (desc, e), pre + 'repeated_call')
        # (h) process-grid independence
        for k2, k in (('second_pert_eqp', 'pert_eqp'), ('second_rho_F1', 'rho_F1')):
            if k2 in got:
                e = relerr(got[k2].real, exp[k], scales[k])
                T.check(e <= tol, dict(cs, second_grid=[g[1], g[0]]),
                        '%s: the same DensityFinder used afterwards on grids distributed over process grid %s: %s differs from the exact '
                        'integral%s: %.3e relative to the scale %.3g (tolerance %.1e)%s'
                        % (desc, [g[1], g[0]], names[k], ' minus the equilibrium integral at the own radius' if k.startswith('pert') else '',
                           e, scales[k], tol, _c16_diag(got[k2].real, exp[k])), 'finder_reuse')
        if first is None:
            first = (g, got)
        else:
            e = max(relerr(got[nm], first[1][nm]) for nm in ('rho1', 'rho2', 'rho3', 'rho4'))
            T.check(e <= 1e-12, dict(case, grids=[list(first[0]), list(g)]),
                    '%s: result differs from the one on process grid %s by %.3e (relative)' % (desc, list(first[0]), e), pre + 'process_grid')
    return True


def _worst_mode(got, want, ms):
    if got.shape != want.shape:
        return 'shape mismatch'
    d = np.abs(got - want)
    d = np.where(np.isfinite(d), d, np.inf)
    k = int(np.argmax(d.max(axis=(0, 2))))
    r = int(np.argmax(d[:, k, :].max(axis=1)))
    return 'm=%d (r index %d)' % (int(ms[k]), r)


def poly_with_bc(rng, p, a, b, bc):
    """Random polynomial of degree <= p with phi=0 at a Dirichlet end and phi'=0 at a Neumann end. bc in DD, ND, DN, NN."""
    from numpy.polynomial import Polynomial as P
    co = rng.integers(-4, 5, p + 1).astype(float)
    co[p] = 1.0 + abs(co[p])
    free = (1, 2) if bc == 'NN' else (0, 1)
    for f in free:
        co[f] = 0.0
    base = P(co)
    rows, rhs = [], []
    for x, kind in ((a, bc[0]), (b, bc[1])):
        if kind == 'D':
            rows.append([x ** f for f in free])
            rhs.append(-base(x))
        else:
            rows.append([f * x ** (f - 1) if f > 0 else 0.0 for f in free])
            rhs.append(-base.deriv()(x))
    sol = np.linalg.solve(np.array(rows, float), np.array(rhs, float))
    for f, s in zip(free, sol):
        co[f] = s
    return [float(c) for c in co]


def c14_manufactured_case(case, T, grids=None):
    """phi* polynomial in the spline space satisfying the boundary conditions of its mode; rho = (A phi*'' + B phi*' + C phi* - m^2 D phi*)/E
    is a polynomial of degree <= p (B linear, C, D, E constant), all integrals are exact with the requested rule, hence the
    Galerkin solution IS phi*."""
    from numpy.polynomial import Polynomial as P
    grids = [tuple(g) for g in (grids or case.get('grids') or GRIDS)]
    p = case['p']
    nr = case['ncells'] + p
    npts = [nr, case['ntheta'], case['nz']]
    a, b = case['dom']
    rs, breaks = radial_spline(p, case['ncells'], case['dom'], case['uniform'], case.get('breaks', 'uniform'))
    pre = 'nonuniform_breaks/' if case.get('breaks', 'uniform') != 'uniform' else ''
    nodes = np.array(rs.greville, float)
    ms = mode_numbers(case['ntheta'])
    lN, uN = set(case.get('lN') or []), set(case.get('uN') or [])
    A = -1.0 if case.get('A') is None else float(case['A'])
    Bs, Cs, Ds, Es = case.get('B'), case.get('C'), case.get('D'), case.get('E')
    PB = P([0.0] if Bs is None else Bs[:2])
    c0 = 0.0 if Cs is None else Cs[0]
    d0 = -1.0 if Ds is None else Ds[0]
    e0 = 1.0 if Es is None else Es[0]
    rng = np.random.default_rng(case['seed'])
    amp = rand_complex(rng, (case['ntheta'], case['nz']))
    polys = {bc: P(case['polys'][bc]) for bc in case['polys']}
    rho = np.zeros((nr, case['ntheta'], case['nz']), complex)
    want = np.zeros_like(rho)
    rhofun_poly = None
    for k, m in enumerate(ms):
        bc = ('N' if int(m) in lN else 'D') + ('N' if int(m) in uN else 'D')
        ph = polys[bc]
        rp_ = (A * ph.deriv(2) + PB * ph.deriv() + c0 * ph - float(m) ** 2 * d0 * ph) / e0
        rho[:, k, :] = rp_(nodes)[:, None] * amp[k][None, :]
        want[:, k, :] = ph(nodes)[:, None] * amp[k][None, :]
    orc = c14_oracle(case, nodes, breaks)
    cond = max(orc._solve(orc.stiffness(float(m) ** 2), np.ones(orc.nb, complex), int(m) in lN, int(m) in uN)[1] for m in ms)
    if cond > 1e9:
        return False
    tol = max(1e-10, 1000 * cond * EPS)
    fields = dict(rho1=rho)
    jcase = dict(case, calls=['rho1', 'rho1'])
    for g in grids:
        if g[0] > case['ntheta'] or g[1] > case['nz']:
            continue
        cs = dict(case, grids=[list(g)])
        try:
            res = run_ranks(g, c14_job(jcase, g, fields, None))
        except Exception as e:
            T.check(False, cs, 'process grid %s: the run raised %s: %s' % (list(g), type(e).__name__, str(e)[:300]), pre + 'raised')
            continue
        got = assemble(res, 'rho1', npts)
        e = relerr(got, want)
        T.check(e <= tol, cs, 'manufactured polynomial solution (degree %d, %d cells, exactness %d, A=%s B=%s C=%s D=%s E=%s, lower Neumann modes %s, '
                'upper Neumann modes %s, grid %s) not reproduced: relative max error %.3e (tolerance %.1e, cond %.1e); worst mode %s'
                % (p, case['ncells'], case['qdeg'], A, Bs, Cs, Ds, Es, sorted(lN), sorted(uN), list(g), e, tol, cond, _worst_mode(got, want, ms))
                + (' [break points: %s]' % case.get('breaks', 'uniform')), pre + 'manufactured')
    # function right-hand side, serial, one boundary type for all modes is required (rho does not depend on the mode) -> use D == 0
    if case.get('func_variant'):
        fc = dict(case, D=[0.0, 0, 0, 0, 0])
        bc = case['func_variant']
        fc['lN'] = [int(m) for m in ms] if bc[0] == 'N' else []
        fc['uN'] = [int(m) for m in ms] if bc[1] == 'N' else []
        ph = polys[bc]
        rp_ = (A * ph.deriv(2) + PB * ph.deriv() + c0 * ph)      # right-hand side E*rho with E == 1 in this variant
        fc['E'] = None

        def rhofun(r):
            return sum(c * r ** i for i, c in enumerate(rp_.coef))

        def job(rank):
            from mpi4py import MPI
            from pygyro.model.layout import getLayoutHandler
            from pygyro.model.grid import Grid
            from pygyro.poisson.poisson_solver import DiffEqSolver
            comm = MPI.COMM_WORLD
            rs2, _ = radial_spline(p, case['ncells'], case['dom'], case['uniform'], case.get('breaks', 'uniform'))
            bs = [rs2, periodic_spline(case['ntheta'], 0.0, 2 * np.pi), periodic_spline(case['nz'], 0.0, 1.0)]
            et = [x.greville for x in bs]
            h = getLayoutHandler(comm, {'mode_solve': [1, 2, 0]}, [comm.Get_size()], et)
            ps = DiffEqSolver(case['qdeg'], rs2, nr, case['ntheta'], **c14_solver_kwargs(fc))
            phi = Grid(et, bs, h, 'mode_solve', comm, dtype=np.complex128)
            phi.getAllData()[:] = 7.5e3
            ps.solveEquationForFunction(phi, rhofun)
            return {'func': block_of(phi)}
        cs = dict(case, grids=[])
        for nranks in (1, 2):
            if nranks > case['ntheta']:
                continue
            try:
                res = run_ranks((nranks,), job)
                got = assemble(res, 'func', npts)
                wantf = np.repeat(np.repeat(ph(nodes)[:, None, None], case['ntheta'], 1), case['nz'], 2)
                e = relerr(got, wantf)
                T.check(e <= tol, cs, 'manufactured polynomial solution through solveEquationForFunction (degree %d, boundary %s, %d ranks) not '
                        'reproduced: relative max error %.3e (tolerance %.1e)' % (p, bc, nranks, e, tol), pre + 'manufactured_function')
            except Exception as e:
                T.check(False, cs, 'solveEquationForFunction run raised %s: %s' % (type(e).__name__, str(e)[:300]), pre + 'raised')
    return True


def c14_wellposed_case(case, T):
    """Constructor: pure-Neumann modes without reaction term must be refused, with reaction term must be accepted and solved."""
    from pygyro.poisson.poisson_solver import DiffEqSolver
    rs, breaks = radial_spline(case['p'], case['ncells'], case['dom'], case['uniform'])
    nr = case['ncells'] + case['p']
    kw = c14_solver_kwargs(case)
    raised = None
    try:
        DiffEqSolver(case['qdeg'], rs, nr, case['ntheta'], **kw)
    except ValueError as e:
        raised = e
    except Exception as e:
        T.check(False, case, 'constructor raised %s: %s instead of accepting / refusing with ValueError' % (type(e).__name__, str(e)[:200]), 'raised')
        return
    both = sorted(set(case.get('lN') or []) & set(case.get('uN') or []))
    if case['expect'] == 'refuse':
        T.check(raised is not None, case, 'modes %s have Neumann conditions at both ends and C == 0 (with D == 0 or m == 0): the problem is singular '
                'but the constructor accepted it' % both, 'illposed_accepted')
    else:
        T.check(raised is None, case, 'well-posed configuration (lower Neumann %s, upper Neumann %s, C %s) refused: %s'
                % (case.get('lN'), case.get('uN'), case.get('C'), raised), 'wellposed_refused')


def gen_coeffs(rng, rich=True, force=None):
    """Elliptic-type coefficient set: A<0 (or the whole operator sign-flipped), C>=0, D<=0, E != 0, B moderate.
    None = leave the constructor default. force: dict name -> True (given) / False (default) overriding the coin."""
    force = force or {}
    A = [None, None, -0.4, -2.5, 1.7][int(rng.integers(0, 5))]
    s = -1.0 if (A is not None and A > 0) else 1.0

    def r3(x):
        return round(float(x), 3)

    def coin(name, k):
        c = bool(rng.integers(0, k) != 0)
        return force.get(name, c)
    ce = 1.0 if rich else 0.0
    B = [r3(rng.uniform(-.6, .6)), r3(rng.uniform(-.2, .2)), 0.0, r3(rng.uniform(-1, 1)), r3(ce * rng.uniform(-.5, .5))]
    C = [r3(s * rng.uniform(0.1, 1.5)), 0.0, r3(s * rng.uniform(0, .2)), 0.0, r3(s * ce * rng.uniform(0, 1))]
    D = [r3(-s * rng.uniform(0.0, 1.0)), 0.0, 0.0, r3(-s * rng.uniform(0.2, 2.0)), 0.0]
    E = [r3(rng.uniform(0.5, 2.0)), r3(rng.uniform(0, .3)), 0.0, r3(rng.uniform(0, 1.0)), r3(ce * rng.uniform(0, 1))]
    B = B if coin('B', 5) else None
    C = C if coin('C', 3) else None
    D = D if (coin('D', 4) or s < 0) else None
    E = E if coin('E', 4) else None
    return A, B, C, D, E


def gen_neumann(rng, ntheta, C_is_null, style):
    ms = [int(m) for m in mode_numbers(ntheta)]
    if style == 'none':
        return None, None
    if style == 'first':          # Neumann mode first in the loop, Dirichlet modes after it
        return [0], None
    if style == 'last':           # Dirichlet modes first, the Neumann mode is the last one solved
        return [ms[-1]], None
    if style == 'upper_first':
        return None, [0]
    if style == 'upper_last':
        return None, [ms[-1]]
    lN = [m for m in ms if rng.integers(0, 5) < 2]
    uN = [m for m in ms if rng.integers(0, 3) == 0 and (not C_is_null or m not in lN)]
    return lN, uN


def c14_gen(rng, tier):
    cases = []
    nsolve = 7 if tier == 'quick' else 100
    styles = ['first', 'last', 'upper_first', 'upper_last', 'none', 'random', 'random', 'random']
    for it in range(nsolve):
        p = int([3, 1, 2, 4, 5, 3][it % 6])
        uniform = bool(p == 3 and (it % 12 == 0 or rng.integers(0, 2)))
        nr = int(rng.integers(8, 15))
        ncells = max(nr - p, 2)
        a = round(float(rng.uniform(0.2, 2.0)), 3)
        dom = [a, round(a + float(rng.uniform(1.5, 6.0)), 3)]
        ntheta = int(rng.integers(4, 9)) if it % 5 else 3
        nz = int(rng.integers(2, 5))
        with_func = it % 2 == 0
        # it%4==0: function right-hand side with E == 1 (the default); it%4==2: function right-hand side with E != 1
        force = {'E': False} if it % 4 == 0 else ({'E': True} if it % 4 == 2 else {})
        if it % 7 == 3:
            force['C'] = False      # default reaction term (zero)
        exactq = bool(it % 3 == 1)
        A, B, C, D, E = gen_coeffs(rng, rich=not exactq, force=force)
        if exactq:     # polynomial coefficient functions and a rule that integrates everything exactly
            for f in (B, C, D, E):
                if f is not None:
                    f[3] = 0.0
            if D is not None and D[0] == 0.0:
                D[0] = -0.7 if (A is None or A < 0) else 0.7
            qdeg = 2 * p + 3
        else:
            qdeg = int(rng.integers(max(1, p - 1), 2 * p + 4))
        lN, uN = gen_neumann(rng, ntheta, is_null(C), styles[it % len(styles)])
        rhofun = [round(float(x), 3) for x in rng.uniform(-1, 1, 5)] if with_func else None
        cases.append(dict(kind='solve', p=p, ncells=ncells, dom=dom, uniform=uniform, breaks='uniform', ntheta=ntheta, nz=nz, qdeg=qdeg,
                          A=A, B=B, C=C, D=D, E=E, lN=lN, uN=uN, rhofun=rhofun, exactq=exactq, seed=int(rng.integers(0, 2 ** 31))))
    # one configuration with non-uniform break points (general spline object)
    # NOT generated: the quantifier of C14 does not include non-equidistant radial break points (the solver takes the cell
    # width from the first cell); the case family is kept for replay only.  See DESIGN.md, C14.
    for it in range(0):
        p = int(rng.integers(1, 6))
        A, B, C, D, E = gen_coeffs(rng)
        cases.append(dict(kind='solve', p=p, ncells=int(rng.integers(5, 9)), dom=[0.5, 3.5], uniform=False, breaks='graded', ntheta=4, nz=2,
                          qdeg=2 * p + 1, A=A, B=B, C=C, D=D, E=E, lN=[0], uN=None, rhofun=None, exactq=False,
                          seed=int(rng.integers(0, 2 ** 31)), grids=[[1, 1], [2, 1]]))
    # manufactured solutions
    nman = 4 if tier == 'quick' else 50
    for it in range(nman):
        p = int([2, 3, 4, 5, 3][it % 5])
        uniform = bool(p == 3 and it % 2 == 0)
        ncells = int(rng.integers(4, 10))
        a = round(float(rng.uniform(0.5, 2.0)), 3)
        dom = [a, round(a + float(rng.uniform(1.0, 3.0)), 3)]
        ntheta = int(rng.integers(3, 8))
        nz = int(rng.integers(2, 4))
        A = [None, -1.5, 2.0][int(rng.integers(0, 3))]
        s = -1.0 if (A is not None and A > 0) else 1.0
        B = None if it % 3 == 0 else [round(float(rng.uniform(-.5, .5)), 3), round(float(rng.uniform(-.3, .3)), 3), 0, 0, 0]
        C = [round(s * float(rng.uniform(0.3, 1.2)), 3), 0, 0, 0, 0]
        D = None if (it % 2 == 0 and s > 0) else [round(-s * float(rng.uniform(0.1, 1.0)), 3), 0, 0, 0, 0]
        E = None if it % 2 else [round(float(rng.uniform(0.5, 2)), 3), 0, 0, 0, 0]
        lN, uN = gen_neumann(rng, ntheta, False, styles[(it + 5) % len(styles)])
        polys = {bc: poly_with_bc(rng, p, dom[0], dom[1], bc) for bc in ('DD', 'ND', 'DN', 'NN')}
        cases.append(dict(kind='manufactured', p=p, ncells=ncells, dom=dom, uniform=uniform, ntheta=ntheta, nz=nz, qdeg=2 * p + 1 + int(rng.integers(0, 3)),
                          A=A, B=B, C=C, D=D, E=E, lN=lN, uN=uN, polys=polys, func_variant=['DD', 'ND', 'DN', 'NN'][it % 4],
                          seed=int(rng.integers(0, 2 ** 31)), grids=[list(g) for g in (GRIDS if it % 2 == 0 else [(1, 1), (2, 2)])]))
    # the same on non-uniform break points (oracle-free evidence for the break-point spacing assumption of the solver)
    polys = {bc: poly_with_bc(rng, 3, 0.5, 3.5, bc) for bc in ('DD', 'ND', 'DN', 'NN')}
    if False:
      cases.append(dict(kind='manufactured', p=3, ncells=6, dom=[0.5, 3.5], uniform=False, breaks='graded', ntheta=4, nz=2, qdeg=7, A=None, B=None,
                      C=[0.5, 0, 0, 0, 0], D=None, E=None, lN=[0], uN=None, polys=polys, func_variant=None,
                      seed=int(rng.integers(0, 2 ** 31)), grids=[[1, 1]]))
    # well-posedness
    for (lN, uN, C, D, expect) in (([0], [0], None, None, 'refuse'), ([0, 1], [1, -1], None, [0.0, 0, 0, 0, 0], 'refuse'),
                                   ([0], [0], [0.0, 0, 0, 0, 0], [0.0, 0, 0, 0, 0], 'refuse'),
                                   ([0], [1], None, None, 'accept'), ([0, 1], [0], [0.8, 0, 0, 0, 0], None, 'accept'),
                                   ([0, 1, -1], None, None, None, 'accept'), (None, [0, 1, 2], None, None, 'accept')):
        for p in ((3,) if tier == 'quick' else (1, 2, 3, 5)):
            cases.append(dict(kind='wellposed', p=p, ncells=6, dom=[1.0, 3.0], uniform=bool(p == 3), ntheta=5, qdeg=2 * p + 1,
                              lN=lN, uN=uN, C=C, D=D, expect=expect))
    # pure Neumann with a reaction term: accepted AND solved correctly
    cases.append(dict(kind='solve', p=3, ncells=6, dom=[1.0, 3.0], uniform=True, breaks='uniform', ntheta=4, nz=2, qdeg=7, A=None, B=None,
                      C=[0.9, 0, 0, 0, 0], D=None, E=None, lN=[0, 1, -2], uN=[0, -2, -1], rhofun=[0.3, 0.2, 0, 0, 0], exactq=False,
                      seed=int(rng.integers(0, 2 ** 31)), grids=[[1, 1], [2, 2]]))
    return cases


def c14_one(case, T):
    if case['kind'] == 'solve':
        return c14_solve_case(case, T)
    if case['kind'] == 'manufactured':
        return c14_manufactured_case(case, T)
    return c14_wellposed_case(case, T)


def c14_run(tier, seed):
    rng = np.random.default_rng(seed)
    T = Tally()
    t0 = time.time()
    budget = 45 if tier == 'quick' else 520
    for case in c14_gen(rng, tier):
        if time.time() - t0 > budget:
            break
        try:
            if c14_one(case, T) is False:
                T.skipped += 1      # oracle system too ill-conditioned (cond > 1e9) for a rounding-only comparison
        except Exception:
            T.errors.append(traceback.format_exc()[-1200:])
        if len(T.samples) < 5 and case['kind'] != 'wellposed':
            T.samples.append(case)
    return T.out()


def c14_replay(case):
    T = Tally()
    c14_one(case, T)
    return T.out()


# =============================================================================================
# C15
# =============================================================================================

def c15_density(case, eta):
    """Global real density (r, theta, z)."""
    rng = np.random.default_rng(case['seed'])
    r, th, z = eta
    nr, nt, nz = len(r), len(th), len(z)
    kind = case['density']
    env = np.exp(-((r - 0.5 * (r[0] + r[-1])) ** 2) / (0.3 * (r[-1] - r[0])) ** 2)
    if kind == 'random':
        return rng.uniform(-1, 1, (nr, nt, nz))
    if kind == 'axisym':        # only m = 0
        return (env * rng.uniform(0.5, 1.5))[:, None, None] * (1 + 0.3 * np.cos(2 * np.pi * np.arange(nz) / nz))[None, None, :] * np.ones((1, nt, 1))
    m = int(case.get('m', 1))
    ph = rng.uniform(0, 2 * np.pi, nz)
    d = env[:, None, None] * np.cos(m * th[None, :, None] + ph[None, None, :])
    if kind == 'single_mode':
        return d
    if kind == 'mode_plus_mean':
        return d + 0.4 * env[:, None, None]
    raise ValueError(kind)


def c15_objects(case, grid, comm):
    """eta grids, splines, the two remappers of the driver, rho and phi grids, constants and the QN solver."""
    from pygyro.model.layout import getLayoutHandler, LayoutSwapper
    from pygyro.model.grid import Grid
    from pygyro.poisson.poisson_solver import QuasiNeutralitySolver
    rs, _ = radial_spline(case['p'], case['ncells'], case['dom'], case['uniform'])
    consts = make_constants(case['constants'])
    bs = [rs, periodic_spline(case['ntheta'], 0.0, 2 * np.pi), periodic_spline(case['nz'], 0.0, float(consts.R0) * 2 * np.pi)]
    et = [b.greville for b in bs]
    layout_poisson = {'v_parallel_2d': [0, 2, 1], 'mode_solve': [1, 2, 0]}
    nprocs = list(grid)
    if case.get('driver_layouts', True):
        remapperPhi = LayoutSwapper(comm, [layout_poisson, {'v_parallel_1d': [0, 2, 1]}, {'poloidal': [2, 1, 0]}],
                                    [nprocs, nprocs[0], nprocs[1]], et, 'mode_solve')
    else:
        remapperPhi = getLayoutHandler(comm, layout_poisson, nprocs, et)
    remapperRho = getLayoutHandler(comm, layout_poisson, nprocs, et)
    phi = Grid(et, bs, remapperPhi, 'mode_solve', comm, dtype=np.complex128)
    rho = Grid(et, bs, remapperRho, 'v_parallel_2d', comm, dtype=np.complex128)
    kw = {}
    if case['adiabatic']:
        kw['chi'] = case['chi']
    else:
        kw['adiabaticElectrons'] = False
    if case.get('Bfield') is not None:
        kw['B'] = float(case['Bfield'])
    qn = QuasiNeutralitySolver(et, case['qdeg'], rs, consts, **kw)
    rho.manager_for_tests = remapperRho
    return et, bs, consts, rho, phi, qn


def c15_pipeline(qn, rho, phi):
    qn.getModes(rho)
    rho.setLayout('mode_solve')
    phi.setLayout('mode_solve')
    qn.solveEquation(phi, rho)
    phi.setLayout('v_parallel_2d')
    rho.setLayout('v_parallel_2d')
    qn.findPotential(phi)


def c15_job(case, grid, dens):
    def job(rank):
        from mpi4py import MPI
        from pygyro.model.grid import Grid
        comm = MPI.COMM_WORLD
        et, bs, consts, rho, phi, qn = c15_objects(case, grid, comm)
        out = {'consts': constants_dict(consts)}
        L = rho.getLayout('v_parallel_2d')
        steps = case.get('steps', 2)
        for s in range(steps):
            G = dens if s == 0 else dens[::-1, :, ::-1] * 0.5 + 0.1
            rho.getAllData()[:] = local_block(G, L)
            # round trip on a separate grid of the same manager
            if s == 0:
                rt = Grid(et, bs, rho.manager_for_tests, 'v_parallel_2d', comm, dtype=np.complex128)
                rt.getAllData()[:] = local_block(G + 1j * G[:, ::-1, :] * 0.3, L)
                qn.getModes(rt)
                out['rt_modes'] = block_of(rt)
                qn.findPotential(rt)
                out['rt_back'] = block_of(rt)
            c15_pipeline(qn, rho, phi)
            out['phi%d' % s] = block_of(phi)
            out['modes%d' % s] = block_of(rho)
        return out
    return job


def c15_oracle(case, consts, nodes, breaks, dens):
    """phi (r, theta, z) from the statement: DFT in theta, independent dense solve per mode and z, inverse DFT."""
    Bf = 1.0 if case.get('Bfield') is None else float(case['Bfield'])
    c = consts
    orc = Galerkin(breaks, case['p'], case['qdeg'] // 2 + 1, -1.0,
                   lambda r: -(1.0 / r + own_dlogn0(r, c)),
                   (lambda r: Bf * Bf / own_Te(r, c)) if case['adiabatic'] else (lambda r: 0.0 * r),
                   lambda r: -1.0 / (r * r),
                   lambda r: Bf * Bf / own_n0(r, c), nodes)
    nt = case['ntheta']
    F = dft_matrix(nt)
    modes = np.einsum('kq,rqz->rkz', F, dens.astype(complex))
    ms = mode_numbers(nt)
    ph = np.zeros_like(modes)
    cond = 1.0
    for k, m in enumerate(ms):
        for j in range(dens.shape[2]):
            if m == 0:
                with_C = case['adiabatic'] and case['chi'] == 0
                _, vals, cd = orc.solve_nodes(0.0, True, False, modes[:, k, j], with_C=with_C)
            else:
                _, vals, cd = orc.solve_nodes(float(m) ** 2, False, False, modes[:, k, j])
            ph[:, k, j] = vals
            cond = max(cond, cd)
    phi = np.einsum('qk,rkz->rqz', np.conj(F) / nt, ph)
    return modes, ph, phi, cond


def c15_qn_case(case, T):
    grids = [tuple(g) for g in (case.get('grids') or GRIDS)]
    nr = case['ncells'] + case['p']
    npts = [nr, case['ntheta'], case['nz']]
    rs, breaks = radial_spline(case['p'], case['ncells'], case['dom'], case['uniform'])
    nodes = np.array(rs.greville, float)
    th = np.array(periodic_spline(case['ntheta'], 0.0, 2 * np.pi).greville, float)
    z = np.arange(case['nz'], dtype=float)
    dens = c15_density(case, [nodes, th, z])
    first = None
    exp = None
    for g in grids:
        if g[0] > min(nr, case['ntheta']) or g[1] > case['nz']:
            continue
        cs = dict(case, grids=[list(g)])
        try:
            res = run_ranks(g, c15_job(case, g, dens))
        except Exception as e:
            T.check(False, cs, 'process grid %s: the pipeline raised %s: %s' % (list(g), type(e).__name__, str(e)[:300]), 'raised')
            continue
        got = {k: assemble(res, k, npts) for k in res[0] if k != 'consts'}
        if exp is None:
            exp = []
            for s in range(case.get('steps', 2)):
                G = dens if s == 0 else dens[::-1, :, ::-1] * 0.5 + 0.1
                exp.append(c15_oracle(case, res[0]['consts'], nodes, breaks, G))
        desc = 'nr=%d ntheta=%d nz=%d, %s, chi=%s, density %s, grid %s' % (nr, case['ntheta'], case['nz'],
                                                                         'adiabatic' if case['adiabatic'] else 'kinetic electrons',
                                                                         case.get('chi'), case['density'], list(g))
        # FFT and round trip
        Gc = dens + 1j * dens[:, ::-1, :] * 0.3
        want_modes = np.einsum('kq,rqz->rkz', dft_matrix(case['ntheta']), Gc)
        e = relerr(got['rt_modes'], want_modes)
        T.check(e <= 1e-13, cs, '%s: getModes differs from the discrete Fourier transform along theta (explicit DFT matrix): %.3e relative' % (desc, e), 'forward_transform')
        e = relerr(got['rt_back'], Gc)
        T.check(e <= 1e-13, cs, '%s: findPotential(getModes(x)) is not x: %.3e relative' % (desc, e), 'round_trip')
        for s, (modes, ph, phi, cond) in enumerate(exp):
            tol = max(1e-10, 400 * cond * EPS)
            sc = float(np.max(np.abs(phi)))
            e = relerr(got['phi%d' % s], phi)
            T.check(e <= tol, cs, '%s, call %d on the same objects: potential differs from the independent mode-by-mode solution: %.3e relative '
                    '(tolerance %.1e, cond %.1e)%s' % (desc, s, e, tol, cond, _c15_diag(got['phi%d' % s], ph, case)), 'potential_oracle')
            im = float(np.max(np.abs(got['phi%d' % s].imag))) / max(sc, 1e-300)
            T.check(im <= max(1e-12, 50 * cond * EPS), cs, '%s, call %d: potential of a real density has imaginary part %.3e (relative)' % (desc, s, im), 'real_potential')
            e = relerr(got['modes%d' % s], modes)
            T.check(e <= 1e-13, cs, '%s, call %d: the density grid does not hold its Fourier modes after the layout round trip: %.3e' % (desc, s, e), 'density_modes_kept')
        if first is None:
            first = (g, got)
        else:
            e = max(relerr(got[k], first[1][k]) for k in got if k.startswith('phi'))
            T.check(e <= 1e-12, dict(case, grids=[list(first[0]), list(g)]),
                    '%s: potential differs from the one on process grid %s by %.3e (relative)' % (desc, list(first[0]), e), 'process_grid')
    return True


def _c15_diag(gotphi, ph_modes, case):
    """Which mode is off (forward DFT of the observed potential compared with the oracle's modes)."""
    try:
        gm = np.einsum('kq,rqz->rkz', dft_matrix(case['ntheta']), gotphi)
        d = np.abs(gm - ph_modes).max(axis=(0, 2)) / max(float(np.max(np.abs(ph_modes))), 1e-300)
        k = int(np.argmax(d))
        return '; largest deviation in mode m=%d (%.2e)' % (int(mode_numbers(case['ntheta'])[k]), float(d[k]))
    except Exception:
        return ''


def c15_equilibrium_case(case, T):
    """f = f_eq through DensityFinder.getPerturbedRho and the whole pipeline: rho = 0 and phi = 0."""
    grids = [tuple(g) for g in (case.get('grids') or GRIDS)]
    p = case['p']
    nr = case['ncells'] + p
    npts3 = [nr, case['ntheta'], case['nz']]
    for g in grids:
        if g[0] > min(nr, case['ntheta'], case['nv']) or g[1] > min(case['nz'], case['nv']):
            continue
        cs = dict(case, grids=[list(g)])

        def job(rank, g=g):
            from mpi4py import MPI
            from pygyro.model.layout import getLayoutHandler
            from pygyro.model.grid import Grid
            from pygyro.poisson.poisson_solver import DensityFinder
            from pygyro.initialisation.initialiser import initialise_v_parallel
            comm = MPI.COMM_WORLD
            et, bs, consts, rho, phi, qn = c15_objects(case, g, comm)
            vs, vbreaks = radial_spline(3, case['nv'] - 3, [consts.vMin, consts.vMax], True)
            bs4 = bs + [vs]
            et4 = et + [vs.greville]
            h4 = getLayoutHandler(comm, {'flux_surface': [0, 3, 1, 2], 'v_parallel': [0, 2, 1, 3], 'poloidal': [3, 2, 1, 0]}, list(g), et4)
            f = Grid(et4, bs4, h4, 'v_parallel', comm)
            if case['fill'] == 'repo_init':
                consts.eps = 0.0
                initialise_v_parallel(f, consts)
            else:
                cd = constants_dict(consts)
                r = np.asarray(f.getCoordVals(0))
                v = np.asarray(f.getCoordVals(3))
                f.getAllData()[:] = own_feq(r[:, None, None, None], v[None, None, None, :], cd)
            df = DensityFinder(6, vs, et4, consts)
            out = {}
            fmax = float(np.max(np.abs(f.getAllData())))
            for s in range(2):
                rho.getAllData()[:] = 3.0 + 1.0j      # stale content must not survive
                df.getPerturbedRho(f, rho)
                out['rho%d' % s] = block_of(rho)
                c15_pipeline(qn, rho, phi)
                out['phi%d' % s] = block_of(phi)
            # a unit density gives the scale of the potential
            rho.getAllData()[:] = 1.0
            c15_pipeline(qn, rho, phi)
            out['phi_unit'] = block_of(phi)
            out['scale'] = (fmax * (consts.vMax - consts.vMin),)
            return out
        try:
            res = run_ranks(g, job)
        except Exception as e:
            T.check(False, cs, 'process grid %s: the equilibrium run raised %s: %s' % (list(g), type(e).__name__, str(e)[:300]), 'raised')
            continue
        dsc = max(r['scale'][0] for r in res)
        unit = float(np.max(np.abs(assemble(res, 'phi_unit', npts3))))
        for s in range(2):
            rho = assemble(res, 'rho%d' % s, npts3)
            phi = assemble(res, 'phi%d' % s, npts3)
            e = float(np.max(np.abs(rho))) / dsc if np.isfinite(rho).all() else float('inf')
            T.check(e <= 1e-13, cs, 'equilibrium distribution (%s), grid %s, pass %d: perturbed density is %.3e relative to max(f)*(vMax-vMin) instead of 0'
                    % (case['fill'], list(g), s, e), 'equilibrium_density')
            e = float(np.max(np.abs(phi))) / (dsc * unit) if np.isfinite(phi).all() else float('inf')
            T.check(e <= 1e-11, cs, 'equilibrium distribution (%s), grid %s, pass %d: potential is %.3e relative to the response to that density scale '
                    'instead of 0' % (case['fill'], list(g), s, e), 'equilibrium_potential')
    return True


def c15_gen(rng, tier):
    cases = []
    n = 6 if tier == 'quick' else 80
    dens = ['random', 'single_mode', 'axisym', 'mode_plus_mean', 'random']
    for it in range(n):
        p = 3 if it % 4 != 3 else int(rng.integers(1, 6))
        uniform = bool(p == 3 and it % 3 != 2)
        nr = int(rng.integers(8, 14))
        ntheta = [8, 7, 5, 6, 9, 4][it % 6]
        nz = int(rng.integers(2, 6))
        dom = [round(float(rng.uniform(0.1, 1.0)), 3), round(float(rng.uniform(8.0, 14.5)), 3)]
        adiabatic = bool(it % 4 != 2)
        cases.append(dict(kind='qn', p=p, ncells=nr - p, dom=dom, uniform=uniform, ntheta=ntheta, nz=nz, qdeg=[7, 6, 3, 7][it % 4],
                          adiabatic=adiabatic, chi=int(it % 2) if adiabatic else None, Bfield=None if it % 3 else round(float(rng.uniform(0.7, 1.5)), 3),
                          density=dens[it % len(dens)], m=int(rng.integers(1, ntheta // 2 + 1)), constants=rand_constants(rng, dom),
                          driver_layouts=bool(it % 3 != 1), steps=2, seed=int(rng.integers(0, 2 ** 31))))
    # the m = 0 convention made explicit: axisymmetric density with both chi values and kinetic electrons
    for chi, adiabatic in ((0, True), (1, True), (None, False)):
        dom = [0.1, 14.5]
        cases.append(dict(kind='qn', p=3, ncells=7, dom=dom, uniform=True, ntheta=6 if chi else 5, nz=3, qdeg=7, adiabatic=adiabatic, chi=chi,
                          Bfield=None, density='axisym', m=0, constants=rand_constants(rng, dom), driver_layouts=True, steps=1,
                          seed=int(rng.integers(0, 2 ** 31)), grids=[[1, 1], [2, 2]] if tier == 'quick' else None))
    for it in range(2 if tier == 'quick' else 12):
        dom = [0.1, 14.5] if it % 2 == 0 else [round(float(rng.uniform(0.1, 1.0)), 3), round(float(rng.uniform(8.0, 14.5)), 3)]
        cases.append(dict(kind='equilibrium', p=3, ncells=int(rng.integers(5, 9)), dom=dom, uniform=True, ntheta=[6, 5][it % 2], nz=int(rng.integers(3, 5)),
                          nv=int(rng.integers(9, 14)), qdeg=7, adiabatic=bool(it % 4 != 3), chi=int(it % 2), Bfield=None,
                          constants=rand_constants(rng, dom, (-5.0, 5.0) if it % 2 else (-7.32, 7.32)), driver_layouts=True,
                          fill=['repo_init', 'formula'][it % 2],
                          grids=[[1, 1], [3, 2]] if (tier == 'quick' and it % 2 == 0) else ([[2, 1], [1, 2], [2, 2]] if tier == 'quick' else None)))
    return cases


def c15_one(case, T):
    if case['kind'] == 'qn':
        return c15_qn_case(case, T)
    return c15_equilibrium_case(case, T)


def c15_run(tier, seed):
    rng = np.random.default_rng(seed)
    T = Tally()
    t0 = time.time()
    budget = 45 if tier == 'quick' else 520
    for case in c15_gen(rng, tier):
        if time.time() - t0 > budget:
            break
        try:
            c15_one(case, T)
        except Exception:
            T.errors.append(traceback.format_exc()[-1200:])
        if len(T.samples) < 5:
            T.samples.append(case)
    return T.out()


def c15_replay(case):
    T = Tally()
    c15_one(case, T)
    return T.out()


# =============================================================================================
# C16
# =============================================================================================

def c16_profiles(case, et, cd):
    """Global distributions (r, theta, z, v) and, where available, analytic integrals."""
    rng = np.random.default_rng(case['seed'])
    r, th, z, v = et
    shp = (len(r), len(th), len(z), len(v))
    p = case['vdeg']
    a, b = case['vdom']
    feq = own_feq(r[:, None], v[None, :], cd)                       # (nr, nv)
    F1 = rng.uniform(-1, 1, shp)
    F2 = rng.uniform(-1, 1, shp)
    co = rng.uniform(-1, 1, shp[:3] + (p + 1,))
    sv = (v - 0.5 * (a + b)) / (0.5 * (b - a))                       # scaled to [-1,1] to keep the monomials tame
    Fpoly = sum(co[..., k][..., None] * sv[None, None, None, :] ** k for k in range(p + 1))
    Ipoly = sum(co[..., k] * (1.0 - (-1.0) ** (k + 1)) / (k + 1) for k in range(p + 1)) * 0.5 * (b - a)
    amp = rng.uniform(0.01, 0.2)
    pert = amp * np.cos(2 * th[None, :, None] + 2 * np.pi * np.arange(len(z))[None, None, :] / len(z)) * np.exp(-(r[:, None, None] - r.mean()) ** 2)
    Feqp = feq[:, None, None, :] * (1.0 + pert[..., None])
    Feq = np.broadcast_to(feq[:, None, None, :], shp).copy()
    return dict(F1=F1, F2=F2, Fpoly=Fpoly, Ipoly=Ipoly, Feq=Feq, Feqp=Feqp, feq=feq, la=0.6, lb=-1.7)


def c16_objects(case, grid, comm):
    from pygyro.model.layout import getLayoutHandler
    from pygyro.model.grid import Grid
    from pygyro.poisson.poisson_solver import DensityFinder
    consts = make_constants(case['constants'])
    rs, _ = radial_spline(3, case['nr'] - 3, [consts.rMin, consts.rMax], True)
    vs, vbreaks = radial_spline(case['vdeg'], case['nv'] - case['vdeg'], case['vdom'], case['vuniform'], case.get('vbreaks', 'uniform'))
    bs = [rs, periodic_spline(case['ntheta'], 0.0, 2 * np.pi), periodic_spline(case['nz'], 0.0, 1.0), vs]
    et = [np.array(b.greville, float) for b in bs]
    lay4 = {'flux_surface': [0, 3, 1, 2], 'v_parallel': [0, 2, 1, 3], 'poloidal': [3, 2, 1, 0]} if case.get('all_layouts') else {'v_parallel': [0, 2, 1, 3]}
    h4 = getLayoutHandler(comm, lay4, list(grid), et)
    h3 = getLayoutHandler(comm, {'v_parallel_2d': [0, 2, 1], 'mode_solve': [1, 2, 0]}, list(grid), et[:3])
    f = Grid(et, bs, h4, 'v_parallel', comm)
    rho = Grid(et[:3], bs[:3], h3, 'v_parallel_2d', comm, dtype=np.complex128 if case['dtype'] == 'complex' else float)
    df = DensityFinder(case.get('degree', 6), vs, et, consts)
    return et, bs, consts, f, rho, df, vbreaks


def c16_job(case, grid, prof):
    def job(rank):
        from mpi4py import MPI
        from pygyro.poisson.poisson_solver import DiffEqSolver
        comm = MPI.COMM_WORLD
        et, bs, consts, f, rho, df, _ = c16_objects(case, grid, comm)
        Lf = f.getLayout('v_parallel')
        out = {}

        def put(G):
            f.getAllData()[:] = local_block(G, Lf)

        def run(name, G, perturbed):
            put(G)
            before = f.getAllData().copy()
            (df.getPerturbedRho if perturbed else df.getRho)(f, rho)
            out[name] = block_of(rho)
            if not np.array_equal(before, f.getAllData()):
                out.setdefault('flags', []).append('%s: the distribution function was modified' % name)

        rho.getAllData()[:] = -55.0 + (3.0j if case['dtype'] == 'complex' else 0.0)
        run('rho_F1', prof['F1'], False)
        run('rho_F2', prof['F2'], False)
        run('rho_lin', prof['la'] * prof['F1'] + prof['lb'] * prof['F2'], False)
        run('rho_poly', prof['Fpoly'], False)
        run('pert_F1', prof['F1'], True)
        run('pert_eq', prof['Feq'], True)
        run('pert_eqp', prof['Feqp'], True)
        run('rho_eqp', prof['Feqp'], False)
        if case['dtype'] == 'complex':
            # reuse of the density grid: compute, transform in place, compute again into the same grid
            run('reuse_a', prof['Feqp'], True)
            DiffEqSolver.getModes(rho)
            out['reuse_modes'] = block_of(rho)
            run('reuse_b', prof['Feqp'], True)
            DiffEqSolver.getModes(rho)
            run('reuse_c', prof['F1'], False)
        # the SAME finder on a second pair of grids whose radial blocks start elsewhere (process grid transposed): the
        # equilibrium subtracted must be that of each point's own radius on the new decomposition too
        g2 = (grid[1], grid[0])
        if g2 != tuple(grid) and g2[0] <= min(case['nr'], case['ntheta']) and g2[1] <= case['nz'] \
                and not (case.get('all_layouts') and max(g2) > case['nv']):
            _, _, _, f2, rho2, _, _ = c16_objects(case, g2, comm)
            f2.getAllData()[:] = local_block(prof['Feqp'], f2.getLayout('v_parallel'))
            rho2.getAllData()[:] = -55.0 + (3.0j if case['dtype'] == 'complex' else 0.0)
            df.getPerturbedRho(f2, rho2)
            out['second_pert_eqp'] = block_of(rho2)
            f2.getAllData()[:] = local_block(prof['F1'], f2.getLayout('v_parallel'))
            df.getRho(f2, rho2)
            out['second_rho_F1'] = block_of(rho2)
        out.setdefault('flags', [])
        out['consts'] = constants_dict(consts)
        return out
    return job


def c16_case(case, T):
    grids = [tuple(g) for g in (case.get('grids') or GRIDS)]
    npts = [case['nr'], case['ntheta'], case['nz'], case['nv']]
    npts3 = npts[:3]
    # geometry from the same constructors (only knot vectors / nodes are taken from them)
    from mpi4py import MPI
    et, bs, consts, _, _, _, vbreaks = c16_objects(dict(case, all_layouts=False), (1, 1), MPI.COMM_WORLD)
    cd = constants_dict(consts)
    prof = c16_profiles(case, et, cd)
    p = case['vdeg']
    v = et[3]

    def integ(Y):
        return interp_integrals(vbreaks, p, v, Y)
    exp = dict(rho_F1=integ(prof['F1']), rho_F2=integ(prof['F2']), rho_poly=integ(prof['Fpoly']), rho_eqp=integ(prof['Feqp']))
    ieq = integ(prof['feq'])                                         # (nr,)
    exp['pert_F1'] = exp['rho_F1'] - ieq[:, None, None]
    exp['pert_eqp'] = exp['rho_eqp'] - ieq[:, None, None]
    exp['pert_eq'] = np.zeros(npts3)
    exp['rho_lin'] = prof['la'] * exp['rho_F1'] + prof['lb'] * exp['rho_F2']
    width = case['vdom'][1] - case['vdom'][0]
    scales = dict(rho_F1=width, rho_F2=width, rho_lin=2.3 * width, rho_poly=width * (p + 1), pert_F1=width,
                  pert_eq=float(np.max(ieq)), pert_eqp=float(np.max(ieq)), rho_eqp=float(np.max(ieq)))
    tol = 2e-13 * max(1.0, case['nv'] / 8.0)
    first = None
    for g in grids:
        if g[0] > min(case['nr'], case['ntheta']) or g[1] > case['nz'] or (case.get('all_layouts') and max(g) > case['nv']):
            continue
        cs = dict(case, grids=[list(g)])
        try:
            res = run_ranks(g, c16_job(case, g, prof))
        except Exception as e:
            T.check(False, cs, 'process grid %s: the run raised %s: %s' % (list(g), type(e).__name__, str(e)[:300]), 'raised')
            continue
        for r in res:
            for fl in r['flags']:
                T.check(False, cs, fl, 'input_modified')
        got = {k: assemble(res, k, npts3) for k in res[0] if k not in ('flags', 'consts')}
        desc = 'v spline degree %d (%s%s), %d v points, %s density grid, npts %s, grid %s' % (
            p, case.get('vbreaks', 'uniform'), ', uniform-cubic object' if (case['vuniform'] and p == 3) else '', case['nv'], case['dtype'], npts, list(g))
        names = dict(rho_F1='getRho of a random distribution', rho_F2='getRho of a second random distribution (same objects)',
                     rho_poly='getRho of a polynomial of degree %d in v' % p, pert_F1='getPerturbedRho of a random distribution',
                     pert_eq='getPerturbedRho of the equilibrium', pert_eqp='getPerturbedRho of a perturbed equilibrium',
                     rho_eqp='getRho of a perturbed equilibrium', rho_lin='getRho of a linear combination')
        for k in ('rho_F1', 'rho_F2', 'rho_poly', 'pert_F1', 'pert_eq', 'pert_eqp', 'rho_eqp', 'rho_lin'):
            e = relerr(got[k].real, exp[k], scales[k])
            im = float(np.max(np.abs(got[k].imag))) if np.iscomplexobj(got[k]) else 0.0
            T.check(e <= tol and im == 0.0, cs, '%s: %s differs from the exact integral of the interpolating spline%s: %.3e relative to the scale %.3g '
                    '(tolerance %.1e); imaginary part %.2e%s' % (desc, names[k], ' minus the equilibrium integral at the own radius' if k.startswith('pert') else '',
                                                               e, scales[k], tol, im, _c16_diag(got[k].real, exp[k])),
                    'perturbed_density' if k.startswith('pert') else 'density')
        # analytic integral of the polynomial
        e = relerr(got['rho_poly'].real, prof['Ipoly'], scales['rho_poly'])
        T.check(e <= tol, cs, '%s: polynomial of degree %d in v (in the spline space) is not integrated exactly: %.3e relative (tolerance %.1e)' % (desc, p, e, tol), 'polynomial_exact')
        # linearity, direct
        e = relerr(got['rho_lin'], prof['la'] * got['rho_F1'] + prof['lb'] * got['rho_F2'], scales['rho_lin'])
        T.check(e <= tol, cs, '%s: rho(a f1 + b f2) differs from a rho(f1) + b rho(f2) by %.3e' % (desc, e), 'linearity')
        if case['dtype'] == 'complex':
            e1 = relerr(got['reuse_b'], got['reuse_a'], scales['pert_eqp'])
            e2 = relerr(got['reuse_c'], got['rho_F1'], scales['rho_F1'])
            wantm = np.einsum('kq,rqz->rkz', dft_matrix(case['ntheta']), got['reuse_a'])
            e3 = relerr(got['reuse_modes'], wantm, max(float(np.max(np.abs(wantm))), 1e-300))
            T.check(e1 == 0.0 and e2 == 0.0 and e3 <= 1e-13, cs, '%s: reuse of the density grid (compute, getModes in place, compute again): second result differs '
                    'by %.3e, third by %.3e from the fresh ones; modes in between off by %.3e' % (desc, e1, e2, e3), 'grid_reuse')
        if first is None:
            first = (g, got)
        else:
            e = max(relerr(got[k], first[1][k], scales.get(k, 1.0)) for k in exp if k in got and k in first[1])
            T.check(e <= 1e-14, dict(case, grids=[list(first[0]), list(g)]),
                    '%s: densities differ from those on process grid %s by %.3e' % (desc, list(first[0]), e), 'process_grid')
    return True


def _c16_diag(got, want):
    if got.shape != want.shape or not np.isfinite(got).all():
        return ''
    d = np.abs(got - want)
    i = np.unravel_index(int(np.argmax(d)), d.shape)
    rows = np.nonzero(d.max(axis=(1, 2)) > 1e-9 * max(1.0, float(np.max(np.abs(want)))))[0]
    return '; worst at (r,theta,z) index %s, radial rows affected %s' % (list(int(x) for x in i), [int(x) for x in rows[:12]])


def c16_gen(rng, tier):
    cases = []
    n = 12 if tier == 'quick' else 150
    for it in range(n):
        vdeg = [3, 3, 2, 5, 1, 4][it % 6]
        vuniform = bool(vdeg == 3 and it % 2 == 0)
        nv = int(rng.integers(9, 18))
        nr = [11, 8, 13, 10, 7, 9][it % 6]
        ntheta = [7, 8, 5, 6][it % 4]
        nz = [5, 3, 4, 7][it % 4]
        vdom = [[-5.0, 5.0], [0.0, 10.0], [-3.0, 6.0]][it % 3]
        dom = [round(float(rng.uniform(0.1, 1.0)), 3), round(float(rng.uniform(6.0, 14.5)), 3)]
        cases.append(dict(kind='density', nr=nr, ntheta=ntheta, nz=nz, nv=nv, vdeg=vdeg, vuniform=vuniform,
                          vbreaks='graded' if (not vuniform and it % 5 == 4) else 'uniform', vdom=vdom,
                          dtype='complex' if it % 2 == 0 else 'real', all_layouts=bool(it % 3 == 0), degree=int(rng.integers(1, 8)),
                          constants=rand_constants(rng, dom, vdom), seed=int(rng.integers(0, 2 ** 31)),
                          grids=None if (tier != 'quick' or it < 6) else [[1, 1], [list(x) for x in GRIDS[1:]][it % 4]]))
    return cases


def c16_run(tier, seed):
    rng = np.random.default_rng(seed)
    T = Tally()
    t0 = time.time()
    budget = 45 if tier == 'quick' else 520
    for case in c16_gen(rng, tier):
        if time.time() - t0 > budget:
            break
        try:
            c16_case(case, T)
        except Exception:
            T.errors.append(traceback.format_exc()[-1200:])
        if len(T.samples) < 5:
            T.samples.append(case)
    return T.out()


def c16_replay(case):
    T = Tally()
    c16_case(case, T)
    return T.out()


# =============================================================================================

RUN = {'C14': c14_run, 'C15': c15_run, 'C16': c16_run}
REPLAY = {'C14': c14_replay, 'C15': c15_replay, 'C16': c16_replay}


def main():
    prop, tier, seed, repo = sys.argv[1], sys.argv[2], int(sys.argv[3]), sys.argv[4]
    _setup(repo)
    t0 = time.time()
    real_stdout = sys.stdout
    sys.stdout = sys.stderr          # anything the code under test prints goes to stderr
    try:
        if len(sys.argv) > 5:
            case = json.load(open(sys.argv[5]))
            out = REPLAY[prop](case.get('case', case))
        else:
            out = RUN[prop](tier, seed)
        out.setdefault('errors', [])
    except Exception:
        out = dict(evaluated=0, ok=0, failures=[], samples=[], errors=[traceback.format_exc()[-2500:]])
    finally:
        sys.stdout = real_stdout
    out['wall_s'] = round(time.time() - t0, 2)
    json.dump(out, sys.stdout, default=lambda o: o.tolist() if hasattr(o, 'tolist') else str(o))


if __name__ == '__main__':
    main()
