"""Bounded stand-in for C05 (and an end-to-end cross-check of C10-C16): one Strang step of the real driver
statements on a small grid, for several process counts on the simulated MPI, compared with the serial run.

python -m vf.rt.bounded_sim C05 <tier> <seed> <repo> [case.json]
"""
import ast
import json
import os
import sys
import tempfile
import time
import traceback
import warnings

import numpy as np

warnings.filterwarnings('ignore')
from .bounded_layout import _setup  # noqa

DROP = ('my_print', 'print', 'time.time', 'diagnostics.', 'writeH5Dataset', 'cProfile', 'pstats', 'diagnostic_', 'output_', 'full_loop',
        'setup_time', 'open(')


def driver_statements(repo):
    """Mechanical slice of fullSimulation.main: the operator set-up block and the body of the time loop, without timing,
    printing, diagnostics and file output. Returns (setup source, loop body source, dropped line numbers)."""
    src = open(os.path.join(repo, 'fullSimulation.py')).read()
    tree = ast.parse(src)
    main = [n for n in tree.body if isinstance(n, ast.FunctionDef) and n.name == 'main'][0]
    setup, body, dropped = [], [], []
    started = False
    for st in main.body:
        txt = ast.get_source_segment(src, st)
        if isinstance(st, ast.While):
            for b in st.body:
                t2 = ast.get_source_segment(src, b)
                if isinstance(b, ast.If) or any(d in t2 for d in DROP) or t2.startswith(('t +=', 'nLoops', 'ti +=', 'average', 'timeForLoop')):
                    dropped.append(b.lineno)
                    continue
                body.append(t2)
            break
        if txt.startswith('halfStep') or started:
            started = True
            if isinstance(st, ast.If) or any(d in txt for d in DROP) or txt.startswith(('nLoops', 'average', 'startPrint', 'timeForLoop', 'diagnostics =')):
                dropped.append(st.lineno)
                continue
            setup.append(txt)
    return '\n'.join(setup), '\n'.join(body), dropped


def run_sim(repo, size, npts, iota, layout0, nsteps=1, seed=0, dt=2.0, eps=0.1):
    from mpi4py import MPI
    import importlib
    setup_src, body_src, dropped = driver_statements(repo)
    d = tempfile.mkdtemp(prefix='vfsim-', dir='/var/tmp')
    cfile = os.path.join(d, 'c.json')
    json.dump({"B0": 1.0, "R0": 239.8081535, "rMin": 0.1, "rMax": 14.5, "zMin": 0.0, "zMax": "R0*2*pi", "vMax": 7.32, "vMin": "-vMax",
               "eps": eps, "eps0": 8.854187817e-12, "kN0": 0.055, "kTi": 0.27586, "kTe": "kTi", "deltaRTi": 1.45,
               "deltaRTe": "deltaRTi", "deltaRN0": "2.0*deltaRTe", "deltaR": "4.0*deltaRN0/deltaRTi", "CTi": 1.0, "CTe": "CTi",
               "m": 3, "n": 1, "iotaVal": iota, "npts": npts, "dt": dt, "splineDegrees": [3, 3, 3, 3]}, open(cfile, 'w'))

    def job(rank):
        import numpy as np
        from pygyro.initialisation.setups import setupCylindricalGrid
        from pygyro.poisson.poisson_solver import DensityFinder, QuasiNeutralitySolver
        from pygyro.advection.advection import FluxSurfaceAdvection, VParallelAdvection, PoloidalAdvection, ParallelGradient
        from pygyro.model.grid import Grid
        from pygyro.model.layout import LayoutSwapper, getLayoutHandler
        comm = MPI.COMM_WORLD
        distribFunc, constants, t = setupCylindricalGrid(constantFile=cfile, layout=layout0, comm=comm, allocateSaveMemory=True)
        if layout0 != 'v_parallel':
            distribFunc.setLayout('v_parallel')
        ns = dict(np=np, comm=comm, MPI=MPI, distribFunc=distribFunc, constants=constants, t=t, DensityFinder=DensityFinder,
                  QuasiNeutralitySolver=QuasiNeutralitySolver, FluxSurfaceAdvection=FluxSurfaceAdvection,
                  VParallelAdvection=VParallelAdvection, PoloidalAdvection=PoloidalAdvection, ParallelGradient=ParallelGradient,
                  Grid=Grid, LayoutSwapper=LayoutSwapper, getLayoutHandler=getLayoutHandler, saveStep=5)
        exec(setup_src, ns)
        snaps = []
        for _ in range(nsteps):
            exec(body_src, ns)
        f = ns['distribFunc']
        phi = ns['phi']
        Lf = f.getLayout(f.currentLayout)
        Lp = phi.getLayout(phi.currentLayout)
        return (f.currentLayout, tuple(Lf.dims_order), tuple(int(x) for x in Lf.starts), f.getAllData().copy(),
                phi.currentLayout, tuple(Lp.dims_order), tuple(int(x) for x in Lp.starts), phi.getAllData().copy(),
                list(Lf.nprocs))

    try:
        res, traces = MPI.run_job(size, job, timeout=600)
    finally:
        import shutil
        shutil.rmtree(d, ignore_errors=True)
    # assemble global fields
    F = np.full([npts[k] for k in res[0][1]], np.nan)
    P = np.full([npts[k] for k in res[0][5]], np.nan, dtype=complex)
    for r in res:
        sl = tuple(slice(s, s + n) for s, n in zip(r[2], r[3].shape))
        F[sl] = r[3]
        sl = tuple(slice(s, s + n) for s, n in zip(r[6], r[7].shape))
        P[sl] = r[7]
    return F, P, res[0][8], dropped


def c05_run(tier, seed, repo):
    out = dict(evaluated=0, ok=0, failures=[], samples=[])
    npts = [8, 8, 8, 8] if tier == 'quick' else [10, 8, 9, 8]
    configs = [(0.8, 'v_parallel')] if tier == 'quick' else [(0.8, 'v_parallel'), (0.0, 'flux_surface'), (0.8, 'poloidal')]
    sizes = [2, 4] if tier == 'quick' else [2, 3, 4, 6]
    for (iota, lay) in configs:
        F0, P0, g0, dropped = run_sim(repo, 1, npts, iota, lay, seed=seed)
        out['samples'].append(dict(npts=npts, iotaVal=iota, start_layout=lay, dropped_driver_lines=dropped[:40]))
        for size in sizes:
            case = dict(npts=npts, iotaVal=iota, start_layout=lay, size=size)
            try:
                F, P, g, _ = run_sim(repo, size, npts, iota, lay, seed=seed)
                ef = float(np.nanmax(np.abs(F - F0)) / max(1e-300, np.nanmax(np.abs(F0))))
                ep = float(np.nanmax(np.abs(P - P0)) / max(1e-300, np.nanmax(np.abs(P0))))
                bad = (not np.isfinite(ef)) or (not np.isfinite(ep)) or ef > 1e-10 or ep > 1e-8
                detail = 'process grid %s: relative difference to the serial run f: %.3e, phi: %.3e' % (g, ef, ep)
            except Exception as e:
                bad, detail = True, 'run on %d ranks failed: %s: %s' % (size, type(e).__name__, e)
            out['evaluated'] += 1
            if bad:
                out['failures'].append(dict(case=case, detail=detail))
            else:
                out['ok'] += 1
            out['samples'].append(dict(case, result=detail))
    return out


def c05_replay(case, repo):
    F0, P0, g0, _ = run_sim(repo, 1, case['npts'], case['iotaVal'], case['start_layout'])
    F, P, g, _ = run_sim(repo, case['size'], case['npts'], case['iotaVal'], case['start_layout'])
    ef = float(np.nanmax(np.abs(F - F0)) / np.nanmax(np.abs(F0)))
    ep = float(np.nanmax(np.abs(P - P0)) / max(1e-300, np.nanmax(np.abs(P0))))
    bad = (not np.isfinite(ef)) or ef > 1e-10 or ep > 1e-8
    return dict(evaluated=1, ok=0 if bad else 1,
                failures=[dict(case=case, detail='process grid %s: relative difference to the serial run f: %.3e, phi: %.3e' % (g, ef, ep))] if bad else [])


def main():
    prop, tier, seed, repo = sys.argv[1], sys.argv[2], int(sys.argv[3]), sys.argv[4]
    _setup(repo)
    t0 = time.time()
    try:
        if len(sys.argv) > 5:
            case = json.load(open(sys.argv[5]))
            out = c05_replay(case.get('case', case), repo)
        else:
            out = c05_run(tier, seed, repo)
        out.setdefault('errors', [])
    except Exception:
        out = dict(evaluated=0, ok=0, failures=[], samples=[], errors=[traceback.format_exc()[-2500:]])
    out['wall_s'] = round(time.time() - t0, 2)
    json.dump(out, sys.stdout, default=lambda o: o.tolist() if hasattr(o, 'tolist') else str(o))


if __name__ == '__main__':
    main()
