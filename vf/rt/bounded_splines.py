"""Bounded stand-ins for the spline interpolation / quadrature properties C08 and C09.

The REAL classes of <repo>/pygyro/splines (make_knots, BSplines, Spline1D, Spline2D, SplineInterpolator1D/2D) are run on
generated spline spaces and data; every expected value comes from an independent oracle:

  * knot vector written down from the definition (clamped / periodic extension / uniform T_i = xmin+(i-3)dx for the
    cubic-uniform fast path), never taken from the object;
  * basis functions B_j(x) and spline values from scipy.interpolate.BSpline on that knot vector;
  * interpolation coefficients by a dense numpy solve of the (wrapped) collocation matrix at basis.greville (the
    interpolation points ARE what the object defines; they are only checked for being admissible);
  * integrals from scipy's exact antiderivative spline taken between the end breakpoints; the oracle checks itself against
    Gauss-Legendre with degree+1 nodes per cell, the closed form (t[j+p+1]-t[j])/(p+1) and the partition of unity
    (a disagreement is reported under "errors", never as a violation).  The integral of the REAL interpolant is also taken
    by Gauss-Legendre per cell on the values of the real Spline1D.eval.

Bound: degrees 1-5 x 1..12 cells x clamped/periodic (periodic needs ncells > degree, as the constructor asserts) exhaustively,
each on uniform breakpoints with both values of the `uniform` flag (=> cubic-uniform fast path for degree 3) and on several
random / graded / wild non-uniform breakpoint sets, on six domains (unit, 2 pi, shifted, far from the origin, tiny, huge);
thorough adds 16/20/33 cells and (1-D) degrees 6-8.  2-D: random pairs over all four boundary combinations, different
degrees/sizes per direction, cubic-uniform pairs, one shared BSplines object for both directions, C/F/strided data.

Tolerances are rounding-only bounds from the backward error analysis of LU (Higham, ASNA Thm 9.3/9.4), K = 16,
n = number of coefficients, all quantities taken from the oracle's own solution:
  residual of a solve      |S(x_i) - u_i|   <= K n eps ((p+1) max|c| + max|u|)
  away from the nodes (clamped; B_j >= 0 sum to 1 => |S-q| <= max|c-c_q|)  <= ||A^-1||_inf * (residual bound) + evaluation
  quadrature  (A^T w = m)  |w - w*|         <= |A^-T| K n eps (|A^T||w*| + |m|)
                           |w.u - I|        <= K n eps (|w*|.(|A||c|+|u|) + L max|c|),   |sum w - L| <= sum of the residual bound
  basis integrals          |m_j - true|     <= 8 K (p+2) eps (t[j+p+1]-t[j])
plus two representation terms that are also pure rounding: (i) the cubic-uniform path describes the space by
(xmin, dx = first cell width, ncells), so with float breakpoints its last breakpoint is off by <= (ncells+2) eps max|x|
(cu_abs / cu_rel below; zero on the general path); (ii) for "all weights equal" the float breakpoints are uniform only up to
2 eps max|x| and BSplines.greville rounds the points to 15 decimals.  On the unchanged tree the largest observed
|diff|/tol over all passing cases is 0.24 (quadrature) and 0.02 (interpolation); genuine mistakes (off-by-one, wrong wrap,
stale buffer, wrong branch, aliasing) give O(1) relative deviations - see the mutation list in the hand-over message.

python -m vf.rt.bounded_splines <C08|C09> <tier> <seed> <repo> [case.json]  -> JSON on stdout
"""
import json
import math
import os
import sys
import time
import traceback
import warnings

import numpy as np

warnings.filterwarnings('ignore')
from .bounded_layout import _setup  # noqa: E402

EPS = float(np.finfo(float).eps)
K = 16.0
CALIB = {}          # family -> largest |diff|/tol observed in cases that PASSED (printed to stderr with VF_CALIB=1)
CALIB_CASE = {}
NOTES = []


# ---------------------------------------------------------------------------------------------
# generation of spline spaces
# ---------------------------------------------------------------------------------------------

DOMAINS = [(0.0, 1.0), (0.0, 2 * math.pi), (-3.5, 2.25), (100.0, 100.5), (0.0, 1e-3), (-1e3, 3e3)]


def gen_breaks(rng, ncells, kind, dom):
    a, b = dom
    if kind == 'uniform' or ncells == 1:
        return np.linspace(a, b, ncells + 1)
    if kind == 'random':          # like tests/utilities.random_grid, a bit stronger
        w = rng.uniform(0.3, 1.7, ncells)
    elif kind == 'graded':        # geometric grading, total ratio <= ~60
        q = float(rng.uniform(0.7, 1.45))
        w = q ** np.arange(ncells)
    elif kind == 'wild':          # neighbouring cells differ by up to ~20x
        w = 10.0 ** rng.uniform(-1.3, 0.0, ncells)
    else:
        raise ValueError(kind)
    x = a + (b - a) * np.concatenate(([0.0], np.cumsum(w))) / w.sum()
    x[0], x[-1] = a, b
    assert np.all(np.diff(x) > 0)
    return x


def space_spec(p, ncells, periodic, uniform_flag, breaks):
    return dict(degree=int(p), periodic=bool(periodic), uniform=bool(uniform_flag), breaks=[float(v) for v in breaks])


def describe(spec):
    br = np.asarray(spec['breaks'])
    d = np.diff(br)
    uni = bool(np.allclose(d, d[0], rtol=1e-9, atol=0))
    path = 'cubic-uniform' if (spec['degree'] == 3 and spec['uniform']) else 'general'
    return dict(path=path, degree=spec['degree'], periodic=spec['periodic'], ncells=len(br) - 1, uniform_breaks=uni)


def class_key(check, spec, spec2=None):
    def one(sp):
        d = describe(sp)
        k = '%s|%s|%s' % (d['path'], 'periodic' if d['periodic'] else 'clamped', 'uniform' if d['uniform_breaks'] else 'non-uniform')
        if d['path'] == 'cubic-uniform' and not d['periodic'] and d['ncells'] <= 3:
            k += '|ncells=%d' % d['ncells']
        return k
    return '%s|%s' % (check, one(spec)) + (' x %s' % one(spec2) if spec2 is not None else '')


def enumerate_specs(rng, tier, degrees=(1, 2, 3, 4, 5), cells=range(1, 13)):
    """All (degree, ncells, boundary) in the bound, each on uniform breaks (both values of the `uniform` flag, i.e. also the
    cubic-uniform fast path) and on several non-uniform break sets."""
    nu = ['random', 'wild'] if tier == 'quick' else ['random', 'wild', 'graded'] * 5
    specs = []
    for p in degrees:
        for nc in cells:
            for per in (False, True):
                if per and nc <= p:
                    continue
                if tier == 'quick':
                    dom = DOMAINS[int(rng.integers(0, len(DOMAINS)))]
                    specs.append(space_spec(p, nc, per, True, gen_breaks(rng, nc, 'uniform', dom)))
                    dom = DOMAINS[int(rng.integers(0, len(DOMAINS)))]
                    specs.append(space_spec(p, nc, per, False, gen_breaks(rng, nc, 'uniform', dom)))
                else:
                    for dom in DOMAINS:
                        for flag in ((True, False) if (p == 3 or dom == DOMAINS[0]) else (bool(rng.integers(0, 2)),)):
                            specs.append(space_spec(p, nc, per, flag, gen_breaks(rng, nc, 'uniform', dom)))
                if nc > 1:
                    for kind in nu:
                        dom = DOMAINS[int(rng.integers(0, len(DOMAINS)))]
                        specs.append(space_spec(p, nc, per, False, gen_breaks(rng, nc, kind, dom)))
    if tier != 'quick':
        for nc in (16, 20, 33):
            for p in degrees:
                for per in (False, True):
                    for kind, flag in (('uniform', True), ('random', False), ('graded', False)):
                        dom = DOMAINS[int(rng.integers(0, len(DOMAINS)))]
                        specs.append(space_spec(p, nc, per, flag, gen_breaks(rng, nc, kind, dom)))
        # beyond the stated bound (1-D only): degrees 6-8
        for p in (6, 7, 8):
            for nc in (1, 2, 5, 9, 10, 12):
                for per in (False, True):
                    if per and nc <= p:
                        continue
                    for kind, flag in (('uniform', True), ('uniform', False), ('random', False), ('wild', False)):
                        dom = DOMAINS[int(rng.integers(0, len(DOMAINS)))]
                        specs.append(space_spec(p, nc, per, flag, gen_breaks(rng, nc, kind, dom)))
    return specs


# ---------------------------------------------------------------------------------------------
# the space: real objects + independent oracle
# ---------------------------------------------------------------------------------------------

class OracleError(Exception):
    """The oracle disagrees with itself: a harness problem, not a property violation."""


class Space:
    def __init__(self, spec):
        from scipy.interpolate import BSpline
        from pygyro.splines.splines import make_knots, BSplines
        self.spec = spec
        p = self.p = int(spec['degree'])
        per = self.periodic = bool(spec['periodic'])
        uni = bool(spec['uniform'])
        br = self.breaks = np.array(spec['breaks'], dtype=float)
        nc = self.ncells = len(br) - 1
        self.a, self.b = float(br[0]), float(br[-1])
        self.L = self.b - self.a
        self.ncoef = nc + p
        self.nb = nc if per else nc + p
        self.cu = (p == 3) and uni
        # ---- real objects
        self.knots_repo = make_knots(br.copy(), p, per)
        self.knots_repo0 = np.array(self.knots_repo, copy=True)
        self.basis = BSplines(self.knots_repo, p, per, uni)
        # ---- oracle knot vector, from the definition
        if self.cu:
            dx = br[1] - br[0]
            t = br[0] + (np.arange(nc + 7) - 3.0) * dx
        elif per:
            t = np.concatenate((br[-p - 1:-1] - self.L, br, br[1:p + 1] + self.L))
        else:
            t = np.concatenate((np.full(p, br[0]), br, np.full(p, br[-1])))
        self.t = t
        assert len(t) == self.ncoef + p + 1
        self._B = BSpline(t, np.eye(self.ncoef), p, extrapolate=True)
        self._BSpline = BSpline
        # column index of the independent coefficient behind every stored coefficient
        self.idx = np.arange(self.ncoef) % self.nb
        # ---- Gauss-Legendre rule on every cell (p+1 nodes: exact to degree 2p+1)
        g, w = np.polynomial.legendre.leggauss(p + 1)
        h = np.diff(br)
        self.qx = (br[:-1, None] + 0.5 * h[:, None] * (g[None, :] + 1.0)).ravel()
        self.qw = (0.5 * h[:, None] * w[None, :]).ravel()
        # ---- true integrals over the domain of the unwrapped basis functions: exact antiderivative (a spline of degree p+1
        # on the same knots, scipy) taken between the two end breakpoints; uses knot differences only, so it stays accurate
        # on domains far from the origin, where Gauss nodes would be rounded by eps*|x| (relative eps*|x|/h in cell units)
        anti = BSpline(t, np.eye(self.ncoef), p, extrapolate=True).antiderivative()
        self.m_full = np.asarray(anti(self.b)) - np.asarray(anti(self.a))
        self.pos_err = EPS * max(abs(self.a), abs(self.b)) / float(h.min())
        # cubic-uniform fast path: the space is defined by (xmin, dx = first cell width, ncells); with float breakpoints the
        # last breakpoint xmin + ncells*dx differs from xmax by up to (ncells+2) eps max|x|.  Treated as rounding:
        # cu_abs = that length, cu_rel = the same in cell units.  Zero on the general path (only knot differences are used).
        self.cu_abs = (nc + 2) * EPS * max(abs(self.a), abs(self.b)) if self.cu else 0.0
        self.cu_rel = self.cu_abs / float(h.min())
        self._selfcheck()

    # B_j(x) for all stored (unwrapped) basis functions: (len(x), ncells+p)
    def colloc_full(self, x):
        x = np.atleast_1d(np.asarray(x, dtype=float))
        tiny = 4 * EPS * max(abs(self.a), abs(self.b), self.L)
        if not (np.all(x >= self.a - tiny) and np.all(x <= self.b + tiny)):
            raise ValueError('point outside the domain')
        return np.asarray(self._B(x))

    # the same with the periodic duplicates folded onto the first p columns: (len(x), nbasis)
    def wrap_cols(self, M):
        if not self.periodic:
            return M
        W = M[:, :self.nb].copy()
        W[:, :self.p] += M[:, self.nb:]
        return W

    def colloc(self, x):
        return self.wrap_cols(self.colloc_full(x))

    def unwrap(self, c):
        return np.asarray(c)[self.idx]

    def wrapped_integrals(self):
        m = self.m_full[:self.nb].copy()
        if self.periodic:
            m[:self.p] += self.m_full[self.nb:]
        return m

    def eval_full(self, cfull, x):
        return self.colloc_full(x) @ np.asarray(cfull)

    def integrate_full(self, cfull):
        return self.m_full @ np.asarray(cfull)

    def gl_tol(self, cmax):
        """Rounding of the Gauss-Legendre sum of a spline with coefficients bounded by cmax (incl. rounding of the node positions)."""
        return (K * (self.p + 1) * self.ncells * EPS + 8 * self.p * self.pos_err) * self.L * cmax

    def _selfcheck(self):
        p, t = self.p, self.t
        rows = self.colloc_full(np.concatenate((self.qx, self.breaks))).sum(axis=1)
        if np.abs(rows - 1).max() > 1e-12:
            raise OracleError('oracle basis is not a partition of unity on the domain')
        # exact antiderivative (scipy) against Gauss-Legendre per cell
        m2 = self.qw @ self.colloc_full(self.qx)
        scale = np.abs(self.m_full).max()
        if np.abs(m2 - self.m_full).max() > self.gl_tol(1.0) + 1e-13 * scale + self.cu_abs:
            raise OracleError('oracle integrals: Gauss-Legendre and antiderivative disagree by %g' % np.abs(m2 - self.m_full).max())
        full = (t[p + 1:] - t[:-p - 1]) / (p + 1)     # integral over the whole support
        inside = (t[:self.ncoef] >= self.a - 1e-14 * self.L) & (t[p + 1:] <= self.b + 1e-14 * self.L)
        if np.abs(self.m_full - full)[inside].max(initial=0.0) > 1e-12 * scale + self.cu_abs:
            raise OracleError('oracle integrals disagree with the closed form')
        if self.periodic:
            wsum = self.m_full[:p] + self.m_full[self.nb:]
            if np.abs(wsum - full[:p]).max() > 1e-12 * scale + self.cu_abs:
                raise OracleError('oracle integrals: periodic continuation inconsistent')
        if abs(self.m_full.sum() - self.L) > 1e-12 * self.L + self.cu_abs:
            raise OracleError('oracle integrals do not sum to the domain length')


# ---------------------------------------------------------------------------------------------
# helpers
# ---------------------------------------------------------------------------------------------

def cmp(label, got, want, tol, errs, calib=None):
    """Record a violation if |got-want| <= tol fails anywhere (NaN counts as a failure)."""
    got = np.atleast_1d(np.asarray(got))
    want = np.atleast_1d(np.asarray(want))
    if got.shape != want.shape:
        errs.append('%s: shape %s, expected %s' % (label, got.shape, want.shape))
        return False
    tol = np.broadcast_to(np.asarray(tol, dtype=float), want.shape)
    d = np.abs(got - want)
    ratio = np.where(tol > 0, d / np.where(tol > 0, tol, 1.0), np.where(d == 0, 0.0, np.inf))
    ratio = np.where(np.isfinite(d), ratio, np.inf)
    key = calib or label.split(':')[0]
    fin = ratio[np.isfinite(ratio)]
    if fin.size:
        CALIB_CASE[key] = max(CALIB_CASE.get(key, 0.0), float(fin.max()))
    bad = ~(ratio <= 1.0)
    if bad.any():
        k = np.unravel_index(int(np.argmax(np.where(np.isnan(ratio), np.inf, ratio))), want.shape)
        ks = k[0] if len(k) == 1 else tuple(int(v) for v in k)
        errs.append('%s: at index %s got %r, expected %r, |diff| = %.3e > tol %.3e (%d of %d entries off)'
                    % (label, ks, complex(got[k]) if np.iscomplexobj(got) else float(got[k]),
                       complex(want[k]) if np.iscomplexobj(want) else float(want[k]), float(d[k]), float(tol[k]), int(bad.sum()), want.size))
        return False
    return True


def polyval_s(coef, x, a, b):
    """Polynomial sum_k coef[k] s^k in the scaled variable s = (x-mid)/(half length)."""
    s = (np.asarray(x, dtype=float) - 0.5 * (a + b)) / (0.5 * (b - a))
    r = np.zeros(s.shape, dtype=np.result_type(np.asarray(coef).dtype, float))
    for c in coef[::-1]:
        r = r * s + c
    return r


def polyint_s(coef, a, b):
    """Exact integral over [a,b] of the polynomial in s."""
    tot = 0.0
    for k, c in enumerate(coef):
        if k % 2 == 0:
            tot = tot + c * 2.0 / (k + 1)
    return tot * 0.5 * (b - a)


def make_vec(kind, n, rng, x, sp):
    """Data vector of the given kind; returns (values, function or None, magnitude of the function's own rounding)."""
    if kind == 'normal':
        return rng.standard_normal(n), None
    if kind == 'bad':
        scale = 10.0 ** float(rng.choice([-12, 0, 12]))
        return scale * rng.choice([-1.0, 1.0], n) * 10.0 ** rng.uniform(-5, 5, n), None
    if kind == 'spike':
        v = np.zeros(n)
        v[int(rng.integers(0, n))] = 1.0
        return v, None
    if kind == 'const':
        c = float(rng.uniform(-3, 3))
        return np.full(n, c), (lambda y: np.full(np.shape(y), c))
    if kind == 'saw':
        return (-1.0) ** np.arange(n) * float(rng.uniform(0.5, 2)), None
    if kind.startswith('poly'):
        d = int(kind[4:])
        coef = rng.standard_normal(d + 1)
        coef[d] = math.copysign(0.5 + abs(coef[d]), coef[d])
        f = (lambda y, coef=coef: polyval_s(coef, y, sp.a, sp.b))
        f.coef = coef
        return f(x), f
    if kind == 'mono':          # x^p in the raw variable (badly conditioned on shifted domains, still in the space)
        f = (lambda y: np.asarray(y, dtype=float) ** sp.p)
        return f(x), f
    raise ValueError(kind)


def make_data(kind, n, seed, idx, x, sp, cplx=False):
    rng = np.random.default_rng([int(seed), int(idx), 11])
    u, f = make_vec(kind, n, rng, x, sp)
    if cplx:
        rng2 = np.random.default_rng([int(seed), int(idx), 12])
        kind2 = kind if f is not None else ('normal' if kind == 'spike' else kind)
        u2, f2 = make_vec(kind2, n, rng2, x, sp)
        u = u + 1j * u2
        if f is not None:
            f = (lambda y, f=f, f2=f2: f(y) + 1j * f2(y))
    return u, f


def probe_points(sp, rng):
    br = sp.breaks
    h = np.diff(br)
    pts = [br, br[:-1] + 0.5 * h, np.nextafter(br[1:], -np.inf), np.nextafter(br[:-1], np.inf)]
    for _ in range(3):
        pts.append(br[:-1] + h * rng.uniform(0, 1, len(h)))
    x = np.clip(np.concatenate(pts), sp.a, sp.b)
    return x


def check_points(sp, errs):
    """The interpolation points the object defines must be admissible: one per basis function, inside the domain, distinct."""
    x = np.array(sp.basis.greville, dtype=float)
    if x.shape != (sp.nb,):
        errs.append('greville has shape %s, expected (%d,)' % (x.shape, sp.nb))
        return None
    if not (np.all(np.isfinite(x)) and x.min() >= sp.a and x.max() <= sp.b):
        errs.append('interpolation points leave the domain [%r,%r]: min %r max %r' % (sp.a, sp.b, x.min(), x.max()))
        return None
    if len(np.unique(x)) != len(x):
        errs.append('interpolation points are not distinct')
        return None
    return x


def repo_eval_1d(spl, x, cplx):
    """Evaluate through the real Spline1D.eval: vector call for real splines, scalar calls always."""
    x = np.asarray(x, dtype=float)
    sc = np.array([spl.eval(float(v)) for v in x])
    if cplx:
        return sc, None
    return sc, np.asarray(spl.eval(x.copy()))


def resid_tol(sp, cfull, u):
    cmax = float(np.abs(cfull).max(initial=0.0))
    return K * sp.ncoef * EPS * ((sp.p + 1) * cmax + float(np.abs(u).max(initial=0.0))) + 4 * sp.p * sp.cu_rel * cmax


# ---------------------------------------------------------------------------------------------
# C08, structure of the space (make_knots, sizes, points)
# ---------------------------------------------------------------------------------------------

def c08_space(case):
    sp = Space(case['space'])
    errs = []
    b = sp.basis
    if not sp.cu:
        k = np.asarray(b.knots, dtype=float)
        if k.shape != sp.t.shape:
            errs.append('make_knots returned %d knots, expected %d' % (len(k), len(sp.t)))
        else:
            cmp('make_knots', k, sp.t, 4 * EPS * max(abs(sp.a), abs(sp.b), sp.L), errs)
    else:
        k = np.asarray(b.knots, dtype=float)
        cmp('cubic-uniform descriptor (xmin,xmax,dx,ncells)', k, np.array([sp.a, sp.b, sp.breaks[1] - sp.breaks[0], sp.ncells]),
            4 * EPS * max(abs(sp.a), abs(sp.b), sp.L), errs)
    if (b.degree, b.ncells, b.nbasis, bool(b.periodic), bool(b.cubic_uniform)) != (sp.p, sp.ncells, sp.nb, sp.periodic, sp.cu):
        errs.append('degree/ncells/nbasis/periodic/cubic_uniform = %r, expected %r'
                    % ((b.degree, b.ncells, b.nbasis, b.periodic, b.cubic_uniform), (sp.p, sp.ncells, sp.nb, sp.periodic, sp.cu)))
    cmp('breaks', np.asarray(b.breaks, dtype=float), sp.breaks, 8 * EPS * max(abs(sp.a), abs(sp.b), sp.L), errs)
    x = check_points(sp, errs)
    if x is not None:
        # the collocation matrix at those points must be invertible for the interpolation problem to be posed at all
        A = sp.colloc(x)
        cond = np.linalg.cond(A, np.inf)
        if not cond < 1e12:
            errs.append('collocation matrix at the interpolation points is (numerically) singular: cond = %.3e' % cond)
        # the real collocation matrix against B_j(x_i) of the oracle
        from pygyro.splines.spline_interpolators import SplineInterpolator1D
        M = SplineInterpolator1D.collocation_matrix(b.nbasis, b.knots, b.degree, b.greville, b.periodic, b.cubic_uniform)
        cmp('collocation_matrix', np.asarray(M), A, K * (sp.p + 1) * EPS * sp.ncells + 4 * sp.p * sp.cu_rel, errs)
    return errs


# ---------------------------------------------------------------------------------------------
# C08, 1-D
# ---------------------------------------------------------------------------------------------

def c08_interp1d(case):
    from pygyro.splines.splines import Spline1D
    from pygyro.splines.spline_interpolators import SplineInterpolator1D
    sp = Space(case['space'])
    mode = case.get('dtype', 'float')          # float | complex | real_in_complex
    cplx_obj = mode in ('complex', 'real_in_complex')
    cplx_dat = mode == 'complex'
    dt = complex if cplx_obj else float
    errs = []
    x = check_points(sp, errs)
    if x is None:
        return errs
    n, p = sp.nb, sp.p
    A = sp.colloc(x)
    Afull_nodes = sp.colloc_full(x)
    invn = float(np.abs(np.linalg.inv(A)).sum(axis=1).max())
    interp_a = SplineInterpolator1D(sp.basis, dtype=dt)
    # optionally a second interpolator sharing the BSplines object takes the odd steps
    interp_b = SplineInterpolator1D(sp.basis, dtype=dt) if case.get('two_interps') else interp_a
    spl = [Spline1D(sp.basis, dt), Spline1D(sp.basis, dt)]
    if spl[0].coeffs.shape != (sp.ncoef,):
        errs.append('Spline1D.coeffs has shape %s, expected (%d,)' % (spl[0].coeffs.shape, sp.ncoef))
        return errs
    kinds = list(case['data'])
    seq = list(range(len(kinds))) + [0]
    rngp = np.random.default_rng([int(case['seed']), 99])
    X = probe_points(sp, rngp)
    first = None
    for step, di in enumerate(seq):
        u, f = make_data(kinds[di], n, case['seed'], di, x, sp, cplx_dat)
        tgt, oth = spl[step % 2], spl[(step + 1) % 2]
        oth_before = oth.coeffs.copy()
        if case.get('strided'):
            big = np.zeros(2 * n, dtype=u.dtype)
            big[::2] = u
            big[1::2] = 7.0e33
            uin = big[::2]
        else:
            uin = u.copy()
        tag = 'step %d (data %s -> spline %d)' % (step, kinds[di], step % 2)
        try:
            (interp_b if step % 2 else interp_a).compute_interpolant(uin, tgt)
        except Exception as e:
            errs.append('%s: compute_interpolant raised %r' % (tag, e))
            return errs
        if not np.array_equal(uin, u):
            errs.append('%s: the data vector was modified' % tag)
        if not np.array_equal(oth.coeffs, oth_before):
            errs.append('%s: the coefficients of the OTHER spline changed' % tag)
        c = np.asarray(tgt.coeffs)
        if c.shape != (sp.ncoef,):
            errs.append('%s: coefficient array has shape %s' % (tag, c.shape))
            return errs
        if sp.periodic and not np.array_equal(c[n:n + p], c[:p]):
            errs.append('%s: wrapped coefficients inconsistent: c[n:n+p] = %r but c[0:p] = %r' % (tag, c[n:n + p].tolist(), c[:p].tolist()))
        cstar = sp.unwrap(np.linalg.solve(A, u))
        tol = resid_tol(sp, cstar, u)
        # the defining identity, spline evaluated independently from the stored coefficients
        cmp('%s: S(x_i) = u_i, coefficients evaluated by the oracle' % tag, Afull_nodes @ c, u, tol, errs, 'resid1d')
        sc, vec = repo_eval_1d(tgt, x, cplx_obj)
        cmp('%s: S(x_i) = u_i, Spline1D.eval (scalar calls)' % tag, sc, u, tol, errs, 'resid1d')
        if vec is not None:
            cmp('%s: S(x_i) = u_i, Spline1D.eval (array call)' % tag, vec, u, tol, errs, 'resid1d')
        if f is not None and (not sp.periodic):
            # polynomial reproduction everywhere
            want = f(X)
            tolX = invn * tol + K * sp.ncoef * EPS * (p + 1) * float(np.abs(cstar).max()) + 64 * EPS * float(np.abs(want).max())
            cmp('%s: polynomial reproduced at arbitrary points, oracle evaluation' % tag, sp.colloc_full(X) @ c, want, tolX, errs, 'every1d')
            sc, vec = repo_eval_1d(tgt, X, cplx_obj)
            cmp('%s: polynomial reproduced at arbitrary points, Spline1D.eval (scalar calls)' % tag, sc, want, tolX, errs, 'every1d')
            if vec is not None:
                cmp('%s: polynomial reproduced at arbitrary points, Spline1D.eval (array call)' % tag, vec, want, tolX, errs, 'every1d')
        if step == 0:
            first = c.copy()
        if step == len(seq) - 1 and len(seq) > 1 and not np.array_equal(c, first):
            errs.append('%s: same interpolator, same data as step 0, different coefficients (max diff %.3e)' % (tag, np.abs(c - first).max()))
        if len(errs) >= 4:
            break
    return errs


# ---------------------------------------------------------------------------------------------
# C08, 2-D
# ---------------------------------------------------------------------------------------------

def make_mat(kind, sp1, sp2, x1, x2, seed, idx):
    rng = np.random.default_rng([int(seed), int(idx), 21])
    n1, n2 = sp1.nb, sp2.nb
    if kind == 'normal':
        return rng.standard_normal((n1, n2)), None
    if kind == 'bad':
        scale = 10.0 ** float(rng.choice([-12, 0, 12]))
        return scale * rng.choice([-1.0, 1.0], (n1, n2)) * 10.0 ** rng.uniform(-5, 5, (n1, n2)), None
    if kind == 'spike':
        U = np.zeros((n1, n2))
        U[int(rng.integers(0, n1)), int(rng.integers(0, n2))] = 1.0
        return U, None
    if kind == 'sep':
        # product f1(x1) f2(x2): polynomial of full degree in every clamped direction, arbitrary nodal data in periodic ones
        fs = []
        for d, (sp, x) in enumerate(((sp1, x1), (sp2, x2))):
            if sp.periodic:
                fs.append((rng.standard_normal(sp.nb), None))
            else:
                fs.append(make_vec('poly%d' % sp.p, sp.nb, rng, x, sp))
        return np.outer(fs[0][0], fs[1][0]), fs
    if kind == 'sum':           # x1^a + x2^b type, not separable: polynomial only if both clamped
        fs = []
        for sp, x in ((sp1, x1), (sp2, x2)):
            fs.append(make_vec('poly%d' % sp.p, sp.nb, rng, x, sp) if not sp.periodic else (rng.standard_normal(sp.nb), None))
        return fs[0][0][:, None] + fs[1][0][None, :], None
    raise ValueError(kind)


def c08_interp2d(case):
    from pygyro.splines.splines import Spline2D
    from pygyro.splines.spline_interpolators import SplineInterpolator2D
    sp1 = Space(case['space1'])
    sp2 = sp1 if case.get('same_basis') else Space(case['space2'])     # one BSplines object for both directions
    errs = []
    x1, x2 = check_points(sp1, errs), check_points(sp2, errs)
    if x1 is None or x2 is None:
        return errs
    n1, n2, p1, p2 = sp1.nb, sp2.nb, sp1.p, sp2.p
    A1, A2 = sp1.colloc(x1), sp2.colloc(x2)
    F1, F2 = sp1.colloc_full(x1), sp2.colloc_full(x2)
    inv1 = float(np.abs(np.linalg.inv(A1)).sum(axis=1).max())
    inv2 = float(np.abs(np.linalg.inv(A2)).sum(axis=1).max())
    interp = SplineInterpolator2D(sp1.basis, sp2.basis)
    spl = [Spline2D(sp1.basis, sp2.basis), Spline2D(sp1.basis, sp2.basis)]
    shape = (sp1.ncoef, sp2.ncoef)
    if spl[0].coeffs.shape != shape:
        errs.append('Spline2D.coeffs has shape %s, expected %s' % (spl[0].coeffs.shape, shape))
        return errs
    kinds = list(case['data'])
    # data 0 -> spline A, data 1.. -> spline A again (overwrites: nothing stale may survive), finally data 0 -> spline B
    seq = [(i, 0) for i in range(len(kinds))] + [(0, 1)]
    rngp = np.random.default_rng([int(case['seed']), 98])
    first = None
    nn = n1 + n2 + p1 + p2
    for step, (di, ti) in enumerate(seq):
        U, fs = make_mat(kinds[di], sp1, sp2, x1, x2, case['seed'], di)
        tgt, oth = spl[ti], spl[1 - ti]
        oth_before = oth.coeffs.copy()
        lay = case.get('layout', 'C')
        if lay == 'F':
            uin = np.asfortranarray(U)
        elif lay == 'strided':
            big = np.full((2 * n1, 3 * n2), 7.0e33)
            big[::2, 1::3] = U
            uin = big[::2, 1::3]
        else:
            uin = U.copy()
        tag = 'step %d (data %s -> spline %s)' % (step, kinds[di], 'AB'[ti])
        try:
            interp.compute_interpolant(uin, tgt)
        except Exception as e:
            errs.append('%s: compute_interpolant raised %r' % (tag, e))
            return errs
        if not np.array_equal(uin, U):
            errs.append('%s: the data matrix was modified' % tag)
        if not np.array_equal(oth.coeffs, oth_before):
            errs.append('%s: the coefficients of the OTHER spline changed' % tag)
        C = np.asarray(tgt.coeffs)
        if C.shape != shape:
            errs.append('%s: coefficient array has shape %s' % (tag, C.shape))
            return errs
        if sp1.periodic and not np.array_equal(C[n1:n1 + p1, :], C[:p1, :]):
            errs.append('%s: direction-1 wrapped coefficients inconsistent: max |c[n1+k,:]-c[k,:]| = %.3e'
                        % (tag, np.abs(C[n1:n1 + p1, :] - C[:p1, :]).max()))
        if sp2.periodic and not np.array_equal(C[:, n2:n2 + p2], C[:, :p2]):
            errs.append('%s: direction-2 wrapped coefficients inconsistent: max |c[:,n2+k]-c[:,k]| = %.3e'
                        % (tag, np.abs(C[:, n2:n2 + p2] - C[:, :p2]).max()))
        W = np.linalg.solve(A1, U)
        Cs = np.linalg.solve(A2, W.T).T
        Cs = Cs[sp1.idx][:, sp2.idx]
        tol = K * nn * EPS * ((p1 + 1) * (p2 + 1) * float(np.abs(Cs).max()) + float(np.abs(U).max())) \
            + 4 * (p1 * sp1.cu_rel + p2 * sp2.cu_rel) * float(np.abs(Cs).max())
        cmp('%s: S(x1_i,x2_j) = u_ij, coefficients evaluated by the oracle' % tag, F1 @ C @ F2.T, U, tol, errs, 'resid2d')
        try:
            got = np.asarray(tgt.eval(x1.copy(), x2.copy()))
            cmp('%s: S(x1_i,x2_j) = u_ij, Spline2D.eval (array call)' % tag, got, U, tol, errs, 'resid2d')
            for _ in range(4):
                i, j = int(rngp.integers(0, n1)), int(rngp.integers(0, n2))
                cmp('%s: S(x1_%d,x2_%d) = u_ij, Spline2D.eval (scalar call)' % (tag, i, j), tgt.eval(float(x1[i]), float(x2[j])), U[i, j], tol, errs, 'resid2d')
        except Exception as e:
            errs.append('%s: Spline2D.eval raised %r' % (tag, e))
        if fs is not None and not (sp1.periodic and sp2.periodic):
            # reproduction away from the nodes in every clamped direction
            X1 = x1 if sp1.periodic else probe_points(sp1, rngp)
            X2 = x2 if sp2.periodic else probe_points(sp2, rngp)
            v1 = fs[0][0] if sp1.periodic else fs[0][1](X1)
            v2 = fs[1][0] if sp2.periodic else fs[1][1](X2)
            want = np.outer(v1, v2)
            tolX = inv1 * inv2 * tol + K * nn * EPS * (p1 + 1) * (p2 + 1) * float(np.abs(Cs).max()) + 64 * EPS * float(np.abs(want).max())
            cmp('%s: product of polynomials (clamped directions) reproduced away from the nodes, oracle evaluation' % tag,
                sp1.colloc_full(X1) @ C @ sp2.colloc_full(X2).T, want, tolX, errs, 'every2d')
            try:
                sel1 = X1 if len(X1) <= 24 else X1[rngp.choice(len(X1), 24, replace=False)]
                sel2 = X2 if len(X2) <= 24 else X2[rngp.choice(len(X2), 24, replace=False)]
                w1 = fs[0][0] if sp1.periodic else fs[0][1](sel1)
                w2 = fs[1][0] if sp2.periodic else fs[1][1](sel2)
                got = np.asarray(tgt.eval(np.array(sel1, dtype=float), np.array(sel2, dtype=float)))
                cmp('%s: product of polynomials reproduced away from the nodes, Spline2D.eval' % tag, got, np.outer(w1, w2), tolX, errs, 'every2d')
            except Exception as e:
                errs.append('%s: Spline2D.eval raised %r' % (tag, e))
        if step == 0:
            first = C.copy()
        if step == len(seq) - 1 and not np.array_equal(C, first):
            errs.append('%s: same interpolator, same data as step 0, different coefficients (max diff %.3e)' % (tag, np.abs(C - first).max()))
        if len(errs) >= 4:
            break
    return errs


# ---------------------------------------------------------------------------------------------
# C09
# ---------------------------------------------------------------------------------------------

def oracle_weights(sp, x):
    A = sp.colloc(x)
    m = sp.wrapped_integrals()
    w = np.linalg.solve(A.T, m)
    return A, m, w


def c09_integrals(case):
    sp = Space(case['space'])
    errs = []
    p, n = sp.p, sp.nb
    got = np.asarray(sp.basis.integrals)
    if got.shape != (sp.ncoef,):
        errs.append('basis.integrals has shape %s, expected (%d,)' % (got.shape, sp.ncoef))
        return errs
    t = sp.t
    supp = t[p + 1:] - t[:-p - 1]
    tol = 8 * K * (p + 2) * EPS * supp + sp.cu_abs
    if not sp.periodic:
        cmp('integrals[i] = integral over the domain of basis function i', got, sp.m_full, tol, errs, 'integrals')
    else:
        # interior functions entry by entry; function j < p is continued by entry n+j: their sum is its integral over the period
        cmp('integrals[i] = integral over the domain of basis function i (functions p..n-1, support inside the domain)',
            got[p:n], sp.m_full[p:n], tol[p:n], errs, 'integrals')
        cmp('integrals[j] + integrals[n+j] = integral over one period of periodic basis function j (j < p)',
            got[:p] + got[n:], sp.m_full[:p] + sp.m_full[n:], tol[:p], errs, 'integrals')
        if not errs:
            strict = np.abs(got - sp.m_full) <= tol
            if not strict.all() and len(NOTES) < 4:
                NOTES.append('representation only (not counted): %s stores periodic integrals as %s; the unwrapped functions integrate to %s over the domain'
                             % (describe(sp.spec), np.round(got, 6).tolist(), np.round(sp.m_full, 6).tolist()))
    cmp('sum(integrals) = domain length', got.sum(), sp.L, K * sp.ncoef * EPS * sp.L + sp.cu_abs, errs, 'integrals_sum')
    return errs


def c09_weights(case):
    from pygyro.splines.spline_interpolators import SplineInterpolator1D
    sp = Space(case['space'])
    errs = []
    x = check_points(sp, errs)
    if x is None:
        return errs
    interp = SplineInterpolator1D(sp.basis)
    try:
        w = np.asarray(interp.get_quadrature_coefficients())
    except Exception as e:
        return ['get_quadrature_coefficients raised %r' % (e,)]
    if w.shape != (sp.nb,):
        return ['weights have shape %s, expected (%d,)' % (w.shape, sp.nb)]
    A, m, ws = oracle_weights(sp, x)
    r = K * sp.ncoef * EPS * (np.abs(A.T) @ np.abs(ws) + np.abs(m)) + sp.cu_abs + 4 * sp.p * sp.cu_rel * np.abs(ws).max()
    tolw = np.abs(np.linalg.inv(A)).T @ r
    cmp('sum of weights = domain length', w.sum(), sp.L, r.sum() + K * sp.ncoef * EPS * np.abs(ws).sum(), errs, 'wsum')
    cmp('weight k = integral of the k-th cardinal interpolating spline (w.e_k)', w, ws, tolw, errs, 'weights')
    d = np.diff(sp.breaks)
    if sp.periodic and np.allclose(d, d[0], rtol=1e-9, atol=0):
        # the breakpoints are floats: "uniform" holds up to their rounding, 2 eps max|x| per cell width
        # and BSplines.greville rounds the points to 15 decimals (absolute), i.e. by up to 0.5e-15/h in cell units
        invn = float(np.abs(np.linalg.inv(A)).sum(axis=1).max())
        cmp('uniform periodic space: all weights equal (to L/n)', w, np.full(sp.nb, sp.L / sp.nb),
            tolw + 4 * EPS * max(abs(sp.a), abs(sp.b)) + 8 * (sp.p + 1) * invn * (0.5e-15 / d.min()) * float(np.abs(ws).max()), errs, 'wequal')
    return errs


def c09_exact(case):
    from pygyro.splines.splines import Spline1D
    from pygyro.splines.spline_interpolators import SplineInterpolator1D
    sp = Space(case['space'])
    errs = []
    x = check_points(sp, errs)
    if x is None:
        return errs
    interp = SplineInterpolator1D(sp.basis)
    try:
        w = np.asarray(interp.get_quadrature_coefficients())
    except Exception as e:
        return ['get_quadrature_coefficients raised %r' % (e,)]
    if w.shape != (sp.nb,):
        return ['weights have shape %s, expected (%d,)' % (w.shape, sp.nb)]
    A, m, ws = oracle_weights(sp, x)
    for di, kind in enumerate(case['data']):
        u, f = make_data(kind, sp.nb, case['seed'], di, x, sp)
        cs = np.linalg.solve(A, u)
        cfull = sp.unwrap(cs)
        I = sp.integrate_full(cfull)            # exact antiderivative of the oracle's interpolant
        tol = K * sp.ncoef * EPS * (np.abs(ws) @ (np.abs(A) @ np.abs(cs) + np.abs(u)) + sp.L * np.abs(cs).max()) \
            + (sp.cu_abs + 4 * sp.p * sp.cu_rel * np.abs(ws).max()) * np.abs(cs).sum()
        q = float(w @ u)
        cmp('data %s: weights.u = integral of the interpolating spline (oracle interpolant, exact antiderivative)' % kind, q, I, tol, errs, 'exact')
        # the same integral on the REAL interpolant, evaluated by the real Spline1D.eval at the Gauss points
        spl = Spline1D(sp.basis)
        interp.compute_interpolant(u.copy(), spl)
        I2 = float(sp.qw @ np.asarray(spl.eval(sp.qx.copy())))
        cmp('data %s: weights.u = integral of the interpolating spline (real interpolant + Spline1D.eval, Gauss-Legendre per cell)' % kind,
            q, I2, tol + sp.gl_tol(float(np.abs(cs).max())), errs, 'exactGL')
        if f is not None and hasattr(f, 'coef') and not sp.periodic:
            cmp('data %s: weights.u = exact integral of the polynomial (degree <= p, clamped)' % kind, q, polyint_s(f.coef, sp.a, sp.b),
                tol + 64 * EPS * sp.L * float(np.abs(f.coef).sum()), errs, 'exact')
        if len(errs) >= 3:
            break
    return errs


def c09_repeat(case):
    from pygyro.splines.splines import Spline1D, BSplines
    from pygyro.splines.spline_interpolators import SplineInterpolator1D
    sp = Space(case['space'])
    errs = []
    b = sp.basis
    integ0 = np.array(b.integrals, copy=True)
    i1 = SplineInterpolator1D(b)
    w1 = i1.get_quadrature_coefficients()
    ref = np.array(w1, copy=True)
    try:
        w1[:] = np.nan                     # the caller may do what it likes with the returned array
    except Exception:
        pass
    w2 = i1.get_quadrature_coefficients()
    if not np.array_equal(w2, ref):
        errs.append('second call on the same interpolator differs from the first (after the caller overwrote the first result): max diff %.3e'
                    % np.nanmax(np.abs(np.asarray(w2) - ref)))
    if not np.array_equal(b.integrals, integ0):
        errs.append('basis.integrals changed after two calls: %r -> %r' % (integ0.tolist(), np.asarray(b.integrals).tolist()))
    rng = np.random.default_rng([int(case['seed']), 5])
    spl = Spline1D(b)
    i1.compute_interpolant(rng.standard_normal(sp.nb), spl)
    w3 = i1.get_quadrature_coefficients()
    if not np.array_equal(w3, ref):
        errs.append('call after an interpolation on the same object differs: max diff %.3e' % np.abs(np.asarray(w3) - ref).max())
    i2 = SplineInterpolator1D(b)           # second interpolator sharing the BSplines object
    w4 = i2.get_quadrature_coefficients()
    w5 = i1.get_quadrature_coefficients()
    w6 = i2.get_quadrature_coefficients()
    for nm, w in (('second interpolator sharing the basis', w4), ('first interpolator after the second was used', w5),
                  ('second interpolator, second call', w6)):
        if not np.array_equal(w, ref):
            errs.append('%s: weights differ from the first result: max diff %.3e' % (nm, np.abs(np.asarray(w) - ref).max()))
    if not sp.periodic:
        i3 = SplineInterpolator1D(b, dtype=complex)
        w7 = np.asarray(i3.get_quadrature_coefficients())
        tolw = K * sp.ncoef * EPS * (np.abs(ref).max() + 0) * float(np.abs(np.linalg.inv(sp.colloc(np.asarray(b.greville)))).sum(axis=1).max())
        cmp('complex-typed interpolator sharing the basis: same weights', w7, ref.astype(complex), tolw, errs, 'wcomplex')
    if not np.array_equal(b.integrals, integ0):
        errs.append('basis.integrals changed by the quadrature calls: %r -> %r' % (integ0.tolist(), np.asarray(b.integrals).tolist()))
    if not np.array_equal(sp.knots_repo, sp.knots_repo0):
        errs.append('the knot array handed to BSplines was modified')
    fresh = BSplines(np.array(sp.knots_repo0, copy=True), sp.p, sp.periodic, bool(sp.spec['uniform']))
    if not np.array_equal(fresh.integrals, integ0):
        errs.append('a fresh BSplines on the same knots has different integrals')
    return errs


# ---------------------------------------------------------------------------------------------
# drivers
# ---------------------------------------------------------------------------------------------

CHECKS = {'space': c08_space, 'interp1d': c08_interp1d, 'interp2d': c08_interp2d,
          'integrals': c09_integrals, 'weights': c09_weights, 'exact': c09_exact, 'repeat': c09_repeat}


def run_case(case):
    return CHECKS[case['check']](case)


PRIORITY = ['integrals', 'space', 'interp1d', 'interp2d', 'weights', 'exact', 'repeat']


class Collector:
    def __init__(self):
        self.out = dict(evaluated=0, ok=0, failures=[], samples=[], errors=[], failure_classes={})
        self.cand = {}          # class -> first failing case of that class

    def add(self, case, key_spec, sample=False):
        CALIB_CASE.clear()
        try:
            errs = run_case(case)
        except OracleError:
            if len(self.out['errors']) < 5:
                self.out['errors'].append(dict(case=case, traceback=traceback.format_exc()[-800:]))
            return
        except Exception:
            # the real code raising on an admissible input is a violation; record with the traceback tail
            errs = ['raised: ' + traceback.format_exc()[-600:]]
        self.out['evaluated'] += 1
        if sample and len(self.out['samples']) < 5:
            self.out['samples'].append(case)
        if not errs:
            self.out['ok'] += 1
            for k, v in CALIB_CASE.items():
                CALIB[k] = max(CALIB.get(k, 0.0), v)
            return
        key = class_key(case['check'], key_spec, case.get('space2'))
        fc = self.out['failure_classes']
        fc[key] = fc.get(key, 0) + 1
        if key not in self.cand:
            self.cand[key] = dict(case=case, detail='; '.join(errs[:3]), cls=key)

    def finish(self):
        """At most 6 reported failures: one per class of space first (root-cause checks first), then further checks."""
        def space_class(k):
            return k.split('|', 1)[1]

        def prio(k):
            c = k.split('|', 1)[0]
            return PRIORITY.index(c) if c in PRIORITY else len(PRIORITY)
        keys = sorted(self.cand, key=lambda k: (prio(k), k))
        chosen, used = [], {}
        for rnd in range(len(PRIORITY) + 1):
            for k in keys:
                if k in chosen or used.get(space_class(k), 0) != rnd:
                    continue
                if len(chosen) < 6:
                    chosen.append(k)
                    used[space_class(k)] = used.get(space_class(k), 0) + 1
            for sc in list(used):
                used[sc] = max(used[sc], rnd + 1)
        self.out['failures'] = [self.cand[k] for k in chosen]
        return self.out


def c09_run(tier, seed):
    rng = np.random.default_rng([int(seed), 9])
    col = Collector()
    specs = enumerate_specs(rng, tier)
    for k, spec in enumerate(specs):
        s = int(rng.integers(0, 2 ** 31))
        col.add(dict(check='integrals', space=spec), spec, sample=(k % 97 == 0))
        col.add(dict(check='weights', space=spec), spec, sample=(k % 89 == 3))
        kinds = ['normal', 'bad', 'const', 'spike', 'saw']
        if not spec['periodic']:
            kinds += ['poly%d' % spec['degree'], 'poly%d' % int(rng.integers(0, spec['degree'] + 1))]
        col.add(dict(check='exact', space=spec, data=kinds, seed=s), spec, sample=(k % 83 == 5))
        col.add(dict(check='repeat', space=spec, seed=s), spec, sample=(k % 101 == 7))
    return col.finish()


def pair_specs(rng, n):
    """Pairs of 1-D spaces for 2-D interpolators: all boundary combinations, different sizes/degrees, and the cubic-uniform pairs
    (Spline2D insists that both directions agree on cubic_uniform)."""
    pairs = []
    combos = [(False, False), (False, True), (True, False), (True, True)]
    for k in range(n):
        per1, per2 = combos[k % 4]
        cu = (k // 4) % 4 == 0
        sp = []
        if cu:
            for per in (per1, per2):
                nc = int(rng.integers(4 if per else 1, 13))
                dom = DOMAINS[int(rng.integers(0, len(DOMAINS)))]
                sp.append(space_spec(3, nc, per, True, gen_breaks(rng, nc, 'uniform', dom)))
        else:
            p1 = int(rng.integers(1, 6))
            p2 = int(rng.integers(1, 6))
            if p2 == p1 and rng.integers(0, 5):
                p2 = p1 % 5 + 1
            for per, p in ((per1, p1), (per2, p2)):
                nc = int(rng.integers(p + 1 if per else 1, 13))
                dom = DOMAINS[int(rng.integers(0, len(DOMAINS)))]
                kind = ['uniform', 'random', 'wild', 'graded'][int(rng.integers(0, 4))]
                flag = (kind == 'uniform') and p != 3 and bool(rng.integers(0, 2))
                sp.append(space_spec(p, nc, per, flag, gen_breaks(rng, nc, kind, dom)))
        if k % 16 == 9:
            sp[1] = sp[0]
        pairs.append(tuple(sp))
    return pairs


def c08_run(tier, seed):
    rng = np.random.default_rng([int(seed), 8])
    col = Collector()
    specs = enumerate_specs(rng, tier)
    for k, spec in enumerate(specs):
        s = int(rng.integers(0, 2 ** 31))
        p = spec['degree']
        col.add(dict(check='space', space=spec), spec, sample=(k % 211 == 0))
        col.add(dict(check='interp1d', space=spec, dtype='float', data=['normal', 'bad', 'spike'], seed=s, strided=False, two_interps=bool(k % 3 == 1)),
                spec, sample=(k % 97 == 1))
        col.add(dict(check='interp1d', space=spec, dtype='float', data=['saw', 'const', 'bad'], seed=s + 1, strided=True), spec)
        if not spec['periodic']:
            col.add(dict(check='interp1d', space=spec, dtype='float', data=['poly%d' % d for d in range(p + 1)] + ['mono'], seed=s + 2,
                         strided=False), spec, sample=(k % 89 == 2))
            col.add(dict(check='interp1d', space=spec, dtype='complex', data=['normal', 'bad', 'poly%d' % p], seed=s + 3, strided=bool(k % 2)),
                    spec, sample=(k % 83 == 4))
            if k % 3 == 0:
                col.add(dict(check='interp1d', space=spec, dtype='real_in_complex', data=['normal', 'poly%d' % p], seed=s + 4, strided=False), spec)
    npairs = 160 if tier == 'quick' else 4800
    for k, (s1, s2) in enumerate(pair_specs(rng, npairs)):
        s = int(rng.integers(0, 2 ** 31))
        lay = ['C', 'F', 'strided'][k % 3]
        kinds = [['normal', 'sep', 'bad'], ['sep', 'spike', 'sum'], ['bad', 'normal', 'sep']][(k // 3) % 3]
        case = dict(check='interp2d', space1=s1, space2=s2, data=kinds, seed=s, layout=lay)
        if s1 is s2:
            case['same_basis'] = True
        col.add(case, s1, sample=(k % 53 == 0))
    return col.finish()


RUN = {'C08': c08_run, 'C09': c09_run}


def replay(prop, case):
    col = Collector()
    key_spec = case.get('space') or case.get('space1')
    col.add(case, key_spec, sample=True)
    return col.finish()


def main():
    prop, tier, seed, repo = sys.argv[1], sys.argv[2], int(sys.argv[3]), sys.argv[4]
    _setup(repo)
    t0 = time.time()
    try:
        if prop not in RUN:
            raise KeyError('this module serves %s, not %s' % (sorted(RUN), prop))
        if len(sys.argv) > 5:
            case = json.load(open(sys.argv[5]))
            out = replay(prop, case.get('case', case))
        else:
            out = RUN[prop](tier, seed)
        out.setdefault('errors', [])
        if NOTES:
            out['notes'] = NOTES[:4]
    except Exception:
        out = dict(evaluated=0, ok=0, failures=[], samples=[], errors=[traceback.format_exc()[-1500:]])
    out['wall_s'] = round(time.time() - t0, 2)
    if os.environ.get('VF_CALIB'):
        sys.stderr.write('largest |diff|/tol per check family: %s\n' % json.dumps({k: round(v, 4) for k, v in sorted(CALIB.items())}))
    json.dump(out, sys.stdout, default=lambda o: o.tolist() if hasattr(o, 'tolist') else str(o))


if __name__ == '__main__':
    main()
