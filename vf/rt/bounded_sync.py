"""Bounded stand-in for C06: matching collectives / no deadlock / route determinism (real code, simulated MPI).

python -m vf.rt.bounded_sync C06 <tier> <seed> <repo> [case.json]
"""
import itertools
import json
import os
import subprocess
import sys
import tempfile
import time
import traceback
import warnings

import numpy as np

warnings.filterwarnings('ignore')
from .bounded_layout import _setup, eta, global_field, local_block, gen_shape, orderings, STANDARD4, STANDARD3  # noqa


class FakeComm:
    def __init__(self, n):
        self.n = n

    def Get_size(self):
        return self.n


def route_maps(R, sets, nprocs):
    """Route maps of LayoutHandler for several layout sets (no communication needed)."""
    from pygyro.model.layout import LayoutHandler
    out = []
    for sel in sets:
        npts = [max(nprocs) + 2] * R
        layouts = {''.join(map(str, o)): list(o) for o in sel}
        try:
            h = LayoutHandler([FakeComm(n) for n in nprocs], [0] * len(nprocs), layouts, list(nprocs), eta(npts))
            out.append({a: {b: list(r) for b, r in d.items()} for a, d in h._route_map.items()} if len(layouts) > 1 else {})
        except RuntimeError as e:
            out.append('unconnected')
    return out


def layout_sets(rng, tier):
    sets = [(3, list(itertools.permutations(range(3))), (2, 2)), (4, STANDARD4, (2, 2)), (3, STANDARD3, (2, 3))]
    allo4 = orderings(4)
    for _ in range(6 if tier == 'quick' else 60):
        k = int(rng.integers(4, 11))
        sel = [allo4[i] for i in rng.choice(len(allo4), size=k, replace=False)]
        sets.append((4, sel, (2, 2) if rng.integers(0, 2) else (2, 3)))
    for _ in range(3 if tier == 'quick' else 20):
        allo3 = orderings(3)
        k = int(rng.integers(3, 7))
        sets.append((3, [allo3[i] for i in rng.choice(len(allo3), size=k, replace=False)], (2, 2)))
    return sets


def child_routes(repo, spec_path):
    _setup(repo)
    spec = json.load(open(spec_path))
    res = []
    for (R, sel, nprocs) in spec:
        res.append(route_maps(R, [[tuple(o) for o in sel]], tuple(nprocs))[0])
    json.dump(res, sys.stdout)


def check_routes(repo, rng, tier, out):
    sets = layout_sets(rng, tier)
    fd, path = tempfile.mkstemp(prefix='vfroutes-', suffix='.json', dir='/var/tmp')
    os.close(fd)
    json.dump([(R, [list(o) for o in sel], list(g)) for (R, sel, g) in sets], open(path, 'w'))
    seeds = [0, 1, 2, 3, 5, 7] if tier == 'quick' else list(range(16))
    here = os.path.dirname(os.path.dirname(os.path.dirname(os.path.abspath(__file__))))
    results = {}
    try:
        for hs in seeds:
            env = dict(os.environ, PYTHONHASHSEED=str(hs), PYTHONPATH=here)
            p = subprocess.run([sys.executable, '-c',
                                'import sys; from vf.rt.bounded_sync import child_routes; child_routes(sys.argv[1], sys.argv[2])',
                                repo, path], capture_output=True, text=True, env=env, cwd=here)
            results[hs] = json.loads(p.stdout)
    finally:
        os.unlink(path)
    base = results[seeds[0]]
    for k, (R, sel, g) in enumerate(sets):
        out['evaluated'] += 1
        diff = [hs for hs in seeds if results[hs][k] != base[k]]
        if diff:
            # find one differing route
            a_b = None
            for a in base[k]:
                for b in base[k][a]:
                    if results[diff[0]][k][a][b] != base[k][a][b]:
                        a_b = (a, b, base[k][a][b], results[diff[0]][k][a][b])
                        break
                if a_b:
                    break
            if len(out['failures']) < 3:
                out['failures'].append(dict(case=dict(kind='routes', R=R, orderings=[list(o) for o in sel], nprocs=list(g), hash_seeds=[seeds[0], diff[0]]),
                                            detail='route %s -> %s differs between interpreters: %s (PYTHONHASHSEED=%d) vs %s (PYTHONHASHSEED=%d)'
                                            % (a_b[0], a_b[1], a_b[2], seeds[0], a_b[3], diff[0])))
        else:
            out['ok'] += 1
    out['samples'].append(dict(kind='routes', layout_sets=len(sets), hash_seeds=seeds))


def sync_job(npts, nprocs, orders, seed, plot_rank=False):
    """Constructions, transposes, reductions and gathers under seeded arrival jitter; the shim raises on any
    mismatched / missing collective."""
    from mpi4py import MPI
    from pygyro.model.layout import getLayoutHandler
    from pygyro.model.grid import Grid
    P = int(np.prod(nprocs))
    layouts = {'L%d' % k: list(o) for k, o in enumerate(orders)}
    et = eta(npts)
    R = len(npts)
    G = global_field(npts, 'float')
    nranks = P + (1 if plot_rank else 0)

    def job(rank):
        world = MPI.COMM_WORLD
        if plot_rank:
            comm = world.Split(rank == 0, rank)
            mine = [[]] * R if rank == 0 else et
            np_ = [1] * len(nprocs) if rank == 0 else list(nprocs)
        else:
            comm, mine, np_ = world, et, list(nprocs)
        h = getLayoutHandler(comm, layouts, np_, mine)
        g = Grid(et, [None] * R, h, 'L0', world)
        empty = g.getAllData().size == 0
        if not empty:
            g.getAllData()[:] = local_block(G, h.getLayout('L0'))
        res = []
        names = list(layouts)
        for nm in names[1:] + names[:1]:
            g.setLayout(nm)
        lo = g.getMin(0)
        hi = g.getMax(0)
        if world.Get_rank() == 0:
            res.append(('minmax', lo, hi))
        for ax in range(R):
            fix = int(npts[ax] // 2)
            lo = g.getMin(0, ax, fix)
            hi = g.getMax(0, ax, fix)
            if world.Get_rank() == 0:
                sl = [slice(None)] * R
                sl[ax] = fix
                res.append(('slice', ax, lo, hi, float(G[tuple(sl)].min()), float(G[tuple(sl)].max())))
        if not plot_rank:
            d = {0: int(npts[0] // 2)}
            blk = g.getBlockFromDict(d, world, 0)
            if world.Get_rank() == 0:
                res.append(('block', float(np.sort(blk[3]).sum()), float(G[npts[0] // 2].sum())))
        return res

    res, traces = MPI.run_job(nranks, job, seed=seed, jitter=True, timeout=15)
    r0 = res[0]
    errs = []
    for item in r0:
        if item[0] == 'minmax' and (item[1] != G.min() or item[2] != G.max()):
            errs.append('getMin/getMax = (%s, %s), global field has (%s, %s)' % (item[1], item[2], G.min(), G.max()))
        if item[0] == 'slice' and (item[2] != item[4] or item[3] != item[5]):
            errs.append('getMin/getMax on axis %d slice = (%s, %s), expected (%s, %s)' % (item[1], item[2], item[3], item[4], item[5]))
        if item[0] == 'block' and abs(item[1] - item[2]) > 1e-9:
            errs.append('gathered block sum %s != %s' % (item[1], item[2]))
    return errs, sum(len(t) for t in traces)


def save_job(seed, with_folder):
    from mpi4py import MPI
    from pygyro.utilities.savingTools import setupSave
    import shutil
    base = tempfile.mkdtemp(prefix='vfsave-', dir='/var/tmp')

    def job(rank):
        os.chdir(base)
        return setupSave('{"a": 1}', os.path.join(base, 'given') if with_folder else None)
    try:
        cwd = os.getcwd()
        res, traces = MPI.run_job(3, job, seed=seed, jitter=True, timeout=10)
        os.chdir(cwd)
        if len(set(res)) != 1:
            return ['setupSave returned different folder names on different ranks: %s' % (res,)]
        return []
    finally:
        shutil.rmtree(base, ignore_errors=True)


def c06_run(tier, seed, repo):
    rng = np.random.default_rng(seed)
    out = dict(evaluated=0, ok=0, failures=[], samples=[])
    check_routes(repo, rng, tier, out)
    cases = [([4, 5, 6, 4], (2, 2), STANDARD4, False), ([5, 4, 6, 7], (1, 3), STANDARD4, False), ([4, 5, 6, 4], (2, 1), STANDARD4, True),
             ([5, 6, 7], (2, 3), STANDARD3, False)]
    for _ in range(3 if tier == 'quick' else 30):
        R = int(rng.integers(3, 5))
        grid = [(2, 1), (1, 2), (2, 2), (3, 2), (2, 3)][int(rng.integers(0, 5))]
        npts = gen_shape(rng, R, grid, ['plain', 'tight', 'uneven'][int(rng.integers(0, 3))])
        allo = orderings(R)
        sel = [allo[i] for i in rng.choice(len(allo), size=3, replace=False)]
        cases.append((npts, grid, sel, bool(rng.integers(0, 3) == 0)))
    for (npts, grid, sel, plot) in cases:
        case = dict(kind='sync', npts=npts, nprocs=list(grid), orderings=[list(o) for o in sel], plot_rank=plot, seed=int(seed))
        try:
            errs, ncoll = sync_job(npts, grid, sel, seed, plot)
        except RuntimeError as e:
            if 'connected' in str(e) or 'connected' in repr(e):
                continue
            errs, ncoll = ['%s: %s' % (type(e).__name__, e)], 0
        except Exception as e:
            errs, ncoll = ['%s: %s' % (type(e).__name__, e)], 0
        out['evaluated'] += 1
        if errs:
            if len(out['failures']) < 4:
                out['failures'].append(dict(case=case, detail='; '.join(errs[:2])))
        else:
            out['ok'] += 1
        if len(out['samples']) < 5:
            out['samples'].append(dict(case, collectives_recorded=ncoll))
    for wf in (False, True):
        try:
            errs = save_job(seed, wf)
        except Exception as e:
            errs = ['setupSave on 3 ranks: %s: %s' % (type(e).__name__, e)]
        out['evaluated'] += 1
        if errs:
            out['failures'].append(dict(case=dict(kind='save', with_folder=wf), detail=errs[0]))
        else:
            out['ok'] += 1
    return out


def c06_replay(case, repo):
    out = dict(evaluated=0, ok=0, failures=[], samples=[])
    if case.get('kind') == 'routes':
        sel = [tuple(o) for o in case['orderings']]
        here = os.path.dirname(os.path.dirname(os.path.dirname(os.path.abspath(__file__))))
        fd, path = tempfile.mkstemp(prefix='vfroutes-', suffix='.json', dir='/var/tmp')
        os.close(fd)
        json.dump([(case['R'], [list(o) for o in sel], case['nprocs'])], open(path, 'w'))
        res = {}
        try:
            for hs in case['hash_seeds']:
                p = subprocess.run([sys.executable, '-c', 'import sys; from vf.rt.bounded_sync import child_routes; child_routes(sys.argv[1], sys.argv[2])',
                                    repo, path], capture_output=True, text=True, env=dict(os.environ, PYTHONHASHSEED=str(hs), PYTHONPATH=here), cwd=here)
                res[hs] = json.loads(p.stdout)
        finally:
            os.unlink(path)
        vals = list(res.values())
        out['evaluated'] = 1
        if vals[0] != vals[1]:
            out['failures'].append(dict(case=case, detail='route maps differ between PYTHONHASHSEED=%s' % case['hash_seeds']))
        else:
            out['ok'] = 1
    elif case.get('kind') == 'sync':
        try:
            errs, _ = sync_job(case['npts'], tuple(case['nprocs']), [tuple(o) for o in case['orderings']], case.get('seed', 0), case['plot_rank'])
        except Exception as e:
            errs = ['%s: %s' % (type(e).__name__, e)]
        out['evaluated'] = 1
        if errs:
            out['failures'].append(dict(case=case, detail='; '.join(errs[:2])))
        else:
            out['ok'] = 1
    else:
        try:
            errs = save_job(0, case['with_folder'])
        except Exception as e:
            errs = ['setupSave on 3 ranks: %s: %s' % (type(e).__name__, e)]
        out['evaluated'] = 1
        if errs:
            out['failures'].append(dict(case=case, detail=errs[0]))
        else:
            out['ok'] = 1
    return out


def main():
    prop, tier, seed, repo = sys.argv[1], sys.argv[2], int(sys.argv[3]), sys.argv[4]
    _setup(repo)
    t0 = time.time()
    try:
        if len(sys.argv) > 5:
            case = json.load(open(sys.argv[5]))
            out = c06_replay(case.get('case', case), repo)
        else:
            out = c06_run(tier, seed, repo)
        out.setdefault('errors', [])
    except Exception:
        out = dict(evaluated=0, ok=0, failures=[], samples=[], errors=[traceback.format_exc()[-1500:]])
    out['wall_s'] = round(time.time() - t0, 2)
    json.dump(out, sys.stdout, default=lambda o: o.tolist() if hasattr(o, 'tolist') else str(o))


if __name__ == '__main__':
    main()
