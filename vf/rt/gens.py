"""Input generators for the run-time reading of the contracts (bounded tier, differential test)."""
import numpy as np


def _breaks(rng, ncells, uniform):
    if uniform:
        a = float(rng.uniform(-2, 2))
        return np.linspace(a, a + float(rng.uniform(0.5, 4)), ncells + 1)
    d = rng.uniform(0.2, 1.5, ncells)
    return np.concatenate([[0.0], np.cumsum(d)]) + float(rng.uniform(-2, 2))


def make_knots(breaks, degree, periodic):
    """Same construction as pygyro.splines.splines.make_knots (re-implemented to stay independent)."""
    p = degree
    T = np.zeros(len(breaks) + 2 * p)
    T[p:-p] = breaks
    if periodic:
        period = breaks[-1] - breaks[0]
        T[0:p] = [xi - period for xi in breaks[-p - 1:-1]]
        T[-p:] = [xi + period for xi in breaks[1:p + 1]]
    else:
        T[0:p] = breaks[0]
        T[-p:] = breaks[-1]
    return T


def _spline_space(rng, tier, maxdeg=5):
    degree = int(rng.integers(1, maxdeg + 1))
    ncells = int(rng.integers(max(1, degree), 12))
    periodic = bool(rng.integers(0, 2))
    breaks = _breaks(rng, ncells, bool(rng.integers(0, 2)))
    knots = make_knots(breaks, degree, periodic)
    return degree, ncells, periodic, breaks, knots


def _point(rng, breaks):
    k = rng.integers(0, 6)
    if k == 0:
        return float(breaks[0])
    if k == 1:
        return float(breaks[-1])
    if k == 2:
        return float(breaks[rng.integers(0, len(breaks))])
    if k == 3:
        b = float(breaks[rng.integers(0, len(breaks))])
        return float(min(max(np.nextafter(b, breaks[0] if rng.integers(0, 2) else breaks[-1]), breaks[0]), breaks[-1]))
    return float(rng.uniform(breaks[0], breaks[-1]))


def process_grid_from_max(rng, tier):
    hi = 40 if tier == 'quick' else 400
    return dict(max_proc1=int(rng.integers(1, hi)), max_proc2=int(rng.integers(1, hi)), mpi_size=int(rng.integers(1, 4 * hi)))


def process_grid(rng, tier):
    hi = 40 if tier == 'quick' else 300
    return dict(npts=[int(x) for x in rng.integers(1, hi, 4)], mpi_size=int(rng.integers(1, 4 * hi)))


def rho(rng, tier):
    n, m, p, nc = [int(x) for x in rng.integers(1, 6, 4)]
    extra = int(rng.integers(0, 3))
    return dict(rho=rng.standard_normal((n, m, p)), feq=rng.standard_normal((n + extra, nc)),
                grid=rng.standard_normal((n, m, p, nc)), quad_coeffs=rng.uniform(0.1, 1, nc))


def rho_plain(rng, tier):
    d = rho(rng, tier)
    del d['feq']
    return d


def find_span(rng, tier):
    degree, ncells, periodic, breaks, knots = _spline_space(rng, tier, 10 if tier != 'quick' else 6)
    return dict(knots=knots, degree=degree, x=_point(rng, breaks))


def basis_funs(rng, tier):
    degree, ncells, periodic, breaks, knots = _spline_space(rng, tier)
    x = _point(rng, breaks)
    span = int(np.clip(np.searchsorted(knots, x, side='right') - 1, degree, len(knots) - degree - 2))
    return dict(knots=knots, degree=degree, x=x, span=span, values=rng.standard_normal(degree + 1 + int(rng.integers(0, 2))))


def basis_funs_der(rng, tier):
    d = basis_funs(rng, tier)
    d['ders'] = d.pop('values')
    return d


def eval_1d_scalar(rng, tier):
    degree, ncells, periodic, breaks, knots = _spline_space(rng, tier)
    nb = len(knots) - degree - 1
    return dict(x=_point(rng, breaks), knots=knots, degree=degree, coeffs=rng.standard_normal(nb), der=int(rng.integers(0, 2)))


def eval_1d_vector(rng, tier):
    degree, ncells, periodic, breaks, knots = _spline_space(rng, tier)
    nb = len(knots) - degree - 1
    n = int(rng.integers(0, 6))
    return dict(x=np.array([_point(rng, breaks) for _ in range(n)]), knots=knots, degree=degree,
                coeffs=rng.standard_normal(nb), y=rng.standard_normal(n + int(rng.integers(0, 2))), der=int(rng.integers(0, 2)))
