"""Input generators for the run-time reading of the contracts (bounded tier, differential test)."""
import numpy as np


def _breaks(rng, ncells, uniform):
    if uniform:
        a = float(rng.uniform(-2, 2))
        return np.linspace(a, a + float(rng.uniform(0.5, 4)), ncells + 1)
    d = rng.uniform(0.2, 1.5, ncells)
    return np.concatenate([[0.0], np.cumsum(d)]) + float(rng.uniform(-2, 2))


def make_knots(breaks, degree, periodic):
    """Same construction as pygyro.splines.splines.make_knots (re-implemented to stay independent)."""
    p = degree
    T = np.zeros(len(breaks) + 2 * p)
    T[p:-p] = breaks
    if periodic:
        period = breaks[-1] - breaks[0]
        T[0:p] = [xi - period for xi in breaks[-p - 1:-1]]
        T[-p:] = [xi + period for xi in breaks[1:p + 1]]
    else:
        T[0:p] = breaks[0]
        T[-p:] = breaks[-1]
    return T


def _spline_space(rng, tier, maxdeg=5):
    degree = int(rng.integers(1, maxdeg + 1))
    ncells = int(rng.integers(max(1, degree), 12))
    periodic = bool(rng.integers(0, 2))
    breaks = _breaks(rng, ncells, bool(rng.integers(0, 2)))
    knots = make_knots(breaks, degree, periodic)
    return degree, ncells, periodic, breaks, knots


def _point(rng, breaks):
    k = rng.integers(0, 6)
    if k == 0:
        return float(breaks[0])
    if k == 1:
        return float(breaks[-1])
    if k == 2:
        return float(breaks[rng.integers(0, len(breaks))])
    if k == 3:
        b = float(breaks[rng.integers(0, len(breaks))])
        return float(min(max(np.nextafter(b, breaks[0] if rng.integers(0, 2) else breaks[-1]), breaks[0]), breaks[-1]))
    return float(rng.uniform(breaks[0], breaks[-1]))


def process_grid_from_max(rng, tier):
    hi = 40 if tier == 'quick' else 400
    return dict(max_proc1=int(rng.integers(1, hi)), max_proc2=int(rng.integers(1, hi)), mpi_size=int(rng.integers(1, 4 * hi)))


def process_grid(rng, tier):
    hi = 40 if tier == 'quick' else 300
    return dict(npts=[int(x) for x in rng.integers(1, hi, 4)], mpi_size=int(rng.integers(1, 4 * hi)))


def rho(rng, tier):
    n, m, p, nc = [int(x) for x in rng.integers(1, 6, 4)]
    extra = int(rng.integers(0, 3))
    return dict(rho=rng.standard_normal((n, m, p)), feq=rng.standard_normal((n + extra, nc)),
                grid=rng.standard_normal((n, m, p, nc)), quad_coeffs=rng.uniform(0.1, 1, nc))


def rho_plain(rng, tier):
    d = rho(rng, tier)
    del d['feq']
    return d


def find_span(rng, tier):
    degree, ncells, periodic, breaks, knots = _spline_space(rng, tier, 10 if tier != 'quick' else 6)
    return dict(knots=knots, degree=degree, x=_point(rng, breaks))


def basis_funs(rng, tier):
    degree, ncells, periodic, breaks, knots = _spline_space(rng, tier)
    x = _point(rng, breaks)
    span = int(np.clip(np.searchsorted(knots, x, side='right') - 1, degree, len(knots) - degree - 2))
    return dict(knots=knots, degree=degree, x=x, span=span, values=rng.standard_normal(degree + 1 + int(rng.integers(0, 2))))


def basis_funs_der(rng, tier):
    d = basis_funs(rng, tier)
    d['ders'] = d.pop('values')
    return d


def eval_1d_scalar(rng, tier):
    degree, ncells, periodic, breaks, knots = _spline_space(rng, tier)
    nb = len(knots) - degree - 1
    return dict(x=_point(rng, breaks), knots=knots, degree=degree, coeffs=rng.standard_normal(nb), der=int(rng.integers(0, 2)))


def eval_1d_vector(rng, tier):
    degree, ncells, periodic, breaks, knots = _spline_space(rng, tier)
    nb = len(knots) - degree - 1
    n = int(rng.integers(0, 6))
    return dict(x=np.array([_point(rng, breaks) for _ in range(n)]), knots=knots, degree=degree,
                coeffs=rng.standard_normal(nb), y=rng.standard_normal(n + int(rng.integers(0, 2))), der=int(rng.integers(0, 2)))


# ---- uniform cubic ---------------------------------------------------------

def _cu_space(rng):
    ncells = int(rng.integers(1, 12))
    xmin = float(rng.uniform(-3, 3))
    k = rng.integers(0, 3)
    if k == 0:
        xmax = xmin + float(rng.uniform(0.5, 7))
    elif k == 1:
        xmin, xmax = 0.0, 2 * np.pi
    else:
        xmin, xmax = -1.0, 1.0
    br = np.linspace(xmin, xmax, ncells + 1)
    dx = br[1] - br[0]          # as BSplines.__init__ computes it (knots[degree+1]-knots[degree])
    return np.array([br[0], br[-1], dx, ncells]), br


def _cu_point(rng, br):
    k = rng.integers(0, 8)
    if k == 0:
        return float(br[0])
    if k == 1:
        return float(br[-1])
    if k == 2:
        return float(br[rng.integers(0, len(br))])
    if k in (3, 4):
        # a few ulps inside a break point / the right end
        b = float(br[-1]) if k == 3 else float(br[rng.integers(1, len(br))])
        for _ in range(int(rng.integers(1, 4))):
            b = np.nextafter(b, br[0])
        return float(max(b, br[0]))
    return float(rng.uniform(br[0], br[-1]))


def cu_find_span(rng, tier):
    kts, br = _cu_space(rng)
    return dict(xmin=float(kts[0]), xmax=float(kts[1]), dx=float(kts[2]), x=_cu_point(rng, br), ncells=int(kts[3]))


def cu_basis(rng, tier):
    return dict(span=int(rng.integers(3, 12)), offset=float(rng.choice([0.0, 1.0, rng.uniform(0, 1)])),
                values=rng.standard_normal(4 + int(rng.integers(0, 2))))


def cu_basis_der(rng, tier):
    d = cu_basis(rng, tier)
    d['ders'] = d.pop('values')
    d['dx'] = float(rng.uniform(0.1, 2))
    return d


def cu_eval_1d_scalar(rng, tier):
    kts, br = _cu_space(rng)
    return dict(x=_cu_point(rng, br), knots=kts, degree=3, coeffs=rng.standard_normal(int(kts[3]) + 3), der=int(rng.integers(0, 2)))


def cu_eval_1d_vector(rng, tier):
    kts, br = _cu_space(rng)
    n = int(rng.integers(0, 6))
    return dict(x=np.array([_cu_point(rng, br) for _ in range(n)]), knots=kts, degree=3,
                coeffs=rng.standard_normal(int(kts[3]) + 3), y=rng.standard_normal(n + int(rng.integers(0, 2))),
                der=int(rng.integers(0, 2)))


def _cu2(rng):
    k1, b1 = _cu_space(rng)
    k2, b2 = _cu_space(rng)
    return k1, b1, k2, b2, rng.standard_normal((int(k1[3]) + 3, int(k2[3]) + 3))


def cu_eval_2d_scalar(rng, tier):
    k1, b1, k2, b2, c = _cu2(rng)
    return dict(x=_cu_point(rng, b1), y=_cu_point(rng, b2), kts1=k1, deg1=3, kts2=k2, deg2=3, coeffs=c,
                der1=int(rng.integers(0, 2)), der2=int(rng.integers(0, 2)))


def cu_eval_2d_cross(rng, tier):
    k1, b1, k2, b2, c = _cu2(rng)
    n, m = int(rng.integers(0, 4)), int(rng.integers(0, 4))
    return dict(X=np.array([_cu_point(rng, b1) for _ in range(n)]), Y=np.array([_cu_point(rng, b2) for _ in range(m)]),
                kts1=k1, deg1=3, kts2=k2, deg2=3, coeffs=c, z=rng.standard_normal((n + int(rng.integers(0, 2)), m)),
                der1=int(rng.integers(0, 2)), der2=int(rng.integers(0, 2)))


def cu_eval_2d_vector(rng, tier):
    k1, b1, k2, b2, c = _cu2(rng)
    n = int(rng.integers(0, 5))
    return dict(x=np.array([_cu_point(rng, b1) for _ in range(n)]), y=np.array([_cu_point(rng, b2) for _ in range(n)]),
                kts1=k1, deg1=3, kts2=k2, deg2=3, coeffs=c, z=rng.standard_normal(n),
                der1=int(rng.integers(0, 2)), der2=int(rng.integers(0, 2)))


# ---- general 2-D ------------------------------------------------------------

def _nu2(rng, tier):
    d1, n1, p1, b1, k1 = _spline_space(rng, tier, 4)
    d2, n2, p2, b2, k2 = _spline_space(rng, tier, 4)
    return d1, b1, k1, d2, b2, k2, rng.standard_normal((len(k1) - d1 - 1, len(k2) - d2 - 1))


def eval_2d_scalar(rng, tier):
    d1, b1, k1, d2, b2, k2, c = _nu2(rng, tier)
    return dict(x=_point(rng, b1), y=_point(rng, b2), kts1=k1, deg1=d1, kts2=k2, deg2=d2, coeffs=c,
                der1=int(rng.integers(0, 2)), der2=int(rng.integers(0, 2)))


def eval_2d_cross(rng, tier):
    d1, b1, k1, d2, b2, k2, c = _nu2(rng, tier)
    n, m = int(rng.integers(0, 4)), int(rng.integers(0, 4))
    return dict(X=np.array([_point(rng, b1) for _ in range(n)]), Y=np.array([_point(rng, b2) for _ in range(m)]),
                kts1=k1, deg1=d1, kts2=k2, deg2=d2, coeffs=c, z=rng.standard_normal((n, m + int(rng.integers(0, 2)))),
                der1=int(rng.integers(0, 2)), der2=int(rng.integers(0, 2)))


def eval_2d_vector(rng, tier):
    d1, b1, k1, d2, b2, k2, c = _nu2(rng, tier)
    n = int(rng.integers(0, 5))
    return dict(x=np.array([_point(rng, b1) for _ in range(n)]), y=np.array([_point(rng, b2) for _ in range(n)]),
                kts1=k1, deg1=d1, kts2=k2, deg2=d2, coeffs=c, z=rng.standard_normal(n),
                der1=int(rng.integers(0, 2)), der2=int(rng.integers(0, 2)))


# ---- advection kernels -----------------------------------------------------

NU = 'pygyro.splines.spline_eval_funcs'
CU = 'pygyro.splines.cubic_uniform_spline_eval_funcs'


def _fref(mod, name):
    return {'__fun__': name, '__module__': mod}


def _spl_env(cu):
    """Run-time meaning of the abstract names of the advection contracts for the evaluator family in use."""
    import importlib
    m = importlib.import_module(CU if cu else NU)
    pre = 'cu_' if cu else 'nu_'
    e1, e2 = getattr(m, pre + 'eval_spline_1d_scalar'), getattr(m, pre + 'eval_spline_2d_scalar')
    return {
        'S1': lambda x, knots, degree, coeffs, der: e1(float(x), knots, int(degree), coeffs, int(der)),
        'S2': lambda x, y, k1, d1, k2, d2, c, der1, der2: e2(float(x), float(y), k1, int(d1), k2, int(d2), c, int(der1), int(der2)),
        'spl1_ok': lambda knots, degree, coeffs: True,
        'spl2_ok': lambda *a: True,
        'spl1_lo': (lambda knots, degree: knots[0]) if cu else (lambda knots, degree: knots[degree]),
        'spl1_hi': (lambda knots, degree: knots[1]) if cu else (lambda knots, degree: knots[len(knots) - 1 - degree]),
    }


def _space_on(rng, a, b, cu, periodic=None):
    if cu:
        ncells = int(rng.integers(3, 10))
        br = np.linspace(a, b, ncells + 1)
        return np.array([br[0], br[-1], br[1] - br[0], ncells]), 3, rng.standard_normal(ncells + 3), br
    degree = int(rng.integers(1, 6))
    ncells = int(rng.integers(degree + 1, 10))
    if rng.integers(0, 2):
        br = np.linspace(a, b, ncells + 1)
    else:
        br = np.concatenate([[0.0], np.cumsum(rng.uniform(0.3, 1.0, ncells))])
        br = a + (b - a) * br / br[-1]
        br[-1] = b
    per = bool(rng.integers(0, 2)) if periodic is None else periodic
    knots = make_knots(br, degree, per)
    return knots, degree, rng.standard_normal(len(knots) - degree - 1), br


PHYS = dict(CN0=0.86, kN0=0.055, deltaRN0=4.0, rp=14.5, CTi=1.0, kTi=0.27586, deltaRTi=1.45)


def _vpar(rng, tier, general):
    cu = bool(rng.integers(0, 2))
    vMin = float(rng.uniform(-6, -1))
    vMax = float(rng.uniform(1, 6))
    kts, deg, coeffs, br = _space_on(rng, vMin, vMax, cu)
    n = int(rng.integers(1, 8))
    w = vMax - vMin
    v = np.array([rng.choice([rng.uniform(vMin, vMax), vMin, vMax, rng.uniform(vMin - 4 * w, vMax + 4 * w),
                              vMin - rng.integers(1, 4) * w, vMax + rng.integers(1, 4) * w * 0.5]) for _ in range(n)], dtype=float)
    d = dict(f=rng.standard_normal(n + int(rng.integers(0, 2))), vPts=v, rPos=float(rng.uniform(0.5, 14)), vMin=vMin, vMax=vMax,
             kts=kts, deg=deg, coeffs=coeffs, bound=int(rng.integers(0, 3)))
    d.update(PHYS)
    if general:
        d['eval_spline_1d_scalar'] = _fref(CU if cu else NU, ('cu_' if cu else 'nu_') + 'eval_spline_1d_scalar')
    else:
        d['cubic_uniform_splines'] = cu
    d['__env__'] = _spl_env(cu)
    return d


def vpar_general(rng, tier):
    return _vpar(rng, tier, True)


def vpar_dispatch(rng, tier):
    return _vpar(rng, tier, False)


def flux_adv(rng, tier):
    nq, nr, nk = int(rng.integers(0, 5)), int(rng.integers(0, 5)), int(rng.integers(1, 7))
    return dict(nq=nq, nr=nr, f=rng.standard_normal((nq + int(rng.integers(0, 2)), nr + int(rng.integers(0, 2)))),
                coeffs=rng.standard_normal(nk), vals=rng.standard_normal((nr, nq, nk)))


def _lagr(rng, tier, general):
    cu = bool(rng.integers(0, 2))
    kts, deg, coeffs, br = _space_on(rng, 0.0, 2 * np.pi, cu, periodic=True)
    nz, nq, ns = int(rng.integers(1, 9)), int(rng.integers(0, 5)), int(rng.integers(0, 7))
    d = dict(i=int(rng.integers(0, nz)), shifts=rng.integers(-3 * nz, 3 * nz, ns).astype(int),
             vals=rng.standard_normal((nz, nq, ns + int(rng.integers(0, 2)))), qVals=rng.uniform(0, 2 * np.pi, nq),
             thetaShifts=rng.uniform(-20, 20, ns), kts=kts, deg=deg, coeffs=coeffs)
    if general:
        pre = 'cu_' if cu else 'nu_'
        d['eval_spline_1d_vector'] = _fref(CU if cu else NU, pre + 'eval_spline_1d_vector')
        d['eval_spline_1d_scalar'] = _fref(CU if cu else NU, pre + 'eval_spline_1d_scalar')
    else:
        d['cubic_uniform_splines'] = cu
    d['__env__'] = _spl_env(cu)
    return d


def lagr_general(rng, tier):
    return _lagr(rng, tier, True)


def lagr_dispatch(rng, tier):
    return _lagr(rng, tier, False)


def _pol(rng, tier, general):
    cu = bool(rng.integers(0, 2))
    rmin, rmax = float(rng.uniform(0.1, 1.0)), float(rng.uniform(3.0, 8.0))
    k1, d1, _, bq = _space_on(rng, 0.0, 2 * np.pi, cu, periodic=True)
    k2, d2, _, br = _space_on(rng, rmin, rmax, cu, periodic=False)
    n1 = (int(k1[3]) + 3) if cu else (len(k1) - d1 - 1)
    n2 = (int(k2[3]) + 3) if cu else (len(k2) - d2 - 1)
    amp = float(rng.choice([0.0, 0.3, 3.0, 30.0]))     # large potentials push feet out of the radial domain
    cphi = amp * rng.standard_normal((n1, n2))
    cpol = rng.standard_normal((n1, n2))
    if not cu:
        # periodic in theta: wrapped coefficients
        cphi[n1 - d1:, :] = cphi[:d1, :]
        cpol[n1 - d1:, :] = cpol[:d1, :]
    nq, nr = int(rng.integers(1, 5)), int(rng.integers(1, 5))
    qPts = np.sort(rng.uniform(0, 2 * np.pi, nq))
    rPts = np.concatenate([[rmin], np.sort(rng.uniform(rmin, rmax, max(nr - 2, 0))), [rmax]])[:max(nr, 1)] if nr > 1 else np.array([rmin])
    if nr > 1:
        rPts[-1] = rmax
    nr = len(rPts)
    w = lambda: rng.standard_normal((nq, nr))
    d = dict(f=w(), dt=float(rng.choice([0.1, -0.1, 1.0, -2.0])), v=float(rng.uniform(-5, 5)), rPts=rPts, qPts=qPts,
             drPhi_0=w(), dthetaPhi_0=w(), drPhi_k=w(), dthetaPhi_k=w(), endPts_k1_q=w(), endPts_k1_r=w(), endPts_k2_q=w(), endPts_k2_r=w(),
             kts1Phi=k1, kts2Phi=k2, coeffsPhi=cphi, deg1Phi=d1, deg2Phi=d2, kts1Pol=k1.copy(), kts2Pol=k2.copy(), coeffsPol=cpol,
             deg1Pol=d1, deg2Pol=d2, B0=float(rng.choice([1.0, 2.5])), nulBound=bool(rng.integers(0, 2)))
    d.update(PHYS)
    if general:
        pre = 'cu_' if cu else 'nu_'
        d['eval_spline_2d_cross'] = _fref(CU if cu else NU, pre + 'eval_spline_2d_cross')
        d['eval_spline_2d_scalar'] = _fref(CU if cu else NU, pre + 'eval_spline_2d_scalar')
    else:
        d['cubic_uniform_splines'] = cu
    d['__env__'] = _spl_env(cu)
    return d


def pol_general(rng, tier):
    return _pol(rng, tier, True)


def pol_dispatch(rng, tier):
    return _pol(rng, tier, False)
