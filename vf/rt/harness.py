"""Run-time contract checking of the real functions (runs under /venv/bin/python).

Usage: python -m vf.rt.harness <request.json>   -> JSON on stdout
request: {repo, contracts: [module names], function: 'relpath::qual', mode: 'gen'|'replay',
          gen: name, n, seed, tier, args (replay)}
"""
import importlib
import importlib.util
import json
import os
import sys
import time
import traceback

import numpy as np


def load_repo_function(repo, relpath, qual, shim=None):
    if shim and shim not in sys.path:
        sys.path.insert(0, shim)
    if repo not in sys.path:
        sys.path.insert(0, repo)
    modname = relpath[:-3].replace('/', '.')
    mod = importlib.import_module(modname)
    obj = mod
    for part in qual.split('.'):
        obj = getattr(obj, part)
    return obj, mod


def to_native(v, kind=None):
    if isinstance(v, dict) and '__ndarray__' in v:
        return np.array(v['__ndarray__'], dtype=v.get('dtype', 'float64')).reshape(v['shape'])
    if isinstance(v, dict) and '__fun__' in v:
        return v
    return v


def to_json(v):
    if isinstance(v, np.ndarray):
        return {'__ndarray__': v.ravel().tolist(), 'shape': list(v.shape), 'dtype': str(v.dtype)}
    if isinstance(v, (np.integer,)):
        return int(v)
    if isinstance(v, (np.floating,)):
        return float(v)
    if isinstance(v, (np.bool_,)):
        return bool(v)
    if isinstance(v, (list, tuple)):
        return [to_json(x) for x in v]
    if callable(v):
        return {'__fun__': getattr(v, '__name__', 'fn'), '__module__': getattr(v, '__module__', None)}
    return v


def resolve_fun(repo, d):
    mod = importlib.import_module(d['__module__'])
    return getattr(mod, d['__fun__'])


def check_once(fn, contract, spec, args, extra_env=None):
    """Returns (status, detail). status: ok / pre_false / violation / raised_ok."""
    from .speclang import snapshot
    import numpy as _np
    if extra_env is None and 'cubic_uniform_splines' in args:
        from . import gens as _g
        extra_env = _g._spl_env(bool(args['cubic_uniform_splines']))
    if extra_env is None:
        for v in args.values():
            if callable(v) and getattr(v, '__name__', '')[:3] in ('cu_', 'nu_'):
                from . import gens as _g
                extra_env = _g._spl_env(v.__name__.startswith('cu_'))
                break
    env = dict(args)
    if extra_env:
        env.update(extra_env)
    for i, cl in enumerate(contract.get('requires', [])):
        try:
            if not spec.evaluate(cl, env):
                return 'pre_false', 'requires[%d]: %s' % (i, cl)
        except Exception as e:
            return 'pre_false', 'requires[%d] raised %r' % (i, e)
    old = snapshot(args)
    raises = contract.get('raises', [])
    try:
        result = fn(**args) if contract.get('call_kw', True) else fn(*args.values())
    except Exception as e:
        name = type(e).__name__
        decl = [r for r in raises if r[0] == name]
        if not decl:
            return 'violation', 'unexpected %s: %s' % (name, e)
        for (exc, when) in decl:
            if when is not None and not spec.evaluate(when, dict(old)):
                return 'violation', 'raised %s although not (%s)' % (name, when)
        return 'raised_ok', name
    env = dict(args)
    if extra_env:
        env.update(extra_env)
    env['result'] = result
    for (exc, when) in raises:
        if when is not None:
            try:
                if spec.evaluate(when, dict(old)):
                    return 'violation', 'returned normally although (%s) requires %s' % (when, exc)
            except Exception:
                pass
    for i, cl in enumerate(contract.get('ensures', [])):
        try:
            ok = spec.evaluate(cl, env, old)
        except Exception as e:
            return 'violation', 'ensures[%d] raised %r: %s' % (i, e, cl)
        if not ok:
            return 'violation', 'ensures[%d]: %s' % (i, cl)
    return 'ok', None


def main():
    req = json.load(open(sys.argv[1]))
    repo = req.get('repo', '/repo')
    here = os.path.dirname(os.path.dirname(os.path.dirname(os.path.abspath(__file__))))
    if here not in sys.path:
        sys.path.insert(0, here)
    from vf.rt.speclang import Spec
    from vf.rt import gens
    contracts, specs = {}, []
    for m in req['contracts']:
        mod = importlib.import_module(m)
        contracts.update(mod.CONTRACTS)
        specs.extend(getattr(mod, 'SPECS', []))
    out = dict(function=req['function'], evaluated=0, ok=0, pre_false=0, raised_ok=0, failures=[], errors=[])
    t0 = time.time()
    try:
        relpath, qual = req['function'].split('::')
        fn, mod = load_repo_function(repo, relpath, qual, req.get('shim'))
        contract = contracts[req['function']]
        extra = {}
        # pure repo functions usable inside clauses
        for k in contracts:
            if '::' not in k:
                continue
            rp, q = k.split('::')
            if contracts[k].get('pure') and '.' not in q:
                try:
                    extra[q] = load_repo_function(repo, rp, q, req.get('shim'))[0]
                except Exception:
                    pass
        spec = Spec(specs, extra)
        if req['mode'] == 'replay':
            cases = [{k: to_native(v) for k, v in req['args'].items()}]
        else:
            rng = np.random.default_rng(req.get('seed', 0))
            g = getattr(gens, req['gen'])
            cases = (g(rng, req.get('tier', 'quick')) for _ in range(req.get('n', 100)))
        for args in cases:
            extra_env = args.pop('__env__', None)
            for k, v in list(args.items()):
                if isinstance(v, dict) and '__fun__' in v:
                    args[k] = resolve_fun(repo, v)
            saved = {k: to_json(v) for k, v in args.items()}
            if extra_env is None and req.get('env_family') is not None:
                extra_env = gens._spl_env(bool(req['env_family']))
            st, detail = check_once(fn, contract, spec, args, extra_env)
            out['evaluated'] += 1
            if st == 'violation':
                if len(out['failures']) < 3:
                    out['failures'].append(dict(args=saved, detail=detail))
                if req['mode'] != 'replay' and len(out['failures']) >= 3:
                    break
            else:
                out[st] += 1
                if st == 'pre_false' and req['mode'] == 'replay':
                    out['errors'].append('precondition not satisfied by replayed input: %s' % detail)
    except Exception as e:
        out['errors'].append(traceback.format_exc())
    out['wall_s'] = round(time.time() - t0, 3)
    json.dump(out, sys.stdout)


if __name__ == '__main__':
    main()
