"""Run-time reading of the contract language (CPython, numpy; no solver).

The same clause text that the engine translates to SMT is evaluated here on concrete values:
used for counterexample replay, for the bounded stand-ins and for the differential test.
"""
import ast
import copy
import itertools
import math

import numpy as np

TOL = 1e-9


def _isint(x):
    return isinstance(x, (int, np.integer, bool, np.bool_))


def _close(a, b):
    if _isint(a) and _isint(b):
        return a == b
    if isinstance(a, (tuple, list)) or isinstance(b, (tuple, list)):
        return len(a) == len(b) and all(_close(x, y) for x, y in zip(a, b))
    a = complex(a) if isinstance(a, complex) else float(a)
    b = complex(b) if isinstance(b, complex) else float(b)
    if isinstance(a, float) and isinstance(b, float) and (math.isnan(a) or math.isnan(b)):
        return False
    return abs(a - b) <= TOL * (1.0 + abs(a) + abs(b))


def _cmp(op, a, b):
    if op == 'Eq':
        return _close(a, b)
    if op == 'NotEq':
        return not _close(a, b)
    if _isint(a) and _isint(b):
        return {'Lt': a < b, 'LtE': a <= b, 'Gt': a > b, 'GtE': a >= b}[op]
    slack = TOL * (1.0 + abs(a) + abs(b))
    if op == 'LtE':
        return a <= b + slack
    if op == 'GtE':
        return a + slack >= b
    if op == 'Lt':
        return a < b
    if op == 'Gt':
        return a > b
    if op == 'In':
        return a in b
    if op == 'NotIn':
        return a not in b
    if op == 'Is':
        return a is b
    if op == 'IsNot':
        return a is not b
    raise ValueError(op)


class _Rewrite(ast.NodeTransformer):
    def __init__(self, old_names):
        self.old_names = old_names
        self.in_old = 0

    def visit_Compare(self, node):
        self.generic_visit(node)
        parts = []
        left = node.left
        for op, right in zip(node.ops, node.comparators):
            parts.append(ast.Call(ast.Name('__cmp__', ast.Load()), [ast.Constant(type(op).__name__), left, right], []))
            left = right
        if len(parts) == 1:
            return parts[0]
        return ast.BoolOp(ast.And(), parts)

    def visit_Call(self, node):
        if isinstance(node.func, ast.Name):
            nm = node.func.id
            if nm == 'old':
                self.in_old += 1
                try:
                    inner = self.visit(node.args[0])
                finally:
                    self.in_old -= 1
                return inner
            if nm == 'implies':
                a = self.visit(node.args[0])
                b = self.visit(node.args[1])
                return ast.BoolOp(ast.Or(), [ast.UnaryOp(ast.Not(), a), b])
            if nm == 'ite_':
                c, a, b = [self.visit(x) for x in node.args]
                return ast.IfExp(c, a, b)
            if nm == 'and_':
                return ast.BoolOp(ast.And(), [self.visit(x) for x in node.args])
        self.generic_visit(node)
        return node

    def visit_Name(self, node):
        if self.in_old and node.id in self.old_names and isinstance(node.ctx, ast.Load):
            return ast.Name('__old__' + node.id, ast.Load())
        return node


def _forall(*args):
    *bounds, fn = args
    rngs = [range(int(bounds[2 * k]), int(bounds[2 * k + 1])) for k in range(len(bounds) // 2)]
    return all(fn(*idx) for idx in itertools.product(*rngs))


def _exists(*args, witness=None):
    *bounds, fn = args
    return any(fn(i) for i in range(int(bounds[0]), int(bounds[1])))


def _sum(lo, hi, fn):
    r = 0.0
    for k in range(int(lo), int(hi)):
        r = r + fn(k)
    return r


def _shape(a):
    return tuple(int(x) for x in np.shape(a))


def _fdiv(a, b):
    return a // b


BASE = {
    '__cmp__': _cmp, 'forall': _forall, 'exists': _exists, 'sum_': _sum, 'shape': _shape,
    'let': lambda v, f: f(v), 'iff': lambda a, b: bool(a) == bool(b), 'select': lambda a, *i: a[tuple(i)],
    'real': float, 'fdiv': _fdiv, 'fmod': lambda a, b: a % b, 'trunc': lambda x: int(x),
    'len': len, 'min': min, 'max': max, 'abs': abs, 'int': int, 'float': float, 'pi': math.pi,
    'floor': math.floor, 'sqrt': math.sqrt, 'exp': math.exp, 'tanh': math.tanh, 'cosh': math.cosh,
    'cos': math.cos, 'sin': math.sin, 'True': True, 'False': False, 'all': all, 'any': any, 'range': range,
    'bool': bool, 'tuple': tuple, 'list': list, 'sum': sum, 'np': np,
}


class Spec:
    def __init__(self, spec_defs=(), extra=None):
        """spec_defs: list of (name, params, ret, body) as in the contract modules."""
        self.ns = dict(BASE)
        if extra:
            self.ns.update(extra)
        for (name, params, ret, body) in spec_defs:
            if body is None:
                continue
            src = 'lambda %s: %s' % (', '.join(p for p, _ in params), body)
            self.ns[name] = self.compile(src, [], mode='lambda')

    def compile(self, text, old_names, mode='clause'):
        tree = ast.parse(text.strip(), mode='eval')
        tree = _Rewrite(set(old_names)).visit(tree)
        ast.fix_missing_locations(tree)
        code = compile(tree, '<clause>', 'eval')
        if mode == 'lambda':
            return eval(code, self.ns)
        return code

    def evaluate(self, text, env, old_env=None):
        """Evaluate a clause in env (dict); old_env supplies old(x) values."""
        old_env = old_env or {}
        code = self.compile(text, old_env.keys())
        ns = self.ns
        saved = {}
        keys = list(env.keys()) + ['__old__' + k for k in old_env]
        for k in keys:
            if k in ns:
                saved[k] = ns[k]
        try:
            ns.update(env)
            for k, v in old_env.items():
                ns['__old__' + k] = v
            return bool(eval(code, ns))
        finally:
            for k in keys:
                ns.pop(k, None)
            ns.update(saved)


def snapshot(args):
    out = {}
    for k, v in args.items():
        if isinstance(v, np.ndarray):
            out[k] = v.copy()
        elif isinstance(v, (list, dict)):
            out[k] = copy.deepcopy(v)
        else:
            out[k] = v
    return out
