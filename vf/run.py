"""Per-property check driver: deductive tier + run-time (bounded) tier + replay + evidence."""
import argparse
import hashlib
import importlib
import json
import os
import subprocess
import sys
import tempfile
import time
import traceback

HERE = os.path.dirname(os.path.dirname(os.path.abspath(__file__)))
sys.path.insert(0, HERE)

VENV_PY = '/venv/bin/python'


def harness(req, timeout=1800):
    fd, path = tempfile.mkstemp(prefix='vfreq-', suffix='.json', dir='/var/tmp')
    os.close(fd)
    try:
        json.dump(req, open(path, 'w'))
        env = dict(os.environ)
        env['PYTHONPATH'] = HERE
        env.setdefault('OMP_NUM_THREADS', '1')
        p = subprocess.run([VENV_PY, '-m', 'vf.rt.harness', path], cwd=HERE, capture_output=True, text=True,
                           timeout=timeout, env=env)
        try:
            return json.loads(p.stdout)
        except Exception:
            return dict(errors=['harness output not JSON: %s | %s' % (p.stdout[-500:], p.stderr[-2000:])], failures=[],
                        evaluated=0, ok=0)
    finally:
        os.unlink(path)


def bounded(module, prop, tier, seed, repo, case=None, timeout=3600):
    env = dict(os.environ)
    env['PYTHONPATH'] = HERE
    env.setdefault('OMP_NUM_THREADS', '1')
    cmd = [VENV_PY, '-m', module, prop, tier, str(seed), repo]
    path = None
    try:
        if case is not None:
            fd, path = tempfile.mkstemp(prefix='vfcase-', suffix='.json', dir='/var/tmp')
            os.close(fd)
            json.dump(case, open(path, 'w'))
            cmd.append(path)
        p = subprocess.run(cmd, cwd=HERE, capture_output=True, text=True, timeout=timeout, env=env)
        try:
            return json.loads(p.stdout)
        except Exception:
            return dict(errors=['bounded harness output not JSON: %s | %s' % (p.stdout[-300:], p.stderr[-1500:])], failures=[],
                        evaluated=0, ok=0)
    finally:
        if path:
            os.unlink(path)


def load_known(pid):
    path = os.path.join(HERE, 'known_findings.jsonl')
    out = []
    if os.path.exists(path):
        for line in open(path):
            line = line.strip()
            if not line or line.startswith('#'):
                continue
            d = json.loads(line)
            if d.get('property') == pid and d.get('status', 'known') == 'known':
                out.append(d)
    return out


def match_known(known, function, detail, args=None):
    for k in known:
        if k.get('function') and k['function'] != function:
            continue
        if k.get('detail_contains') and k['detail_contains'] not in (detail or ''):
            continue
        w = k.get('witness')
        if w and args is not None:
            try:
                import numpy as np
                from vf.rt.harness import to_native
                env = {a: to_native(v) for a, v in args.items()}
                env['np'] = np
                if not eval(w, env):
                    continue
            except Exception:
                continue
        elif w and args is None:
            continue
        return k
    return None


def model_args(ctx, ob, entry, node, contract, timeout=20):
    """Concrete arguments from a counter-model of a refuted obligation (None when none can be built)."""
    import z3
    from vf import smt, verify
    from vf.vals import Arr
    asserts = verify.prepare(ctx, ob, 3)
    m = smt.model_of(asserts, timeout)
    if m is None:
        return None, 'no model within %ds' % timeout
    args = {}
    import itertools
    for a in node.args.args:
        v = entry.env.get(a.arg)
        if isinstance(v, Arr):
            shape = []
            for s in v.shape:
                sv = smt.val_to_py(m.eval(s, model_completion=True)) if z3.is_expr(s) else s
                shape.append(int(sv))
            n = 1
            for s in shape:
                n *= max(s, 0)
            if n > 4000 or any(s < 0 for s in shape):
                return None, 'model array too large: %s' % shape
            t = entry.heap[v.aid]
            flat = []
            for idx in itertools.product(*[range(s) for s in shape]):
                val = smt.val_to_py(m.eval(z3.Select(t, *[z3.IntVal(i) for i in idx]), model_completion=True))
                flat.append(float(val) if val is not None else 0.0)
            dtype = 'int64' if v.elem == z3.IntSort() else 'float64'
            if dtype == 'int64':
                flat = [int(x) for x in flat]
            args[a.arg] = {'__ndarray__': flat, 'shape': shape, 'dtype': dtype}
        elif isinstance(v, list):
            args[a.arg] = [int(smt.val_to_py(m.eval(x, model_completion=True))) if z3.is_expr(x) else x for x in v]
        elif z3.is_expr(v):
            pv = smt.val_to_py(m.eval(v, model_completion=True))
            if pv is None:
                return None, 'cannot evaluate %s' % a.arg
            args[a.arg] = pv if isinstance(pv, (int, bool)) else float(pv)
        else:
            return None, 'unsupported parameter %s' % a.arg
    return args, str(m)[:4000]


def run_property(pid, tier, seed, repo='/repo', only_deductive=False, timeout=None, verbose=True):
    from vf import verify, smt, interp
    from vf.props import PROPS, A_COMMON
    t0 = time.time()
    P = PROPS[pid]
    ti = 0 if tier == 'quick' else 1
    # generous wall-clock budgets: verdicts must not flip when the machine is busy (a budget is only exhausted by obligations
    # that do not hold or lost their proof hint)
    timeout = timeout or (120 if tier == 'quick' else 300)
    interp.clear_modules()
    ctx = verify.new_ctx(repo)
    ctx.trace_mode = bool(P.get('trace_mode'))
    cmods = []
    for m in P['contracts']:
        mod = importlib.import_module(m)
        cmods.append(mod)
        ctx.add_contracts(mod.CONTRACTS)
        for sp in getattr(mod, 'SPECS', []):
            ctx.add_spec(*sp)
    lines = []
    violations = []     # dicts: function, detail, replay, args
    undecided = []
    engine_errors = []
    bounded_only = []
    fun_info = []
    entries = {}
    for ln in P.get('lemmas', []):
        for mod in cmods:
            for lem in getattr(mod, 'LEMMAS', []):
                if lem['name'] == ln:
                    fun_info.append(verify.verify_lemma(ctx, lem))
    import numpy as _np
    base_contracts = dict(ctx.contracts)      # case modules may bring their own (e.g. abstract) contracts for the same functions
    for cf in P.get('case_functions', []):
        cmod = importlib.import_module(cf['module'])
        ctx.flat_mode = bool(getattr(cmod, 'FLAT_MODE', False))
        ctx.opaque_alloc = bool(getattr(cmod, 'OPAQUE_ALLOC', False))
        ctx.trace_mode = bool(getattr(cmod, 'TRACE_MODE', P.get('trace_mode')))
        if ctx.flat_mode and not getattr(ctx, '_flat_lemmas', False):
            # the addressing facts vf/flat.py hands to the solver are proved from the row-major definition on every run
            ctx._flat_lemmas = True
            from vf import lemmas_flat
            n_l = 0
            for (lname, lhyps, lgoal) in lemmas_flat.goals():
                if lhyps and smt.sat_probe(lhyps) != 'sat':
                    engine_errors.append('hypotheses of addressing lemma %s not shown satisfiable' % lname)
                ctx.obligations.append(interp.Obligation('lemma:flat:' + lname, 'lemma', 'vf/flat.py::addressing', 0, list(lhyps), [],
                                                         lgoal, clause='row-major addressing lemma ' + lname))
                n_l += 1
            rep_l = dict(function='lemma:vf/flat.py addressing facts (ranks 2-4)', hash=None, paths=1, obligations=n_l,
                         pre_satisfiable='sat', canary_refuted=True, out_of_reach=None)
            ctx.fun_reports.append(rep_l)
            fun_info.append(rep_l)
        for sp in getattr(cmod, 'SPECS', []):
            if 'spec!' + sp[0] not in ctx.registry.specs:
                ctx.add_spec(*sp)
        for lem in getattr(cmod, 'LEMMAS', []):
            fun_info.append(verify.verify_lemma(ctx, lem))
        for case in cmod.cases(tier, _np.random.default_rng(seed)):
            if not isinstance(case, dict):
                (label, struct, *cargs) = case
                case = dict(label=label, struct=struct, key=cf['key'], contracts={cf['key']: cmod.contract_for(*cargs)})
            if os.environ.get('VF_ONLY_CASE') and os.environ['VF_ONLY_CASE'] not in case['label']:
                continue     # development aid: run one case only (never set by the registered commands)
            relpath, qual = case['key'].split('::')
            ctx.add_contracts(case['contracts'])
            try:
                rep = verify.verify_function(ctx, relpath, qual, struct=case.get('struct'), label=case['label'])
            except Exception as e:
                rep = dict(function=case['key'] + ' [%s]' % case['label'], out_of_reach='engine exception: %s' % traceback.format_exc()[-800:], hash=None)
                ctx.fun_reports.append(rep)
            fun_info.append(rep)
            if rep.get('out_of_reach'):
                bounded_only.append((rep['function'], rep['out_of_reach']))
                continue
            if rep['pre_satisfiable'] != 'sat':
                engine_errors.append('precondition of %s not shown satisfiable (%s)' % (rep['function'], rep['pre_satisfiable']))
            if rep['canary_refuted'] is not True and not (rep.get('returns') == 0 and rep.get('raises', 0) > 0):
                engine_errors.append('canary at the exit of %s not refuted' % rep['function'])
    ctx.flat_mode = False
    ctx.opaque_alloc = False
    ctx.trace_mode = bool(P.get('trace_mode'))
    # the functions listed for the property are verified against the property's own contracts; contracts brought by case
    # modules stay available (quantified facts are evaluated lazily at discharge time) unless they clash
    ctx.contracts.update(base_contracts)
    for f in P['functions']:
        relpath, qual = f['key'].split('::')
        try:
            rep = verify.verify_function(ctx, relpath, qual)
        except Exception as e:
            rep = dict(function=f['key'], out_of_reach='engine exception: %s' % traceback.format_exc()[-800:], hash=None)
            ctx.fun_reports.append(rep)
        fun_info.append(rep)
        if rep.get('out_of_reach'):
            bounded_only.append((f['key'], rep['out_of_reach']))
            continue
        if rep['pre_satisfiable'] != 'sat':
            engine_errors.append('precondition of %s not shown satisfiable (%s): vacuous contract' % (f['key'], rep['pre_satisfiable']))
        if rep['canary_refuted'] is not True:
            engine_errors.append('canary at the exit of %s not refuted: vacuous path conditions' % f['key'])
        if rep.get('obligations', 0) == 0:
            engine_errors.append('no obligations generated for %s' % f['key'])
    summ = verify.discharge(ctx, timeout=timeout)
    bad = [o for o in ctx.obligations if o.status != 'discharged']
    if os.environ.get('VF_SLOW'):
        for o in sorted(ctx.obligations, key=lambda o: -o.seconds)[:12]:
            print('slow: %.1fs %s %s' % (o.seconds, o.backend, o.name), file=sys.stderr)
    # run-time tier (bounded stand-in + differential check of the contract reading)
    rt = []
    known = load_known(pid)
    os.makedirs(os.path.join(HERE, 'replay'), exist_ok=True)

    def write_replay(name, payload):
        path = os.path.join(HERE, 'replay', '%s-%s.json' % (pid, name))
        json.dump(payload, open(path, 'w'), indent=1, default=str)
        return path

    for f in P['functions']:
        if not f.get('gen') or only_deductive:
            continue
        req = dict(repo=repo, contracts=P['contracts'], function=f['key'], mode='gen', gen=f['gen'],
                   n=f['n'][ti], seed=seed, tier=tier, shim=os.path.join(HERE, 'vf', 'shim'))
        res = harness(req)
        rt.append(dict(function=f['key'], evaluated=res.get('evaluated', 0), ok=res.get('ok', 0),
                       pre_false=res.get('pre_false', 0), raised_ok=res.get('raised_ok', 0),
                       failures=len(res.get('failures', [])), wall_s=res.get('wall_s')))
        if res.get('errors'):
            engine_errors.append('run-time harness error for %s: %s' % (f['key'], res['errors'][0][-600:]))
        for fl in res.get('failures', [])[:1]:
            violations.append(dict(function=f['key'], detail=fl['detail'], args=fl['args'], source='run-time contract check',
                                   contracts=P['contracts']))
    # bounded stand-ins (real classes under the simulated MPI); labelled, never counted as proved
    bounded_runs = []
    for b in P.get('bounded', []) if not only_deductive else []:
        res = bounded(b['module'], b['prop'], tier, seed, repo)
        bounded_runs.append(dict(module=b['module'], prop=b['prop'], evaluated=res.get('evaluated', 0), ok=res.get('ok', 0),
                                 failures=len(res.get('failures', [])), samples=res.get('samples', [])[:4], bound=b.get('bound', ''),
                                 wall_s=res.get('wall_s')))
        if res.get('errors'):
            engine_errors.append('bounded harness %s error: %s' % (b['module'], res['errors'][0][-600:]))
        for fl in res.get('failures', [])[:2]:
            violations.append(dict(function=b['module'] + ':' + b['prop'], detail=fl.get('detail', ''), args=fl.get('case', fl),
                                   source='bounded stand-in (simulated MPI)', contracts=P['contracts'], bounded=b))
    # refuted obligations: replay the counter-model on the real code
    seen_fun = set(v['function'] for v in violations)
    for ob in bad:
        if ob.status == 'refuted':
            fkey = ob.func
            relpath, qual = fkey.split('::')
            entry = None
            replayed = None
            note = ''
            try:
                mod = interp.load_module(relpath, repo)
                node = mod.functions[qual]
                rep_entry = ctx.entries.get(fkey)
                if rep_entry is not None:
                    args, mtxt = model_args(ctx, ob, rep_entry, node, ctx.contract_for(relpath, qual))
                    note = mtxt
                    if args is not None:
                        res = harness(dict(repo=repo, contracts=P['contracts'], function=fkey, mode='replay', args=args,
                                           shim=os.path.join(HERE, 'vf', 'shim')))
                        if res.get('failures'):
                            replayed = dict(args=res['failures'][0]['args'], detail=res['failures'][0]['detail'])
                        else:
                            note = 'counter-model did not reproduce natively (%s); model: %s' % (
                                (res.get('errors') or ['contract held'])[0][:200], mtxt[:1500])
            except Exception as e:
                note = 'replay failed: %r' % (e,)
            if replayed:
                violations.append(dict(function=fkey, detail='%s [%s] %s' % (ob.name, ob.clause, replayed['detail']),
                                       args=replayed['args'], source='refuted obligation, counter-model replayed',
                                       contracts=P['contracts']))
            elif fkey in seen_fun:
                pass   # the run-time tier already produced a concrete failing input for this function
            else:
                violations.append(dict(function=fkey, detail='%s [%s]' % (ob.name, ob.clause), args=None,
                                       source='refuted obligation (%s)' % ob.backend, solver_output=note,
                                       contracts=P['contracts']))
        else:
            undecided.append(ob)
    # report
    nviol = 0
    seen_v = set()
    dedup = []
    for v in violations:
        key = (v['function'].split(' [')[0], (v['detail'].split('[', 1)[-1])[:160])
        if key in seen_v:
            continue
        seen_v.add(key)
        dedup.append(v)
    violations = dedup
    for i, v in enumerate(violations):
        k = match_known(known, v['function'], v['detail'], v.get('args'))
        if k is not None:
            lines.append('KNOWN-FINDING: property=%s %s' % (pid, k.get('text', v['detail'])))
            continue
        nviol += 1
        path = write_replay('v%d' % i, dict(property=pid, function=v['function'], failed=v['detail'], source=v['source'],
                                            args=v.get('args'), solver_output=v.get('solver_output'),
                                            contracts=v['contracts'], bounded=v.get('bounded'),
                                            replay_cmd='./check %s --replay replay/%s-v%d.json' % (pid, pid, i)))
        tail = '' if v.get('args') is not None else ' no-failing-input-found'
        lines.append('VIOLATION property=%s replay=%s function=%s obligation=%s%s' % (
            pid, path, v['function'], json.dumps(v['detail'][:300]), tail))
    for (k, why) in bounded_only:
        lines.append('NOTE: %s is outside the deductive tier on this run (%s); covered by the run-time tier only' % (k, why[:200]))
    for ob in undecided:
        lines.append('UNDECIDED: %s [%s] (%s)' % (ob.name, ob.clause, ob.backend))
    for e in engine_errors:
        lines.append('ENGINE: %s' % e)
    level = P['level'] if not bounded_only and not undecided else 'other'
    if summ['obligations'] == 0:
        level = 'other'
    samples = []
    for o in ctx.obligations[:400]:
        if o.kind in ('post', 'loop_inv_step') and len(samples) < 6:
            samples.append(dict(obligation=o.name, clause=o.clause, status=o.status, backend=o.backend))
    cov = dict(
        obligations=summ['obligations'], discharged=summ['discharged'], refuted=summ['refuted'],
        undecided=summ['undecided'], by_backend=summ['by_backend'], solver_s=summ['solver_s'],
        checker_cmd='./check %s --tier %s' % (pid, tier),
        trusted_base=A_COMMON + P.get('assumptions', []),
        functions_under_contract=[dict(function=r['function'], source_sha256_16=r.get('hash'), paths=r.get('paths'),
                                       obligations=r.get('obligations'), out_of_reach=r.get('out_of_reach'),
                                       precondition_satisfiable=r.get('pre_satisfiable'),
                                       canary_refuted=r.get('canary_refuted'),
                                       **({'slice_dropped_lines': r['slice_dropped_lines']} if r.get('slice_dropped_lines') else {}))
                                  for r in fun_info],
        samples=samples,
        bounded=dict(kind='run-time reading of the same contracts on the real functions (never counted as proved)',
                     runs=rt, bound='random inputs from vf/rt/gens.py, seed %d' % seed, standins=bounded_runs),
        evaluations=sum(r['evaluated'] for r in rt) + sum(b['evaluated'] for b in bounded_runs) + summ['obligations'],
        distinct_nontrivial=sum(r['ok'] + r['raised_ok'] for r in rt) + sum(b['ok'] for b in bounded_runs),
        rule='run-time tier: inputs drawn by the generator of each function that satisfy its precondition',
        explanation='deductive tier: %d/%d obligations discharged over %d functions; run-time tier: %d evaluations'
                    % (summ['discharged'], summ['obligations'], len(fun_info), sum(r['evaluated'] for r in rt)),
        notes=ctx.notes[:20],
    )
    ev = dict(property_id=pid, tier=tier, seed=seed, level=level, coverage=cov,
              assumptions=A_COMMON + P.get('assumptions', []), wall_s=round(time.time() - t0, 2), violations=nviol)
    # evidence is only written for the real tree; runs on scratch copies (seeded changes, mutation self-test) keep theirs apart
    evdir = os.path.join(HERE, 'evidence') if os.path.realpath(repo) == '/repo' else os.path.join(HERE, 'replay', 'scratch-evidence')
    os.makedirs(evdir, exist_ok=True)
    json.dump(ev, open(os.path.join(evdir, pid + '.json'), 'w'), indent=1, default=str)
    code = 0
    if engine_errors:
        code = 3
    if undecided:
        code = 2
    if nviol:
        code = 1
    if verbose:
        for l in lines:
            print(l)
        print('%s tier=%s: %d obligations, %d discharged, %d refuted, %d undecided; run-time evaluations %d; '
              'violations %d; %.1fs' % (pid, tier, summ['obligations'], summ['discharged'], summ['refuted'],
                                        summ['undecided'], sum(r['evaluated'] for r in rt) + sum(b['evaluated'] for b in bounded_runs), nviol, time.time() - t0))
    return code


def replay(pid, path, repo='/repo'):
    d = json.load(open(path))
    if d.get('bounded'):
        b = d['bounded']
        res = bounded(b['module'], b['prop'], 'quick', 0, repo, case=d['args'])
        if res.get('failures'):
            print('REPRODUCED: %s' % res['failures'][0].get('detail'))
            return 1
        print('not reproduced: %s' % json.dumps(res)[:500])
        return 0
    if d.get('args') is None:
        print('replay file carries no concrete input; failed obligation: %s' % d.get('failed'))
        print((d.get('solver_output') or '')[:3000])
        return 1
    res = harness(dict(repo=repo, contracts=d['contracts'], function=d['function'], mode='replay', args=d['args'],
                       shim=os.path.join(HERE, 'vf', 'shim')))
    if res.get('failures'):
        print('REPRODUCED: %s' % res['failures'][0]['detail'])
        return 1
    print('not reproduced: %s' % json.dumps(res)[:500])
    return 0


def main():
    ap = argparse.ArgumentParser()
    ap.add_argument('pid')
    ap.add_argument('--tier', default=os.environ.get('VERIF_TIER', 'quick'))
    ap.add_argument('--replay')
    ap.add_argument('--repo', default=os.environ.get('VF_REPO', '/repo'))
    a = ap.parse_args()
    seed = int(os.environ.get('VERIF_SEED', '0') or 0)
    if a.replay:
        sys.exit(replay(a.pid, a.replay, a.repo))
    try:
        code = run_property(a.pid, a.tier, seed, a.repo)
    except Exception:
        traceback.print_exc()
        code = 3
    sys.exit(code)


if __name__ == '__main__':
    main()
