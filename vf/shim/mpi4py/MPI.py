import threading
import time

import numpy as np

DOUBLE = 'DOUBLE'
SUM, MAX, MIN, LAND, PROD = 'SUM', 'MAX', 'MIN', 'LAND', 'PROD'
IN_PLACE = 'IN_PLACE'
_TIMEOUT = 20.0


class DeadlockError(RuntimeError):
    pass


class CollectiveMismatch(RuntimeError):
    pass


class _World:
    """Shared state of one simulated job."""

    def __init__(self, size, timeout=_TIMEOUT, seed=0):
        self.size = size
        self.timeout = timeout
        self.traces = [[] for _ in range(size)]
        self.failed = None
        self.rng = np.random.default_rng(seed)
        self.jitter = False
        self.lock = threading.Lock()


_tls = threading.local()


def _ctx():
    c = getattr(_tls, 'ctx', None)
    if c is None:
        # serial use outside run_job: a one-rank world
        w = _World(1)
        c = _tls.ctx = (w, 0)
    return c


class _Group:
    """A communicator's shared rendezvous state."""

    def __init__(self, world, members, name):
        self.world = world
        self.members = list(members)     # world ranks, in communicator rank order
        self.name = name
        self.cond = threading.Condition()
        self.gen = 0
        self.slots = {}
        self.result = None

    def exchange(self, my_world_rank, tag, payload):
        """All members deposit (tag, payload); everybody gets the list ordered by communicator rank."""
        w = self.world
        if w.jitter:
            time.sleep(float(w.rng.uniform(0, 0.002)))
        n = len(self.members)
        me = self.members.index(my_world_rank)
        w.traces[my_world_rank].append((self.name,) + tuple(tag))
        with self.cond:
            if w.failed:
                raise w.failed
            gen = self.gen
            self.slots[me] = (tag, payload)
            if len(self.slots) == n:
                items = [self.slots[k] for k in range(n)]
                tags = [t for t, _ in items]
                if any(not _compatible(tags[0], t) for t in tags[1:]):
                    w.failed = CollectiveMismatch('mismatched collectives on %s: %s' % (self.name, tags))
                self.result = [p for _, p in items]
                self.slots = {}
                self.gen += 1
                self.cond.notify_all()
            else:
                t0 = time.time()
                while self.gen == gen and not w.failed:
                    if not self.cond.wait(0.05) and time.time() - t0 > w.timeout:
                        w.failed = DeadlockError('rank %d waited %.0fs in %s on %s (participants missing: %s)' % (
                            my_world_rank, w.timeout, tag[0], self.name,
                            [self.members[k] for k in range(n) if k not in self.slots]))
                        self.cond.notify_all()
                        break
            if w.failed:
                raise w.failed
            return self.result


def _buf(x):
    """mpi4py buffer specifications: array, (array, datatype) or [array, count, datatype]."""
    if isinstance(x, (tuple, list)) and len(x) >= 1 and isinstance(x[0], np.ndarray):
        return x[0]
    return np.asarray(x)


def _compatible(a, b):
    return a == b


class Comm:
    def __init__(self, group=None):
        self._group = group

    # --- helpers ---
    def _g(self):
        if self._group is None:
            w, r = _ctx()
            if not hasattr(w, 'world_group'):
                with w.lock:
                    if not hasattr(w, 'world_group'):
                        w.world_group = _Group(w, range(w.size), 'WORLD')
            return w.world_group
        return self._group

    def _me(self):
        return _ctx()[1]

    def Get_size(self):
        return len(self._g().members)

    def Get_rank(self):
        return self._g().members.index(self._me())

    size = property(Get_size)
    rank = property(Get_rank)

    def __eq__(self, other):
        return isinstance(other, Comm) and self._g() is other._g()

    def __ne__(self, other):
        return not self.__eq__(other)

    def __hash__(self):
        return id(self._g())

    def _x(self, tag, payload):
        return self._g().exchange(self._me(), tag, payload)

    # --- topology ---
    def Create_cart(self, dims, periods=None, reorder=False):
        dims = [int(d) for d in dims]
        res = self._x(('Create_cart', tuple(dims)), None)
        g = self._g()
        if int(np.prod(dims)) != len(g.members):
            raise ValueError('cart dims %s do not match communicator size %d' % (dims, len(g.members)))
        key = ('cart', tuple(dims))
        with g.cond:
            sub = g.__dict__.setdefault('_children', {})
            if key not in sub:
                sub[key] = _Group(g.world, g.members, g.name + '/cart%s' % (tuple(dims),))
        return Cartcomm(sub[key], dims)

    def Split(self, color=0, key=0):
        res = self._x(('Split',), (color, key, self._me()))
        g = self._g()
        mine = sorted([(k, wr) for (c, k, wr) in res if c == color])
        members = tuple(wr for _, wr in mine)
        gk = ('split', color, members)
        with g.cond:
            sub = g.__dict__.setdefault('_children', {})
            seq = g.__dict__.setdefault('_splitseq', {})
            n = seq.get((self._me(),), 0)
            seq[(self._me(),)] = n + 1
            gk = gk + (n,)
            if gk not in sub:
                sub[gk] = _Group(g.world, members, g.name + '/split%s' % (color,))
        return Comm(sub[gk])

    # --- collectives ---
    def Barrier(self):
        self._x(('Barrier',), None)

    barrier = Barrier

    def bcast(self, obj=None, root=0):
        res = self._x(('bcast', root), obj)
        return res[root]

    def Bcast(self, buf, root=0):
        b = _buf(buf)
        res = self._x(('Bcast', root, b.size, str(b.dtype)), b.copy())
        if self.Get_rank() != root:
            b[...] = res[root].reshape(b.shape)

    def gather(self, obj, root=0):
        res = self._x(('gather', root), obj)
        return list(res) if self.Get_rank() == root else None

    def allgather(self, obj):
        return list(self._x(('allgather',), obj))

    def reduce(self, obj, op=SUM, root=0):
        res = self._x(('reduce', op, root), obj)
        return _reduce(res, op) if self.Get_rank() == root else None

    def allreduce(self, obj, op=SUM):
        res = self._x(('allreduce', op), obj)
        return _reduce(res, op)

    def Reduce(self, sendbuf, recvbuf, op=SUM, root=0):
        s = _buf(sendbuf)
        recvbuf = _buf(recvbuf) if recvbuf is not None else None
        res = self._x(('Reduce', op, root, s.size, str(s.dtype)), s.copy())
        if self.Get_rank() == root:
            out = res[0].copy()
            for x in res[1:]:
                out = _binop(out, x, op)
            np.asarray(recvbuf)[...] = out.reshape(np.asarray(recvbuf).shape)

    def Allgather(self, sendbuf, recvbuf):
        s = _buf(sendbuf).ravel()
        recvbuf = _buf(recvbuf)
        res = self._x(('Allgather', s.size, str(s.dtype)), s.copy())
        r = np.asarray(recvbuf).reshape(-1)
        n = s.size
        if r.size < n * len(res):
            raise ValueError('Allgather: receive buffer too small (%d < %d)' % (r.size, n * len(res)))
        for k, x in enumerate(res):
            r[k * n:(k + 1) * n] = x

    def Alltoall(self, sendbuf, recvbuf):
        s = _buf(sendbuf).ravel()
        recvbuf = _buf(recvbuf)
        p = self.Get_size()
        if s.size % p != 0:
            raise ValueError('Alltoall: send buffer size %d not divisible by %d' % (s.size, p))
        res = self._x(('Alltoall', s.size, str(s.dtype)), s.copy())
        r = np.asarray(recvbuf).reshape(-1)
        if r.size != s.size:
            raise ValueError('Alltoall: send/receive sizes differ (%d, %d)' % (s.size, r.size))
        c = s.size // p
        me = self.Get_rank()
        for j, x in enumerate(res):
            r[j * c:(j + 1) * c] = x[me * c:(me + 1) * c]

    def Gatherv(self, sendbuf, recvbuf, root=0):
        s = _buf(sendbuf).ravel()
        res = self._x(('Gatherv', root, str(s.dtype)), s.copy())
        if self.Get_rank() == root:
            buf, counts, displs, _ = recvbuf
            out = np.asarray(buf).reshape(-1)
            for k, x in enumerate(res):
                if len(x) != counts[k]:
                    raise CollectiveMismatch('Gatherv: rank %d sent %d, root expects %d' % (k, len(x), counts[k]))
                out[displs[k]:displs[k] + counts[k]] = x


class Cartcomm(Comm):
    def __init__(self, group, dims):
        super().__init__(group)
        self.dims = list(dims)

    def Get_coords(self, rank):
        return [int(c) for c in np.unravel_index(rank, self.dims)]

    def Sub(self, remain_dims):
        remain = [bool(x) for x in remain_dims]
        self._x(('Sub', tuple(remain)), None)
        g = self._g()
        me = self.Get_rank()
        mc = self.Get_coords(me)
        members = []
        for r in range(len(g.members)):
            c = self.Get_coords(r)
            if all(remain[k] or c[k] == mc[k] for k in range(len(self.dims))):
                members.append(g.members[r])
        key = ('sub', tuple(remain), tuple(members))
        with g.cond:
            sub = g.__dict__.setdefault('_children', {})
            if key not in sub:
                sub[key] = _Group(g.world, members, g.name + '/sub%s@%s' % (tuple(int(x) for x in remain),
                                                                         tuple(c for c, k in zip(mc, remain) if not k)))
        return Comm(sub[key])


def _binop(a, b, op):
    if op == SUM:
        return a + b
    if op == MAX:
        return np.maximum(a, b)
    if op == MIN:
        return np.minimum(a, b)
    if op == LAND:
        return np.logical_and(a, b)
    if op == PROD:
        return a * b
    raise ValueError(op)


def _reduce(items, op):
    out = items[0]
    for x in items[1:]:
        out = _binop(out, x, op)
    return out


COMM_WORLD = Comm(None)


def Wtime():
    return time.time()


def run_job(size, fn, timeout=_TIMEOUT, seed=0, jitter=False):
    """Run fn(rank) on `size` simulated ranks. Returns (results, traces). Raises the first rank failure."""
    w = _World(size, timeout, seed)
    w.jitter = jitter
    results = [None] * size
    errors = [None] * size

    def target(r):
        _tls.ctx = (w, r)
        try:
            results[r] = fn(r)
        except BaseException as e:  # noqa
            errors[r] = e
            with w.lock:
                if w.failed is None:
                    w.failed = e if isinstance(e, (DeadlockError, CollectiveMismatch)) else RuntimeError(
                        'rank %d failed: %r' % (r, e))

    ths = [threading.Thread(target=target, args=(r,), daemon=True) for r in range(size)]
    for t in ths:
        t.start()
    for t in ths:
        t.join(timeout * 3 + 30)
    if any(t.is_alive() for t in ths):
        raise DeadlockError('ranks still running after the global timeout')
    for r, e in enumerate(errors):
        if e is not None and not isinstance(e, RuntimeError):
            raise e
    for r, e in enumerate(errors):
        if e is not None:
            raise e
    return results, w.traces
