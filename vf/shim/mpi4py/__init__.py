"""Simulated mpi4py for the bounded tier (the installed mpi4py cannot load libmpi in this sandbox).

One thread per rank; collectives are rendezvous points that check that every member of the communicator
issued the same operation with compatible root / count / dtype, record a per-rank trace, and turn a missing
participant into DeadlockError instead of a hang.  First on PYTHONPATH only inside /verif's own checks.
"""
from . import MPI  # noqa
