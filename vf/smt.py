"""SMT layer: formula trees with bounded quantifiers, explicit instantiation,
finite sums, spec-function unfolding and back-end dispatch.

Every VC that reaches a solver is quantifier free: goals are skolemised and
quantified hypotheses are instantiated at the index terms that occur in the VC
(DESIGN.md 2.6).
"""
import itertools
import os
import subprocess
import tempfile
import time
from fractions import Fraction

import z3

# --------------------------------------------------------------------------
# formula trees
# --------------------------------------------------------------------------


class Form:
    pass


class FForall(Form):
    """forall v1..vn (ints). fn(*consts) -> formula (range guards included via FImp)."""

    def __init__(self, arity, fn, label='', bounds=None, names=None):
        self.arity = arity
        self.fn = fn
        self.label = label
        self.bounds = bounds   # optional [(lo, hi)] per variable (for proof-by-cases on the last index)
        self.names = names     # optional variable names (for proof-by-cases hints of the contract)


class FAnd(Form):
    def __init__(self, parts):
        self.parts = list(parts)


class FImp(Form):
    def __init__(self, cond, body):
        self.cond = cond  # quantifier free z3 Bool / python bool
        self.body = body


class FExists(Form):
    """exists v (int) in [lo,hi): fn(v). Only supported as a hypothesis (skolemised)
    or as a goal with an explicit witness list."""

    def __init__(self, fn, witnesses=None):
        self.fn = fn
        self.witnesses = witnesses or []


_fresh_counter = [0]
SK_BOUNDS = {}
SK_NAMES = {}


def fresh(prefix, sort=None):
    _fresh_counter[0] += 1
    name = '%s!%d' % (prefix, _fresh_counter[0])
    if sort is None or (isinstance(sort, str) and sort == 'int'):
        return z3.Int(name)
    if isinstance(sort, str) and sort == 'real':
        return z3.Real(name)
    if isinstance(sort, str) and sort == 'bool':
        return z3.Bool(name)
    return z3.Const(name, sort)


def zbool(b):
    if isinstance(b, bool):
        return z3.BoolVal(b)
    if isinstance(b, z3.BoolRef):
        return b
    raise TypeError('not a boolean formula: %r' % (b,))


def is_qf(f):
    return isinstance(f, (bool, z3.BoolRef))


def f_and(parts):
    parts = [p for p in parts if not (isinstance(p, bool) and p)]
    if all(is_qf(p) for p in parts):
        if not parts:
            return True
        return z3.And(*[zbool(p) for p in parts]) if len(parts) > 1 else zbool(parts[0])
    return FAnd(parts)


def f_imp(c, body):
    if isinstance(c, bool):
        return body if c else True
    if is_qf(body):
        return z3.Implies(c, zbool(body))
    return FImp(c, body)


class QFact:
    """A quantified hypothesis. fn(*int terms) -> Form. trigger: None (index terms)
    or a z3 FuncDecl name (instantiated at the argument tuples of its applications)."""

    def __init__(self, arity, fn, label='', trigger=None):
        self.arity = arity
        self.fn = fn
        self.label = label
        self.trigger = trigger


FLATTEN = [False]
WITNESSES = set()
_KEEP = []


def _flatten_forall(f, depth=0):
    """forall x. (c(x) => forall y. B(x,y))  ==  forall x,y. (c(x) => B(x,y)): one quantified fact instead of a nest, so that
    one instantiation round reaches the body."""
    if not FLATTEN[0] or depth > 3:
        return QFact(f.arity, f.fn, f.label)
    probe = [fresh('probe') for _ in range(f.arity)]
    try:
        body = f.fn(*probe)
    except Exception:
        return QFact(f.arity, f.fn, f.label)
    inner = body.body if isinstance(body, FImp) else body
    if not isinstance(inner, FForall):
        return QFact(f.arity, f.fn, f.label)
    n1, n2 = f.arity, inner.arity

    def fn(*a, f=f, n1=n1):
        b = f.fn(*a[:n1])
        if isinstance(b, FImp) and isinstance(b.body, FForall):
            return f_imp(b.cond, b.body.fn(*a[n1:]))
        if isinstance(b, FForall):
            return b.fn(*a[n1:])
        # the shape of the body depends on the instance (it simplified): fall back to the nested reading
        if is_qf(b):
            return b
        raise _NoFlatten()
    g = FForall(n1 + n2, fn, f.label)
    try:
        fn(*[fresh('probe') for _ in range(n1 + n2)])
    except _NoFlatten:
        return QFact(f.arity, f.fn, f.label)
    return _flatten_forall(g, depth + 1)


class _NoFlatten(Exception):
    pass


def to_facts(f, out_qf, out_q):
    """Decompose a hypothesis formula into QF facts and QFacts."""
    if is_qf(f):
        out_qf.append(zbool(f))
    elif isinstance(f, FAnd):
        for p in f.parts:
            to_facts(p, out_qf, out_q)
    elif isinstance(f, FImp):
        c = f.cond
        sub_qf, sub_q = [], []
        to_facts(f.body, sub_qf, sub_q)
        for g in sub_qf:
            out_qf.append(z3.Implies(c, g))
        for q in sub_q:
            out_q.append(QFact(q.arity, (lambda q=q, c=c: (lambda *a: f_imp(c, q.fn(*a))))(), q.label, q.trigger))
    elif isinstance(f, FForall):
        out_q.append(_flatten_forall(f))
    elif isinstance(f, FExists):
        w = fresh('ex')
        WITNESSES.add(w.get_id())
        _KEEP.append(w)
        to_facts(f.fn(w), out_qf, out_q)
    else:
        raise TypeError('to_facts: %r' % (f,))


def to_goals(f, hyps=None):
    """Skolemise a goal formula: list of (extra hypotheses, qf goal, skolem consts)."""
    hyps = list(hyps or [])
    if is_qf(f):
        return [(hyps, zbool(f), [])]
    if isinstance(f, FAnd):
        res = []
        for p in f.parts:
            res.extend(to_goals(p, hyps))
        return res
    if isinstance(f, FImp):
        return to_goals(f.body, hyps + [zbool(f.cond)])
    if isinstance(f, FForall):
        cs = [fresh('sk') for _ in range(f.arity)]
        if f.bounds:
            for c, b in zip(cs, f.bounds):
                SK_BOUNDS[c.get_id()] = (c, b[0], b[1])
        if f.names:
            for c, nm in zip(cs, f.names):
                SK_NAMES[c.get_id()] = nm
        res = []
        for (h, g, sk) in to_goals(f.fn(*cs), hyps):
            res.append((h, g, cs + sk))
        return res
    if isinstance(f, FExists):
        if not f.witnesses:
            # refutation form: assume no value satisfies the body (a quantified hypothesis) and derive a contradiction
            def nobody(c, f=f):
                b = f.fn(c)
                if not is_qf(b):
                    raise TypeError('existential goal with quantified body')
                return z3.Not(zbool(b))
            return [(hyps + [QFact(1, nobody, 'negated existential goal')], z3.BoolVal(False), [])]
        alts = []
        for w in f.witnesses:
            b = f.fn(w)
            if not is_qf(b):
                raise TypeError('existential goal with quantified body')
            alts.append(zbool(b))
        return [(hyps, z3.Or(*alts) if len(alts) > 1 else alts[0], [])]
    raise TypeError('to_goals: %r' % (f,))


# --------------------------------------------------------------------------
# term collection
# --------------------------------------------------------------------------

def _walk(exprs):
    seen = set()
    stack = list(exprs)
    while stack:
        e = stack.pop()
        i = e.get_id()
        if i in seen:
            continue
        seen.add(i)
        yield e
        if z3.is_app(e):
            stack.extend(e.children())
        elif z3.is_quantifier(e):
            # lambdas (slice assignments, expression arrays): subterms without bound variables are still relevant
            # (collect() filters anything that mentions a bound variable)
            stack.append(e.body())


def _has_var(e):
    """Does the term mention a de Bruijn variable of an ENCLOSING binder? (closed lambda sub-terms do not count)"""
    seen = set()
    stack = [(e, 0)]
    while stack:
        t, depth = stack.pop()
        key = (t.get_id(), depth)
        if key in seen:
            continue
        seen.add(key)
        if z3.is_var(t):
            if z3.get_var_index(t) >= depth:
                return True
        elif z3.is_quantifier(t):
            stack.append((t.body(), depth + t.num_vars()))
        elif z3.is_app(t):
            for c in t.children():
                stack.append((c, depth))
    return False


def _chain(arr):
    """Arrays whose contents a select on arr may read: through Store / If chains."""
    out = []
    stack = [arr]
    n = 0
    while stack and n < 50:
        a = stack.pop()
        n += 1
        out.append(a)
        if z3.is_app(a):
            k = a.decl().kind()
            if k == z3.Z3_OP_STORE:
                stack.append(a.arg(0))
            elif k == z3.Z3_OP_ITE:
                stack.append(a.arg(1))
                stack.append(a.arg(2))
    return out


def free_consts(e, exclude=None):
    """Uninterpreted constants of e (deterministic order), excluding numerals and `exclude`."""
    out = []
    seen = set()

    def rec(t):
        i = t.get_id()
        if i in seen:
            return
        seen.add(i)
        if z3.is_app(t):
            if t.num_args() == 0:
                if t.decl().kind() == z3.Z3_OP_UNINTERPRETED and not (exclude is not None and t.eq(exclude)):
                    out.append(t)
            else:
                for c in t.children():
                    rec(c)
        elif z3.is_quantifier(t):
            rec(t.body())
    rec(e)
    return out


def collect(exprs):
    """Return (index_tuples: dict arity -> {ids: tuple}, apps: dict declname -> {id: app},
    sel_by_arr: dict array term id -> {ids: tuple})."""
    idx = {}
    apps = {}
    by_arr = {}
    for e in _walk(exprs):
        if not z3.is_app(e):
            continue
        k = e.decl().kind()
        if k == z3.Z3_OP_SELECT:
            args = e.children()[1:]
            if all(a.sort() == z3.IntSort() for a in args) and not any(_has_var(a) for a in args):
                key = tuple(a.get_id() for a in args)
                idx.setdefault(len(args), {})[key] = tuple(args)
                for a in _chain(e.arg(0)):
                    by_arr.setdefault(a.get_id(), {})[key] = tuple(args)
        elif k == z3.Z3_OP_STORE:
            args = e.children()[1:-1]
            if all(a.sort() == z3.IntSort() for a in args) and not any(_has_var(a) for a in args):
                key = tuple(a.get_id() for a in args)
                idx.setdefault(len(args), {})[key] = tuple(args)
                for a in _chain(e.arg(0)):
                    by_arr.setdefault(a.get_id(), {})[key] = tuple(args)
        elif k == z3.Z3_OP_UNINTERPRETED and e.num_args() > 0:
            if not any(_has_var(a) for a in e.children()):
                apps.setdefault(e.decl().name(), {})[e.get_id()] = e
    return idx, apps, by_arr


def infer_patterns(qf):
    """Trigger inference: selects / uninterpreted applications in the body whose arguments are a quantified
    variable (plus a constant offset). Returns list of (kind, key, [(pos, var, offset)])."""
    if getattr(qf, '_pats', None) is not None:
        return qf._pats
    ds = [z3.Int('pat!%d' % k) for k in range(qf.arity)]
    pats = []
    try:
        f = qf.fn(*ds)
        parts, nested = [], []
        to_facts(f, parts, nested)
        for q in nested:
            # nested quantifier: look one level down with its own dummies
            es = [z3.Int('patn!%d' % k) for k in range(q.arity)]
            try:
                to_facts(q.fn(*es), parts, [])
            except Exception:
                pass
    except Exception:
        qf._pats = []
        return qf._pats
    seen = set()
    # also the beta-reduced reading (a select on a lambda term - an array havocked inside a view - is a select on the arrays
    # under the lambda once the VC is simplified)
    extra = []
    for p_ in parts:
        try:
            if 'lambda' in p_.sexpr():
                extra.append(z3.simplify(p_))
        except Exception:
            pass
    for e in _walk(parts + extra):
        if not z3.is_app(e):
            continue
        k = e.decl().kind()
        if k == z3.Z3_OP_SELECT:
            args = e.children()[1:]
            arrs = [a for a in _chain(e.arg(0))]
            kind = 'sel'
            keys = [a.get_id() for a in arrs if not z3.is_app(a) or a.num_args() == 0 or a.decl().kind() != z3.Z3_OP_STORE]
        elif k == z3.Z3_OP_UNINTERPRETED and e.num_args() > 0:
            args = e.children()
            kind = 'app'
            keys = [e.decl().name()]
        else:
            continue
        binds = []
        for pos, a in enumerate(args):
            if a.sort() != z3.IntSort():
                continue
            for vi, d in enumerate(ds):
                if a.eq(d):
                    binds.append((pos, vi, 0))
                else:
                    off = z3.simplify(a - d)
                    if z3.is_int_value(off):
                        binds.append((pos, vi, off.as_long()))
        if binds:
            for key in keys:
                sig = (kind, key, tuple(binds))
                if sig not in seen:
                    seen.add(sig)
                    pats.append((kind, key, binds))
    qf._pats = pats
    qf._keep = parts
    return pats


def match_patterns(qf, pats, idx, apps, by_arr, singles, cap=400, priority=None):
    """Candidate argument tuples for a quantified fact from its inferred triggers."""
    partial = {}   # frozenset of (var, term id) -> dict var->term
    for (kind, key, binds) in pats:
        if kind == 'sel':
            occs = by_arr.get(key, {}).values()
        else:
            occs = [tuple(a.children()) for a in apps.get(key, {}).values()]
        for args in occs:
            b = {}
            ok = True
            for (pos, vi, off) in binds:
                if pos >= len(args):
                    ok = False
                    break
                t = args[pos] if off == 0 else z3.simplify(args[pos] - off)
                if vi in b and not b[vi].eq(t):
                    ok = False
                    break
                b[vi] = t
            if ok and b:
                partial[tuple(sorted((v, t.get_id()) for v, t in b.items()))] = b
    if not partial:
        return None
    full = {}
    per_var = {}
    for b in partial.values():
        if len(b) == qf.arity:
            full[tuple(b[v].get_id() for v in range(qf.arity))] = tuple(b[v] for v in range(qf.arity))
        for v, t in b.items():
            per_var.setdefault(v, {})[t.get_id()] = t
    prio = priority or {}
    if qf.arity > 1:
        # joint matches first: a trigger that binds several variables at once (f(i, j, ..)) keeps its tuples together; groups of
        # variables bound by different triggers are combined, goal terms and existential witnesses first
        groups = {}
        for b in partial.values():
            groups.setdefault(frozenset(b.keys()), []).append(b)
        chosen, covered = [], set()
        for vs in sorted(groups, key=lambda vs: -len(vs)):
            if len(vs) < qf.arity and not (vs & covered):
                chosen.append(vs)
                covered |= vs
        if FLATTEN[0] and chosen and any(len(vs) > 1 for vs in chosen):
            glists = [groups[vs] for vs in chosen]
            for v in range(qf.arity):
                if v not in covered:
                    glists.append([{v: t} for t in singles.values()])
            per_g = max(2, int(round(cap ** (1.0 / len(glists)))))

            def rank(b):
                return sum(0 if (t.get_id() in prio or t.get_id() in WITNESSES) else 1 for t in b.values())
            glists = [sorted(g, key=rank)[:per_g] for g in glists]
            for combo in itertools.product(*glists):
                m = {}
                for b in combo:
                    m.update(b)
                tup = tuple(m[v] for v in range(qf.arity))
                full[tuple(t.get_id() for t in tup)] = tup
        lists = []
        per = max(2, int(round(cap ** (1.0 / qf.arity))))
        for v in range(qf.arity):
            if v in per_var:
                l = list(per_var[v].values())
            else:
                l = list(singles.values())
            # terms of the goal (and skolems) first; truncate so that the product stays bounded
            l.sort(key=lambda t: 0 if t.get_id() in prio else 1)
            lists.append(l[:per])
        for tup in itertools.product(*lists):
            full[tuple(t.get_id() for t in tup)] = tup
    return list(full.values())


# --------------------------------------------------------------------------
# registered schemas: spec functions and sums
# --------------------------------------------------------------------------

class SpecFun:
    """Uninterpreted function with a definitional unfolding instantiated at occurrences."""

    def __init__(self, name, decl, unfold, depth=8):
        self.name = name
        self.decl = decl
        self.unfold = unfold   # fn(*args) -> Form (the defining equation for this application) or None
        self.depth = depth


class SumFun:
    """S(lo,hi,*captured) = sum_{k=lo}^{hi-1} term(k,*captured)."""

    def __init__(self, name, decl, term):
        self.name = name
        self.decl = decl
        self.term = term   # fn(k, *captured) -> z3 arith


class Registry:
    def __init__(self):
        self.specs = {}
        self.sums = {}
        self.sum_by_key = {}
        self.keep = []

    def sum_fun(self, key, captured_sorts, term, real=True):
        if key in self.sum_by_key:
            return self.sum_by_key[key]
        name = 'sum!%d' % len(self.sums)
        decl = z3.Function(name, z3.IntSort(), z3.IntSort(), *captured_sorts,
                           z3.RealSort() if real else z3.IntSort())
        sf = SumFun(name, decl, term)
        self.sums[name] = sf
        self.sum_by_key[key] = sf
        return sf


def sum_axioms(sf, app, fresh_terms):
    """Unfolding axioms for one occurrence S(lo,hi,c...)."""
    ch = app.children()
    lo, hi, cap = ch[0], ch[1], ch[2:]
    S = sf.decl
    out = []
    out.append(z3.Implies(hi <= lo, app == 0))
    # right unfolding
    out.append(z3.Implies(hi > lo, app == S(lo, hi - 1, *cap) + sf.term(hi - 1, *cap)))
    # left unfolding
    out.append(z3.Implies(hi > lo, app == sf.term(lo, *cap) + S(lo + 1, hi, *cap)))
    return out


def sum_pair_axiom(sf1, a1, sf2, a2):
    """Extensionality for two sum occurrences (skolemised antecedent, sound)."""
    c1, c2 = a1.children(), a2.children()
    m = fresh('ext')
    t1 = sf1.term(m, *c1[2:])
    t2 = sf2.term(m, *c2[2:])
    if t1.sort() != t2.sort():
        if t1.sort() == z3.IntSort():
            t1 = z3.ToReal(t1)
        if t2.sort() == z3.IntSort():
            t2 = z3.ToReal(t2)
    l1, l2 = a1, a2
    if l1.sort() != l2.sort():
        if l1.sort() == z3.IntSort():
            l1 = z3.ToReal(l1)
        if l2.sort() == z3.IntSort():
            l2 = z3.ToReal(l2)
    return z3.Implies(z3.And(c1[0] == c2[0], c1[1] == c2[1],
                             z3.Implies(z3.And(c1[0] <= m, m < c1[1]), t1 == t2)),
                      l1 == l2), m


# --------------------------------------------------------------------------
# instantiation
# --------------------------------------------------------------------------

MAX_TUPLES = 400
DEADLINE = [None]


class InstTimeout(Exception):
    pass


def _check_deadline():
    if DEADLINE[0] is not None and time.time() > DEADLINE[0]:
        raise InstTimeout()


def _has_exists(qfct):
    r = getattr(qfct, '_has_exists', None)
    if r is None:
        def walk(f):
            if isinstance(f, FExists):
                return True
            if isinstance(f, FAnd):
                return any(walk(p) for p in f.parts)
            if isinstance(f, FImp):
                return walk(f.body)
            return False
        try:
            r = walk(qfct.fn(*[fresh('probe') for _ in range(qfct.arity)]))
        except Exception:
            r = False
        qfct._has_exists = r
    return r


def instantiate(ground, qfacts, registry, rounds=2, hints=(), max_insts=6000, use_sums=True, goal=None):
    """ground: list of qf z3 Bool (hyps + negated goal). Returns list of added qf facts."""
    added = []
    seen_inst = set()
    seen_sum = set()
    seen_spec = {}
    seen_pairs = set()
    qfacts = list(qfacts)
    extra_terms = list(hints)
    work = list(ground)
    priority = {t.get_id(): t for t in extra_terms}
    if goal is not None:
        gi, _, _ = collect([goal])
        for d in gi.values():
            for tup in d.values():
                for t in tup:
                    priority[t.get_id()] = t
    for rnd in range(rounds):
        _check_deadline()
        idx, apps, by_arr = collect(work + added)
        singles = {}
        for ar, d in idx.items():
            for tup in d.values():
                for t in tup:
                    singles[t.get_id()] = t
        for t in extra_terms:
            singles[t.get_id()] = t
        new = []
        new_q = []
        # sums
        for name, sf in (registry.sums.items() if use_sums else ()):
            occ = apps.get(name, {})
            for aid, app in occ.items():
                if aid in seen_sum:
                    continue
                seen_sum.add(aid)
                new.extend(sum_axioms(sf, app, extra_terms))
        if use_sums:
            sum_occ = []
            for name, sf in registry.sums.items():
                for aid, app in apps.get(name, {}).items():
                    sum_occ.append((sf, app))
            if len(sum_occ) <= 24:
                for (s1, a1), (s2, a2) in itertools.combinations(sum_occ, 2):
                    key = (a1.get_id(), a2.get_id())
                    if key in seen_pairs:
                        continue
                    seen_pairs.add(key)
                    if True:
                        # only when the bounds are syntactically equal
                        c1, c2 = a1.children(), a2.children()
                        if not (z3.simplify(c1[0] - c2[0]).eq(z3.IntVal(0)) and
                                z3.simplify(c1[1] - c2[1]).eq(z3.IntVal(0))):
                            continue
                    ax, m = sum_pair_axiom(s1, a1, s2, a2)
                    new.append(ax)
                    singles[m.get_id()] = m
        # uninterpreted functions with array arguments: extensionality, skolemised per pair of occurrences
        # ( (forall i. A[i] = B[i]) => f(A) = f(B)  is  exists w. (A[w] = B[w] => f(A) = f(B)) )
        for name in getattr(registry, 'uf_arrays', {}):
            occ = list(apps.get(name, {}).items())
            if len(occ) > 12:
                occ = occ[:12]
            for (i1, a1), (i2, a2) in itertools.combinations(occ, 2):
                key = ('ufext', i1, i2)
                if key in seen_pairs:
                    continue
                seen_pairs.add(key)
                if not any(x.sort().kind() == z3.Z3_ARRAY_SORT and not x.eq(y) for x, y in zip(a1.children(), a2.children())):
                    continue        # same array arguments: plain congruence, which the solver has anyway
                conds = []
                for x, y in zip(a1.children(), a2.children()):
                    if x.sort().kind() == z3.Z3_ARRAY_SORT:
                        if x.eq(y):
                            continue
                        nd = 1
                        try:
                            nd = z3.Z3_get_array_arity(x.ctx.ref(), x.sort().ast)
                        except Exception:
                            nd = 1
                        ws = [fresh('extw') for _ in range(nd)]
                        for w in ws:
                            singles[w.get_id()] = w
                            extra_terms.append(w)
                        conds.append(z3.Select(x, *ws) == z3.Select(y, *ws))
                    else:
                        conds.append(x == y)
                new.append(z3.Implies(z3.And(*conds) if conds else z3.BoolVal(True), a1 == a2))
        # theory hooks (e.g. row-major addressing facts of vf/flat.py): per occurrence and per pair of occurrences
        for hook in getattr(registry, 'hooks', []):
            new.extend(hook(apps, seen_spec, seen_pairs, singles))
        # spec functions
        for name, sp in registry.specs.items():
            for aid, app in apps.get(name, {}).items():
                d = seen_spec.get(aid)
                if d is not None:
                    continue
                seen_spec[aid] = rnd
                if rnd >= sp.depth:
                    continue
                f = sp.unfold(*app.children())
                if f is None:
                    continue
                qf, q = [], []
                to_facts(f, qf, q)
                new.extend(qf)
                new_q.extend(q)
        # quantified facts
        for qi, qfct in enumerate(qfacts):
            if qfct.trigger is not None:
                cands = [tuple(a.children()) for a in apps.get(qfct.trigger, {}).values()]
            else:
                pats = infer_patterns(qfct)
                cands = match_patterns(qfct, pats, idx, apps, by_arr, singles, priority=priority) if pats else None
                if cands is None and not pats:
                    # no trigger in the body (pure arithmetic fact): all index terms / hints
                    if qfct.arity == 1 and _has_exists(qfct):
                        # every instance creates a fresh witness: only at the terms of the goal (and the explicit hints)
                        cands = [(t,) for t in priority.values() if t.sort() == z3.IntSort()]
                    elif qfct.arity == 1:
                        cands = [(t,) for t in singles.values()]
                    else:
                        cands = list(idx.get(qfct.arity, {}).values())
                        sv = list(singles.values())
                        if qfct.arity == 2 and len(sv) <= 12:
                            cands = cands + list(itertools.product(sv, repeat=qfct.arity))
                elif cands is None:
                    cands = []
                if qfct.arity == 1:
                    # skolem constants and explicit hints are always tried
                    cands = list(cands) + [(t,) for t in extra_terms]
            _check_deadline()
            for tup in cands:
                key = (id(qfct),) + tuple(t.get_id() for t in tup)
                if key in seen_inst:
                    continue
                seen_inst.add(key)
                if len(seen_inst) > max_insts:
                    break
                try:
                    f = qfct.fn(*tup)
                except _NoFlatten:
                    continue
                qf, q = [], []
                to_facts(f, qf, q)
                new.extend(qf)
                new_q.extend(q)
        qfacts.extend(new_q)
        new = [n for n in new if not z3.is_true(n)]
        if not new and not new_q:
            break
        added.extend(new)
    return added


# --------------------------------------------------------------------------
# solving
# --------------------------------------------------------------------------

def has_sum(e, registry):
    for x in _walk([e]):
        if z3.is_app(x) and x.decl().kind() == z3.Z3_OP_UNINTERPRETED and x.decl().name() in registry.sums:
            return True
    return False


def simplify_all(asserts):
    out = []
    seen = set()
    for x in asserts:
        y = z3.simplify(x, expand_select_store=True)
        if z3.is_true(y) or y.get_id() in seen:
            continue
        seen.add(y.get_id())
        out.append(y)
    return out


class _Purifier:
    """Sound abstraction of a VC into QF_NRA: integers are read as reals, every non-arithmetic term
    (uninterpreted application, array select, int division...) becomes a fresh real/bool constant
    (same term -> same constant). unsat of the abstraction implies unsat of the VC."""

    def __init__(self):
        self.cache = {}
        self.atoms = {}
        self.keep = []

    def atom(self, e, sort):
        k = e.get_id()
        if k not in self.atoms:
            self.keep.append(e)
            self.atoms[k] = z3.Const('pur!%d' % len(self.atoms), sort)
        return self.atoms[k]

    def num(self, e):
        k = ('n', e.get_id())
        if k in self.cache:
            return self.cache[k]
        r = self._num(e)
        self.cache[k] = r
        self.keep.append(e)
        return r

    def _num(self, e):
        R = z3.RealSort()
        if z3.is_int_value(e):
            return z3.RealVal(e.as_long())
        if z3.is_rational_value(e):
            return e
        if not z3.is_app(e):
            return self.atom(e, R)
        k = e.decl().kind()
        ch = e.children()
        if k == z3.Z3_OP_TO_REAL:
            return self.num(ch[0])
        if k == z3.Z3_OP_ADD:
            return z3.Sum([self.num(c) for c in ch])
        if k == z3.Z3_OP_SUB:
            r = self.num(ch[0])
            for c in ch[1:]:
                r = r - self.num(c)
            return r
        if k == z3.Z3_OP_UMINUS:
            return -self.num(ch[0])
        if k == z3.Z3_OP_MUL:
            r = self.num(ch[0])
            for c in ch[1:]:
                r = r * self.num(c)
            return r
        if k == z3.Z3_OP_DIV and e.sort() == R:
            return self.num(ch[0]) / self.num(ch[1])
        if k == z3.Z3_OP_POWER and z3.is_int_value(ch[1]) and 0 <= ch[1].as_long() <= 8:
            b = self.num(ch[0])
            r = z3.RealVal(1)
            for _ in range(ch[1].as_long()):
                r = r * b
            return r
        if k == z3.Z3_OP_ITE:
            c = self.boolean(ch[0])
            if c is not None:
                return z3.If(c, self.num(ch[1]), self.num(ch[2]))
        return self.atom(e, R)

    def boolean(self, e):
        k = ('b', e.get_id())
        if k in self.cache:
            return self.cache[k]
        r = self._bool(e)
        self.cache[k] = r
        self.keep.append(e)
        return r

    def _bool(self, e):
        if z3.is_true(e) or z3.is_false(e):
            return e
        if not z3.is_app(e):
            return None
        k = e.decl().kind()
        ch = e.children()
        if k in (z3.Z3_OP_AND, z3.Z3_OP_OR):
            cs = [self.boolean(c) for c in ch]
            if any(c is None for c in cs):
                return None
            return z3.And(*cs) if k == z3.Z3_OP_AND else z3.Or(*cs)
        if k == z3.Z3_OP_NOT:
            c = self.boolean(ch[0])
            return None if c is None else z3.Not(c)
        if k == z3.Z3_OP_IMPLIES:
            a, b = self.boolean(ch[0]), self.boolean(ch[1])
            return None if a is None or b is None else z3.Implies(a, b)
        if k in (z3.Z3_OP_EQ, z3.Z3_OP_DISTINCT) and len(ch) == 2:
            if ch[0].sort() in (z3.IntSort(), z3.RealSort()):
                a, b = self.num(ch[0]), self.num(ch[1])
                return a == b if k == z3.Z3_OP_EQ else a != b
            if ch[0].sort() == z3.BoolSort():
                a, b = self.boolean(ch[0]), self.boolean(ch[1])
                if a is None or b is None:
                    return None
                return a == b if k == z3.Z3_OP_EQ else a != b
            return None
        if k in (z3.Z3_OP_LE, z3.Z3_OP_LT, z3.Z3_OP_GE, z3.Z3_OP_GT):
            a, b = self.num(ch[0]), self.num(ch[1])
            return {z3.Z3_OP_LE: a <= b, z3.Z3_OP_LT: a < b, z3.Z3_OP_GE: a >= b, z3.Z3_OP_GT: a > b}[k]
        if k == z3.Z3_OP_ITE and e.sort() == z3.BoolSort():
            c, a, b = self.boolean(ch[0]), self.boolean(ch[1]), self.boolean(ch[2])
            if c is None or a is None or b is None:
                return None
            return z3.If(c, a, b)
        if k == z3.Z3_OP_UNINTERPRETED and e.sort() == z3.BoolSort() and e.num_args() == 0:
            return e
        return None


def purify_nra(asserts):
    """Abstraction to nonlinear real arithmetic. Integer-valued comparisons are read over the reals, which
    loses integrality (sound for unsat). Assertions that cannot be abstracted are dropped (sound for unsat)."""
    P = _Purifier()
    out = []
    for a in asserts:
        a = z3.simplify(a, som=True)
        b = P.boolean(a)
        if b is not None:
            out.append(b)
    return out


def nra_check(text, timeout):
    fs = z3.parse_smt2_string(text)
    out = purify_nra(list(fs))
    t = z3.Then(z3.With('simplify', som=True), 'solve-eqs', z3.With('simplify', som=True), 'qfnra-nlsat')
    s = t.solver()
    s.set('timeout', int(timeout * 1000))
    s.add(*out)
    return s.check()


def smt2_of(assertions, logic=None):
    s = z3.Solver()
    for a in assertions:
        s.add(a)
    return s.to_smt2()


def solve_text(args):
    """Worker: (text, timeout_s, backend) -> (status, seconds, backend). Never raises."""
    text, timeout, backend = args
    t0 = time.time()
    try:
        if backend == 'z3py-nra':
            r = nra_check(text, timeout)
            # the abstraction only proves: sat/unknown are not verdicts
            return ('unsat' if r == z3.unsat else 'unknown'), time.time() - t0, backend
        if backend == 'z3py':
            s = z3.Solver()
            s.set('timeout', int(timeout * 1000))
            s.from_string(text)
            r = s.check()
            st = 'sat' if r == z3.sat else ('unsat' if r == z3.unsat else 'unknown')
            return st, time.time() - t0, backend
        if backend in ('z3-4.8', 'z3-new'):
            exe = '/usr/bin/z3' if backend == 'z3-4.8' else 'z3-new'
            cmd = [exe, '-T:%d' % max(1, int(timeout)), '-in']
        elif backend == 'cvc5':
            cmd = ['/usr/bin/cvc5', '--tlimit=%d' % int(timeout * 1000), '--lang=smt2', '-']
        else:
            return 'unknown', 0.0, backend
        p = subprocess.run(cmd, input=text, capture_output=True, text=True, timeout=timeout + 5)
        out = p.stdout.strip().splitlines()
        st = 'unknown'
        for line in out:
            if line.strip() in ('sat', 'unsat'):
                st = line.strip()
                break
        return st, time.time() - t0, backend
    except Exception as e:  # timeout or solver failure is never a verdict
        return 'unknown', time.time() - t0, backend


def model_of(assertions, timeout=20):
    s = z3.Solver()
    s.set('timeout', int(timeout * 1000))
    for a in assertions:
        s.add(a)
    r = s.check()
    if r == z3.sat:
        return s.model()
    return None


def quick_sat(assertions, timeout_ms=1500):
    """Feasibility probe used for path pruning: returns 'unsat' only when certain."""
    s = z3.Solver()
    s.set('timeout', timeout_ms)
    for a in assertions:
        s.add(a)
    r = s.check()
    return 'sat' if r == z3.sat else ('unsat' if r == z3.unsat else 'unknown')


def sat_probe(assertions):
    """Satisfiability of a ground path condition for the vacuity guards (precondition satisfiable, canary): a quick attempt,
    then longer ones on two solvers - a loaded machine must not turn a guard into "unknown"."""
    assertions = list(assertions)
    r = quick_sat(assertions, 5000)
    if r != 'unknown':
        return r
    r = quick_sat(assertions, 60000)
    if r != 'unknown':
        return r
    try:
        st, _, _ = solve_text((smt2_of(assertions), 60, 'z3-4.8'))
        return st
    except Exception:
        return 'unknown'


def val_to_py(v):
    if v is None:
        return None
    if z3.is_int_value(v):
        return v.as_long()
    if z3.is_rational_value(v):
        return Fraction(v.numerator_as_long(), v.denominator_as_long())
    if z3.is_algebraic_value(v):
        a = v.approx(20)
        return Fraction(a.numerator_as_long(), a.denominator_as_long())
    if z3.is_true(v):
        return True
    if z3.is_false(v):
        return False
    return None
