"""Calls, statements, loops and function verification."""
import ast
from fractions import Fraction

import z3

from . import smt
from .smt import FForall, FAnd, FImp, FExists, QFact, f_and, f_imp, fresh, is_qf, zbool
from . import vals as V
from .vals import (OutOfReach, Arr, ExprArr, ArrView, SpecArr, FunVal, Obj, INT, REAL, BOOL, is_sym, is_cint,
                   is_creal, is_intlike, is_reallike, is_boollike, is_num, Z, ZR, ZI, simp, binop, compare,
                   truth, b_not, b_and, b_or, ite)
from .interp import Module, load_module, State, Obligation, Contract, Ctx
from .execu import Exec, Frame, parse_annotation, loop_fingerprint, assigned_names, MAX_UNROLL
from .bufs import Buf, BufRef, BufView, BufCopy, FIELD
from .flat import FlatView

BUILTINS = {'round', 'array', 'nonzero', 'slice', 'transpose', 'split', 'full_like', 'solve', 'arange', 'atleast_1d', 'len', 'range', 'enumerate', 'min', 'max', 'abs', 'int', 'float', 'bool', 'empty', 'ndarray', 'outer', 'zeros', 'ones',
            'empty_like', 'zeros_like', 'sum', 'tuple', 'list', 'isinstance', 'print', 'zip', 'floor', 'sqrt',
            'exp', 'tanh', 'cosh', 'cos', 'sin', 'RuntimeError', 'ValueError', 'AssertionError', 'NotImplementedError',
            'str', 'reversed', 'sorted', 'all', 'any', 'prod', 'pi', 'mod', 'fabs', 'log', 'dict', 'set'}
SPEC_BUILTINS = {'arrof', 'view_fixed', 'view_of', 'caller', 'gfield', 'comm_size', 'comm_rank', 'peer_send', 'flatidx', 'prodof', 'coll_trace', 'interp_val', 'holds', 'valid', 'field_of', 'layout_of', 'same_content', 'distinct_bufs', 'same_buf', 'bufview', 'name_id', 'split', 'uknots', 'forall', 'exists', 'sum_', 'implies', 'and_', 'iff', 'old', 'ite_', 'shape', 'let', 'select', 'real', 'fdiv', 'fmod', 'trunc'}

import vf.execu as _execu
_execu.BUILTINS = BUILTINS
_execu.SPEC_BUILTINS = SPEC_BUILTINS


class Engine(Exec):

    # ------------------------------------------------------------------
    # calls
    # ------------------------------------------------------------------
    def call_value(self, f, args, kwargs, st, fr, node):
        if isinstance(f, V.Opaque):
            return V.Opaque()
        if callable(f) and not isinstance(f, FunVal):
            return f(*args)
        if not isinstance(f, FunVal):
            raise OutOfReach('call of %r' % (f,))
        if f.kind == 'builtin':
            return self.call_builtin(f.name, args, kwargs, st, fr, node)
        if f.kind == 'spec':
            return self.spec_call(f.name, args, st, fr)
        if f.kind == 'pymethod':
            return self.call_pymethod(f, args, kwargs, st, fr, node)
        if f.kind == 'bufmethod':
            return self.buf_method(st, fr, f, args)
        if f.kind == 'arrmethod':
            if f.name == 'copy':
                # a new array object with the current values (never a view)
                v = f.ref
                a = self.new_arr(st, v.rank, list(v.shape), v.elem, 'copy')
                st.heap[a.aid] = self.arr_term(st, v)
                return a
            if f.name == 'reshape':
                shp = args[0] if len(args) == 1 else list(args)
                if type(f.ref) is ExprArr and not getattr(self.ctx, 'flat_mode', False):
                    return self.expr_reshape(st, fr, f.ref, shp, node)
                return self.flat_reshape(st, fr, f.ref, shp, node)
            if f.name == 'transpose':
                order = args[0] if len(args) == 1 and isinstance(args[0], (list, tuple)) else list(args)
                return self.flat_transpose(st, f.ref, order)
        if f.kind == 'mpi':
            return self.mpi_call(f, args, kwargs, st, fr, node)
        if f.kind in ('repo', 'method', 'param', 'class'):
            return self.call_function(f, args, kwargs, st, fr, node)
        raise OutOfReach('call kind ' + f.kind)

    def expr_reshape(self, st, fr, v, shape, node):
        """reshape of a temporary array expression (a new array in numpy): exact C-order semantics.  Unit extents do not change
        the C order and are removed on both sides; the remaining extents are compared syntactically: identical -> same element
        at the same reduced index; rank 2 otherwise -> element (j0, j1) is source element divmod(j0 * d1 + j1, m1)."""
        shape = list(shape) if isinstance(shape, (list, tuple)) else [shape]
        def total(xs):
            t = 1
            for x in xs:
                t = binop('Mult', t, x)
            return t
        self.safety(st, fr, 'reshape_size', compare('Eq', total(v.shape), total(shape)), node)
        keep_t = [k for k, x in enumerate(shape) if not (is_cint(x) and x == 1)]
        keep_s = [k for k, x in enumerate(v.shape) if not (is_cint(x) and x == 1)]
        if len(keep_t) != len(keep_s) or len(keep_t) > 2:
            raise OutOfReach('reshape of an array expression between ranks %d and %d' % (len(keep_s), len(keep_t)))
        def same(a, b):
            if not is_sym(a) and not is_sym(b):
                return a == b
            return bool(z3.simplify(Z(a) - Z(b)).eq(z3.IntVal(0)))
        ident = all(same(shape[a], v.shape[b]) for a, b in zip(keep_t, keep_s))
        src_rank, fn = v.rank, v.fn
        if ident:
            def el(j):
                src = [0] * src_rank
                for a, b in zip(keep_t, keep_s):
                    src[b] = j[a]
                return fn(tuple(src))
        else:
            if len(keep_t) != 2:
                raise OutOfReach('reshape of an array expression with different extents')
            d1 = shape[keep_t[1]]
            m1 = v.shape[keep_s[1]]
            def el(j):
                flat = binop('Add', binop('Mult', j[keep_t[0]], d1), j[keep_t[1]])
                src = [0] * src_rank
                src[keep_s[0]] = binop('FloorDiv', flat, m1)
                src[keep_s[1]] = binop('Mod', flat, m1)
                return fn(tuple(src))
        return ExprArr(shape, el, v.elem)

    def call_pymethod(self, f, args, kwargs, st, fr, node):
        base, nm = f.ref, f.name
        if isinstance(base, list) and nm in ('append', 'extend', 'index', 'count', 'copy', 'insert', 'pop', 'remove', 'reverse'):
            if any(is_sym(a) for a in args) and nm in ('index', 'count', 'remove'):
                raise OutOfReach('list.%s with symbolic argument' % nm)
            return getattr(base, nm)(*args)
        if isinstance(base, tuple) and nm in ('index', 'count'):
            return getattr(base, nm)(*args)
        if isinstance(base, dict) and nm in ('keys', 'values', 'items', 'get', 'pop', 'copy'):
            r = getattr(base, nm)(*args)
            return list(r) if nm in ('keys', 'values', 'items') else r
        if isinstance(base, str) and nm in ('format', 'split', 'startswith', 'endswith', 'lower', 'upper', 'strip', 'join'):
            return getattr(base, nm)(*args, **kwargs)
        raise OutOfReach('method %s of %s' % (nm, type(base).__name__))

    def call_builtin(self, name, args, kwargs, st, fr, node):
        name = name.split('.')[-1] if name.split('.')[0] in ('np', 'numpy', 'math') else name
        r = self.buf_builtin(st, fr, name, args, kwargs, node)
        if r is not NotImplemented:
            return r
        if name in ('holds', 'valid', 'field_of', 'layout_of', 'same_content', 'distinct_bufs', 'same_buf'):
            r = self.buf_spec(st, fr, name, [self.intern_name(a) if isinstance(a, str) else a for a in args])
            if r is not NotImplemented:
                return r
        if name.endswith('.warn') or name == 'warn':
            return None
        if name == 'split' and args and self.is_arr(args[0]) and args[0].rank == 1 and self.is_arr(args[1]):
            # np.split(x, array of cut points): a list of symbolic length; piece i is x[cut(i-1):cut(i)] (cut(-1) = 0, the
            # last piece runs to the end)
            x, cuts = args[0], args[1]
            if cuts.rank != 1:
                raise OutOfReach('np.split with a rank>1 array of cut points')
            n = binop('Add', cuts.shape[0], 1)

            def piece(s_, i, x=x, cuts=cuts, n=n, node=node, fr=fr):
                cf = self.elem_fn(s_, cuts)
                if is_cint(i) and i == 0:
                    lo = 0
                else:
                    lo = simp(cf((binop('Sub', i, 1),)))
                    lo0 = z3.simplify(z3.substitute(ZI(lo), (ZI(i), z3.IntVal(0)))) if is_sym(i) else None
                    if not (lo0 is not None and z3.is_int_value(lo0) and lo0.as_long() == 0):
                        lo = V.ite(compare('Eq', i, 0), 0, lo) if is_sym(i) else lo
                hi = V.ite(compare('Eq', i, binop('Sub', n, 1)), x.shape[0], simp(cf((i,))))
                return lo, hi
            def elem(s_, i, known_not_last=False, x=x, node=node, fr=fr):
                lo, hi = piece(s_, i)
                if known_not_last:
                    hi = simp(self.elem_fn(s_, cuts)((i,)))
                return self.subscript(s_, fr, x, slice(lo, hi), node)
            return V.SymList(n, elem)
        if name == 'split' and args and self.is_arr(args[0]) and args[0].rank == 1:
            x, cuts = args[0], args[1]
            if not (isinstance(cuts, (list, tuple)) and len(cuts) == 1):
                raise OutOfReach('np.split with several cut points')
            n = cuts[0]
            self.safety(st, fr, 'slice_bounds', b_and(compare('GtE', n, 0), compare('LtE', n, x.shape[0])), node)
            return [self.subscript(st, fr, x, slice(0, n), node), self.subscript(st, fr, x, slice(n, x.shape[0]), node)]
        if name == 'transpose' and args and self.is_arr(args[0]):
            return self.flat_transpose(st, args[0], args[1])
        if name == 'prod' and getattr(self.ctx, 'flat_mode', False) and isinstance(args[0], (list, tuple)) and any(is_sym(x) for x in args[0]):
            from .flat import prod_term
            return simp(prod_term(list(args[0])))
        if name == 'slice':
            return slice(*args) if len(args) > 1 else slice(None, args[0])
        if name in ('comm_size', 'comm_rank'):
            return self.comm_consts(st, args[0])[1 if name == 'comm_size' else 2]
        if name == 'peer_send':
            cid = self.comm_consts(st, args[0])[0]
            PEER = V.uf('peer_send', INT, INT, z3.ArraySort(INT, REAL))
            return SpecArr(PEER(z3.IntVal(cid), ZI(args[1])), [None], REAL)
        if name == 'array' and args and isinstance(args[0], list) and any(isinstance(x, V.StarredArr) for x in args[0]):
            # np.array([x0, .., *a, .., y0]): concatenation of scalars and rank-1 arrays of symbolic length
            items = args[0]
            offs, total = [], 0
            for x in items:
                offs.append(total)
                total = binop('Add', total, x.arr.shape[0] if isinstance(x, V.StarredArr) else 1)
            fns = [self.elem_fn(st, x.arr) if isinstance(x, V.StarredArr) else None for x in items]

            def elem(j, items=items, offs=offs, fns=fns):
                k = j[0]
                r = None
                for n in range(len(items) - 1, -1, -1):
                    x = items[n]
                    val = fns[n]((binop('Sub', k, offs[n]),)) if isinstance(x, V.StarredArr) else x
                    r = val if r is None else V.ite(compare('Lt', k, offs[n + 1]), val, r)
                return r
            return ExprArr([total], elem, REAL)
        if name == 'array' and args and isinstance(args[0], (list, tuple)) and all(isinstance(x, Obj) or x is None for x in args[0]):
            return V.ObjArray(args[0])
        if name == 'nonzero' and args and isinstance(args[0], V.ObjArray) and all(isinstance(x, bool) for x in args[0]):
            return ([k for k, x in enumerate(args[0]) if x],)
        if name == 'arrof':
            # arrof(lambda k: expr): the (unbounded) array whose k-th element is expr - for arguments of array-valued spec functions
            lam = args[0]
            ks = [z3.Int('arrof!%d' % k) for k in range(len(getattr(lam, '_params', [None])))]
            body = lam(*ks)
            return SpecArr(z3.Lambda(ks, ZR(body)), [None] * len(ks), REAL)
        if name == 'view_fixed':
            # view_fixed(v, k): the index at which view v fixes axis k of the array it is a view of
            v, k = args
            if not isinstance(v, ArrView) or not is_cint(k) or v.spec[k][0] != 'i':
                raise OutOfReach('view_fixed: not a view with a fixed index on that axis')
            return v.spec[k][1]
        if name == 'view_of':
            # view_of(v, a): v is a live view of array a whose free axes start at 0
            v, a = args
            if isinstance(a, ArrView):
                a = a.base
            return bool(isinstance(v, ArrView) and v.base is a) and all(kd == 'i' or (is_cint(x) and x == 0) for kd, x in v.spec)
        if name == 'caller':
            env = getattr(fr, 'caller_env', None)
            if env is None or args[0] not in env:
                raise OutOfReach('caller(%r): no such variable at the call site' % (args[0],))
            return env[args[0]]
        if name == 'gfield':
            # the global field of a distributed array: an uninterpreted function of the global index (one per rank)
            G = V.uf('gfield%d' % len(args), *([INT] * len(args) + [REAL]))
            return G(*[ZI(a) for a in args])
        if name == 'flatidx':
            from .flat import flat_term
            return simp(flat_term(list(args[0]), list(args[1])))
        if name == 'prodof':
            from .flat import prod_term
            return simp(prod_term(list(args[0])))
        if name == 'coll_trace':
            return list(st.ghost.get('trace', ()))
        if name == 'atleast_1d':
            a = args[0]
            return list(a) if isinstance(a, (list, tuple)) else [a]
        if name == 'bufview':
            return BufView(self.as_ref(args[0]))
        if name == 'name_id':
            return self.intern_name(args[0])
        if name == 'len':
            a = args[0]
            if self.is_arr(a):
                return a.shape[0]
            return len(a)
        if name == 'shape':
            return tuple(args[0].shape)
        if name == 'min':
            if len(args) == 1:
                args = list(args[0])
            return V.py_min(*args)
        if name == 'max':
            if len(args) == 1:
                args = list(args[0])
            return V.py_max(*args)
        if name in ('abs', 'fabs'):
            return V.py_abs(args[0])
        if name in ('int', 'trunc'):
            return V.py_int(args[0])
        if name == 'round' and len(args) == 1:
            # Python round(x): the nearest integer, ties to even
            a = args[0]
            if not is_sym(a):
                return round(a)
            if is_intlike(a):
                return a
            x = ZR(a)
            fl = z3.ToInt(x)
            frac = x - z3.ToReal(fl)
            half = z3.RealVal('1/2')
            return simp(z3.If(frac < half, fl, z3.If(frac > half, fl + 1, z3.If(fl % 2 == 0, fl, fl + 1))))
        if name == 'outer':
            a, b = args[0], args[1]
            if not (self.is_arr(a) and self.is_arr(b) and a.rank == 1 and b.rank == 1):
                raise OutOfReach('np.outer of non-vectors')
            fa, fb = self.elem_fn(st, a), self.elem_fn(st, b)
            return ExprArr([a.shape[0], b.shape[0]], lambda j, fa=fa, fb=fb: binop('Mult', fa((j[0],)), fb((j[1],))),
                           REAL if REAL in (a.elem, b.elem) else a.elem)
        if name == 'floor':
            if self.is_arr(args[0]):
                # np.floor of an array: entry by entry, float result
                a = args[0]
                f = self.elem_fn(st, a)
                return ExprArr(list(a.shape), lambda j, f=f: binop('Mult', V.py_floor(f(j)), Fraction(1)), REAL)
            r = V.py_floor(args[0])
            return binop('Mult', r, Fraction(1)) if name == 'floor' and not fr.spec_only else r
        if name in ('float', 'real'):
            a = args[0]
            if is_cint(a):
                return Fraction(a)
            if is_intlike(a):
                return z3.ToReal(a)
            return a
        if name == 'bool':
            return truth(args[0])
        if name == 'arange':
            lo, hi = (0, args[0]) if len(args) == 1 else (args[0], args[1])
            n = binop('Sub', hi, lo)
            self.safety(st, fr, 'alloc_nonneg', compare('GtE', n, 0), node)
            return ExprArr([n], lambda j, lo=lo: binop('Add', lo, j[0]), INT)
        if name in ('empty', 'ndarray', 'zeros', 'ones'):
            # np.ndarray(shape, dtype=..) allocates without initialising, like np.empty
            shp = args[0]
            if not isinstance(shp, (tuple, list)):
                shp = (shp,)
            for s in shp:
                self.safety(st, fr, 'alloc_nonneg', compare('GtE', s, 0), node)
            dt = kwargs.get('dtype', args[1] if len(args) > 1 else None)
            elem = INT if (isinstance(dt, FunVal) and dt.name == 'int') else REAL
            a = self.new_arr(st, len(shp), list(shp), elem, name)
            if name not in ('empty', 'ndarray'):
                c = Z(0 if name == 'zeros' else 1)
                c = ZR(c) if elem == REAL else c
                st.heap[a.aid] = z3.K(INT, c) if len(shp) == 1 else z3.Lambda([z3.Int('lam!%d' % k) for k in range(len(shp))], c)
            return a
        if name in ('empty_like', 'zeros_like'):
            src = args[0]
            a = self.new_arr(st, src.rank, list(src.shape), src.elem, name)
            if name == 'zeros_like':
                st.heap[a.aid] = z3.Lambda([z3.Int('lam!%d' % k) for k in range(src.rank)], ZR(0) if src.elem == REAL else Z(0))
            return a
        if name in ('sqrt', 'exp', 'tanh', 'cosh', 'cos', 'sin', 'log'):
            a = args[0]
            if self.is_arr(a):
                f = self.elem_fn(st, a)
                return ExprArr(a.shape, lambda j: self.math1(name, f(j), st), REAL)
            return self.math1(name, a, st)
        if name in ('tuple', 'list'):
            a = args[0] if args else []
            if self.is_arr(a):
                if a.rank != 1 or not is_cint(a.shape[0]):
                    raise OutOfReach('%s() of an array of symbolic length' % name)
                f = self.elem_fn(st, a)
                a = [f((k,)) for k in range(a.shape[0])]
            return tuple(a) if name == 'tuple' else list(a)
        if name == 'range':
            if all(is_cint(a) for a in args):
                return list(range(*args))
            if len(args) == 2:
                return V.SymRange(args[0], args[1])
            if len(args) == 1:
                return V.SymRange(0, args[0])
            raise OutOfReach('symbolic range with step')
        if name == 'enumerate':
            if isinstance(args[0], (list, tuple)):
                return list(enumerate(args[0]))
            if self.is_arr(args[0]) or isinstance(args[0], (V.SymRange, V.SymList)):
                return V.EnumVal(args[0])
            raise OutOfReach('enumerate outside for')
        if name == 'zip':
            lists = []
            for a in args:
                if self.is_arr(a):
                    if a.rank != 1 or not is_cint(a.shape[0]):
                        raise OutOfReach('zip over an array of symbolic length')
                    f = self.elem_fn(st, a)
                    a = [simp(f((k,))) for k in range(a.shape[0])]
                lists.append(list(a))
            return list(zip(*lists))
        if name == 'full_like':
            a, val = args[0], args[1]
            if self.is_arr(a):
                return ExprArr(a.shape, lambda j, val=val: val, REAL)
            return binop('Mult', val, Fraction(1)) if not is_sym(val) else val
        if name == 'solve':
            A, b = args
            if not (self.is_arr(A) and A.rank == 2 and is_cint(A.shape[0]) and is_cint(A.shape[1])):
                raise OutOfReach('linear solve with symbolic size')
            n = A.shape[0]
            c = self.new_arr(st, 1, [n], REAL, 'solve')
            fa, fb, fc = self.elem_fn(st, A), self.elem_fn(st, b), self.elem_fn(st, c)
            # assumed contract of numpy.linalg.solve: A c = b
            for i in range(n):
                acc = Fraction(0)
                for j in range(n):
                    acc = binop('Add', acc, binop('Mult', fa((i, j)), fc((j,))))
                st.pc.append(zbool(compare('Eq', acc, fb((i,)))))
            return c
        if name == 'interp_val':
            return self.interp_val(st, args[0], args[1])
        if name == 'reversed':
            return list(reversed(args[0]))
        if name == 'sum':
            a = args[0]
            if isinstance(a, (list, tuple)):
                r = 0
                for x in a:
                    r = binop('Add', r, x)
                return r
            raise OutOfReach('sum of array')
        if name == 'prod':
            a = args[0]
            if self.is_arr(a) and a.rank == 1 and is_cint(a.shape[0]):
                f = self.elem_fn(st, a)
                a = [f((k,)) for k in range(a.shape[0])]
            if isinstance(a, (list, tuple)):
                r = 1
                for x in a:
                    r = binop('Mult', r, x)
                return r
            raise OutOfReach('prod of array')
        if name == 'isinstance':
            return True
        if name == 'print':
            return None
        if name == 'str':
            return str(args[0])
        if name in ('RuntimeError', 'ValueError', 'AssertionError', 'NotImplementedError'):
            return ('exc', name)
        if name == 'select':
            a = args[0]
            return simp(self.elem_fn(st, a)(tuple(args[1:])))
        if name == 'uknots':
            xmin, dx = args
            return ExprArr([None], lambda j: binop('Add', xmin, binop('Mult', binop('Sub', j[0], 3), dx)), REAL)
        if name == 'fdiv':
            return binop('FloorDiv', args[0], args[1])
        if name == 'fmod':
            if fr is not None and fr.spec_only:
                return binop('Mod', args[0], args[1])     # specification language: floor-based remainder
            # code position (np.fmod / math.fmod): C remainder a - trunc(a / b) * b, entry by entry on arrays
            def cfmod(a, b):
                return binop('Sub', a, binop('Mult', V.py_int(binop('Div', binop('Mult', a, Fraction(1)), b)), b))
            a, b = args[0], args[1]
            if self.is_arr(a):
                if self.is_arr(b):
                    raise OutOfReach('np.fmod with an array divisor')
                f = self.elem_fn(st, a)
                self.safety(st, fr, 'div_nonzero', compare('NotEq', b, 0), node)
                return ExprArr(list(a.shape), lambda j, f=f, b=b: cfmod(f(j), b), a.elem if is_intlike(b) or is_cint(b) else REAL)
            self.safety(st, fr, 'div_nonzero', compare('NotEq', b, 0), node)
            return cfmod(a, b)
        if name == 'mod':
            return self.do_binop('Mod', args[0], args[1], st, fr, node)
        if name in ('all', 'any'):
            xs = list(args[0])
            return (b_and if name == 'all' else b_or)(*xs) if xs else (name == 'all')
        if name == 'pi':
            return V.PI
        if name in ('dict',):
            if args and isinstance(args[0], (list, tuple)):
                return {k: v for (k, v) in args[0]}
            if args and isinstance(args[0], dict):
                return dict(args[0])
            return {}
        raise OutOfReach('builtin %s' % name)

    def interp_descr(self, st, ug):
        """What a spline interpolates after compute_interpolant(ug, spl): a whole vector, or one row / column of a matrix."""
        if isinstance(ug, ArrView) and ug.base.rank == 2 and ug.rank == 1:
            kinds = [k for (k, v) in ug.spec]
            M = SpecArr(st.heap[ug.base.aid], ug.base.shape, ug.base.elem)
            if kinds == ['i', 's'] and is_cint(ug.spec[1][1]) and ug.spec[1][1] == 0:
                return ('row', M, ug.spec[0][1])
            if kinds == ['s', 'i'] and is_cint(ug.spec[0][1]) and ug.spec[0][1] == 0:
                return ('col', M, ug.spec[1][1])
        return ('vec', SpecArr(self.arr_term(st, ug), ug.shape, ug.elem), 0)

    def interp_val(self, st, spl, x):
        """interp_val(spl, x): value at x of the spline held by the Spline1D object (ghost: what it interpolates)."""
        if isinstance(spl, tuple):
            d = spl
        else:
            d = st.objs[spl.oid].get('gh_interp')
            if d is None:
                raise OutOfReach('spline object without interpolation ghost')
        kind, M, e = d
        if kind == 'vec':
            f = V.uf('SVvec', M.term.sort(), REAL, REAL)
            return f(M.term, ZR(x))
        f = V.uf('SV' + kind, M.term.sort(), INT, REAL, REAL)
        return f(M.term, ZI(e), ZR(x))

    MPI_SIG = {   # collective -> how its "uniform" signature (everything that must agree on all members) is read off the call
        'reduce': lambda a, k: ('reduce', k.get('op', a[1] if len(a) > 1 else 'SUM'), k.get('root', a[2] if len(a) > 2 else 0)),
        'Reduce': lambda a, k: ('Reduce', k.get('op', a[2] if len(a) > 2 else 'SUM'), k.get('root', a[3] if len(a) > 3 else 0)),
        'allreduce': lambda a, k: ('allreduce', k.get('op', a[1] if len(a) > 1 else 'SUM')),
        'gather': lambda a, k: ('gather', k.get('root', a[1] if len(a) > 1 else 0)),
        'Gatherv': lambda a, k: ('Gatherv', k.get('root', a[2] if len(a) > 2 else 0)),
        'bcast': lambda a, k: ('bcast', k.get('root', a[1] if len(a) > 1 else 0)),
        'Bcast': lambda a, k: ('Bcast', k.get('root', a[1] if len(a) > 1 else 0)),
        'Alltoall': lambda a, k: ('Alltoall',), 'Allgather': lambda a, k: ('Allgather',), 'Barrier': lambda a, k: ('Barrier',),
        'Split': lambda a, k: ('Split',), 'Create_cart': lambda a, k: ('Create_cart', tuple(a[0]) if isinstance(a[0], (list, tuple)) else a[0]),
        'Sub': lambda a, k: ('Sub', tuple(a[0]) if isinstance(a[0], (list, tuple)) else a[0]),
    }

    def comm_consts(self, st, comm):
        cid = st.objs[comm.oid].setdefault('cnum', comm.oid)
        p = z3.Int('csize!%d' % cid)
        me = z3.Int('crank!%d' % cid)
        self.ctx.add_axioms([p >= 1, me >= 0, me < p])
        return cid, p, me

    def alltoall_data(self, comm, send, rcv, st, fr, node):
        """Assumed contract of MPI_Alltoall with equal counts (DESIGN 2.5), stated through the chunk lens given by the contract
        of the calling function: chunk r of the receive buffer is chunk `me` of member r's send buffer."""
        from .flat import flat_term
        c = fr.contract
        while c is None or c.alltoall is None:
            raise OutOfReach('Alltoall in a function whose contract does not describe the exchanged chunks')
        cid, p, me = self.comm_consts(st, comm)
        cfr_spec = fr.spec_only
        fr.spec_only = True
        try:
            chunk = self.ev_clause_val(c.alltoall[0], st, fr)
            lens = [self.ev_clause_val(x, st, fr) for x in c.alltoall[1]]
        finally:
            fr.spec_only = cfr_spec
        for v in (send, rcv):
            if not (isinstance(v, ArrView) and v.rank == 1 and v.base.rank == 1):
                raise OutOfReach('Alltoall buffers must be contiguous rank-1 views')
        # MPI requirement: equal counts, send and receive lengths p * chunk
        self.safety(st, fr, 'alltoall_counts', b_and(compare('Eq', send.shape[0], binop('Mult', p, chunk)),
                                                     compare('Eq', rcv.shape[0], binop('Mult', p, chunk))), node)
        self.safety(st, fr, 'alltoall_distinct', send.base is not rcv.base, node)
        base = rcv.base
        old = st.heap[base.aid]
        V._arr_counter[0] += 1
        new = z3.Const('%s!a2a%d' % (base.name, V._arr_counter[0]), base.sort())
        st.heap[base.aid] = new
        off = ZI(rcv.spec[0][1])
        n = ZI(rcv.shape[0])
        PEER = V.uf('peer_send', INT, INT, z3.ArraySort(INT, REAL))
        R = len(lens)
        st.ghost['alltoall'] = dict(cid=cid, p=p, me=me, chunk=chunk, lens=lens)

        def moved(r, *i):
            g = b_and(compare('GtE', r, 0), compare('Lt', r, p),
                      *[b_and(compare('GtE', i[k], 0), compare('Lt', i[k], lens[k])) for k in range(R)])
            t = flat_term(lens, list(i))
            return f_imp(g, z3.Select(new, off + ZI(r) * ZI(chunk) + t) ==
                         z3.Select(PEER(z3.IntVal(cid), ZI(r)), me * ZI(chunk) + t))

        def outside(k):
            return f_imp(V.b_or(compare('Lt', k, off), compare('GtE', k, off + n)), z3.Select(new, k) == z3.Select(old, k))
        send_heap, send_off = st.heap[send.base.aid], ZI(send.spec[0][1])

        def mine(k):
            return f_imp(b_and(compare('GtE', k, 0), compare('Lt', k, send.shape[0])),
                         z3.Select(PEER(z3.IntVal(cid), me), k) == z3.Select(send_heap, send_off + k))
        st.qfacts.append(QFact(1, mine, 'Alltoall: my own send buffer is what member me sends'))
        st.qfacts.append(QFact(R + 1, moved, 'Alltoall: chunk r of the receive buffer = chunk me of member r'))
        st.qfacts.append(QFact(1, outside, 'Alltoall: outside the receive buffer'))
        return None

    def allgather_data(self, comm, send, rcv, st, fr, node):
        """Assumed contract of MPI_Allgather with equal counts: chunk r of the receive buffer is member r's send buffer.  The
        contract of the calling function gives the chunk length and, per member r, the lens (true block shape) through which
        the received chunk is later read."""
        from .flat import flat_term, prod_term
        c = fr.contract
        if c is None or c.allgather is None:
            raise OutOfReach('Allgather in a function whose contract does not describe the gathered chunks')
        cid, p, me = self.comm_consts(st, comm)
        rph = fresh('rmember', 'int')
        old_spec = fr.spec_only
        fr.spec_only = True
        tmp = st.fork()
        tmp.env = dict(st.env)
        tmp.env['r'] = rph
        try:
            chunk = self.ev_clause_val(c.allgather[0], st, fr)
            lens_r = [self.ev_clause_val(x, tmp, fr) for x in c.allgather[1]]
        finally:
            fr.spec_only = old_spec
        for v in (send, rcv):
            if not (isinstance(v, ArrView) and v.rank == 1 and v.base.rank == 1):
                raise OutOfReach('Allgather buffers must be contiguous rank-1 views')
        self.safety(st, fr, 'allgather_counts', b_and(compare('Eq', send.shape[0], chunk),
                                                      compare('Eq', rcv.shape[0], binop('Mult', p, chunk))), node)
        self.safety(st, fr, 'allgather_distinct', send.base is not rcv.base, node)
        R = len(lens_r)

        def lens_of(r):
            return [z3.substitute(ZI(x), (rph, ZI(r))) if is_sym(x) else x for x in lens_r]
        # every member's block fits into a chunk
        self.prove(st, fr, 'allgather_block_fits', smt.FForall(1, lambda r: f_imp(b_and(compare('GtE', r, 0), compare('Lt', r, p)),
                   z3.And(*[ZI(x) >= 0 for x in lens_of(r)], ZI(prod_term(lens_of(r))) <= ZI(chunk))), 'block fits'), node)
        base = rcv.base
        old = st.heap[base.aid]
        V._arr_counter[0] += 1
        new = z3.Const('%s!ag%d' % (base.name, V._arr_counter[0]), base.sort())
        st.heap[base.aid] = new
        off = ZI(rcv.spec[0][1])
        n = ZI(rcv.shape[0])
        PEER = V.uf('peer_send', INT, INT, z3.ArraySort(INT, REAL))
        send_heap, send_off = st.heap[send.base.aid], ZI(send.spec[0][1])

        def moved(r, *i):
            L = lens_of(r)
            g = b_and(compare('GtE', r, 0), compare('Lt', r, p),
                      *[b_and(compare('GtE', i[k], 0), compare('Lt', i[k], L[k])) for k in range(R)])
            t = flat_term(L, list(i))
            return f_imp(g, z3.Select(new, off + ZI(r) * ZI(chunk) + t) == z3.Select(PEER(z3.IntVal(cid), ZI(r)), t))

        def mine(k):
            return f_imp(b_and(compare('GtE', k, 0), compare('Lt', k, send.shape[0])),
                         z3.Select(PEER(z3.IntVal(cid), me), k) == z3.Select(send_heap, send_off + k))

        def outside(k):
            return f_imp(V.b_or(compare('Lt', k, off), compare('GtE', k, off + n)), z3.Select(new, k) == z3.Select(old, k))
        st.qfacts.append(QFact(1, mine, 'Allgather: my own send buffer is what member me sends'))
        st.qfacts.append(QFact(R + 1, moved, 'Allgather: chunk r of the receive buffer = send buffer of member r'))
        st.qfacts.append(QFact(1, outside, 'Allgather: outside the receive buffer'))
        return None

    def mpi_call(self, f, args, kwargs, st, fr, node):
        """Calls on a communicator object: collectives are appended to the ghost trace with their uniform signature."""
        name, comm = f.name, f.ref
        if not self.trace_mode(fr):
            if name == 'Get_size':
                return self.comm_consts(st, comm)[1]
            if name == 'Get_rank':
                return self.comm_consts(st, comm)[2]
            if name == 'Alltoall':
                return self.alltoall_data(comm, args[0], args[1], st, fr, node)
            if name == 'Allgather':
                a0 = args[0][0] if isinstance(args[0], (tuple, list)) else args[0]
                a1 = args[1][0] if isinstance(args[1], (tuple, list)) else args[1]
                return self.allgather_data(comm, a0, a1, st, fr, node)
        if name in self.MPI_SIG:
            sig = self.MPI_SIG[name](args, kwargs)
            sig = tuple(x.name if isinstance(x, FunVal) else x for x in sig)
            cid = st.objs[comm.oid].get('cid', comm.oid)
            st.ghost['trace'] = tuple(st.ghost.get('trace', ())) + (((cid,) + sig),)
            if name in ('Create_cart', 'Sub', 'Split'):
                o = Obj(('<mpi>', 'Comm'))
                st.objs[o.oid] = {'cid': ('derived', cid, name, len(st.ghost['trace']))}
                return o
            return V.Opaque()
        if name in ('Get_rank', 'Get_size', 'Get_coords'):
            return V.Opaque()
        raise OutOfReach('communicator method ' + name)

    def intern_name(self, s):
        """Layout names (strings) as integer ids in ghost contents."""
        if not isinstance(s, str):
            return s
        tab = self.ctx.consts.setdefault('__names__', {})
        if s not in tab:
            tab[s] = len(tab) + 1
        return tab[s]

    def math1(self, name, a, st):
        if not is_sym(a) and name == 'sqrt' and a >= 0:
            # exact rational roots stay exact
            import math
            fa = Fraction(a)
            n, d = math.isqrt(fa.numerator), math.isqrt(fa.denominator)
            if n * n == fa.numerator and d * d == fa.denominator:
                return Fraction(n, d)
        if not is_sym(a) and name == 'exp' and a == 0:
            return Fraction(1)
        if not is_sym(a) and name in ('tanh', 'sin') and a == 0:
            return Fraction(0)
        if not is_sym(a) and name in ('cos', 'cosh') and a == 0:
            return Fraction(1)
        t = V.math_fun(name, a)
        ax = V.MATH_AXIOMS.get(name)
        if ax:
            # universally valid facts about the uninterpreted function: global axioms (not path facts, which expression
            # evaluation may discard)
            for c in ax(ZR(a), t):
                st.pc.append(c)
        return t

    # ------------------------------------------------------------------
    def resolve(self, f, fr):
        """FunVal -> (module, qual, node, self_obj)."""
        if f.kind == 'repo':
            rel, qual = f.ref
            mod = load_module(rel, self.ctx.repo)
            return mod, qual, mod.functions[qual], None
        if f.kind == 'method':
            rel, qual, obj = f.ref
            mod = load_module(rel, self.ctx.repo)
            return mod, qual, mod.functions[qual], obj
        raise OutOfReach('resolve ' + f.kind)

    def bind_params(self, node, args, kwargs, st, fr, mod):
        a = node.args
        params = [p.arg for p in a.args]
        env = {}
        if len(args) > len(params):
            if a.vararg is None:
                raise OutOfReach('too many arguments')
            env[a.vararg.arg] = tuple(args[len(params):])
            args = args[:len(params)]
        elif a.vararg is not None:
            env[a.vararg.arg] = ()
        for p, v in zip(params, args):
            env[p] = v
        defaults = a.defaults
        dstart = len(params) - len(defaults)
        for i, p in enumerate(params):
            if p in env:
                continue
            if p in kwargs:
                env[p] = kwargs[p]
            elif i >= dstart:
                env[p] = self.ev(defaults[i - dstart], State(), Frame(mod, '<defaults>', None, None))
            else:
                raise OutOfReach('missing argument %s' % p)
        for k in kwargs:
            if k not in params:
                raise OutOfReach('unexpected keyword %s' % k)
        return params, env

    def call_function(self, f, args, kwargs, st, fr, node):
        """Non-forking call (contract application, or inlining when a single path results)."""
        res = self.call_multi(f, args, kwargs, st, fr, node)
        live = [(s, v) for (s, v) in res if s.status != 'raise']
        if len(res) == 1:
            s, v = res[0]
            if s is not st:
                st.__dict__.update(s.__dict__)
            if s.status == 'raise':
                raise PathRaised()
            return v
        raise OutOfReach('call to %s in expression position forks (%d paths)' % (f.name, len(res)))

    def call_multi(self, f, args, kwargs, st, fr, node):
        """Returns list of (state, value). States with status 'raise' carry an exception."""
        if f.kind == 'param':
            ckey = f.ref
            c = self.ctx.contracts[ckey]
            if c.elementwise and c.pure and len(args) == 1 and not kwargs and self.is_arr(args[0]):
                # assumed contract of a profile function applied to an array: it acts entry by entry
                # (result[j] = f(arg[j]), same shape); stated as an assumption in the evidence
                a = args[0]
                ef = self.elem_fn(st, a)
                decl = self.pure_decl(c.key, [REAL], REAL)
                return [(st, ExprArr(list(a.shape), lambda j, ef=ef, decl=decl: decl(ZR(ef(j))), REAL))]
            return [(st, self.apply_contract(c, None, f.name, c.params_order, args, kwargs, st, fr, node))]
        if f.kind == 'class':
            return self.instantiate_class(f, args, kwargs, st, fr, node)
        if f.kind in ('builtin', 'spec', 'pymethod'):
            return [(st, self.call_value(f, args, kwargs, st, fr, node))]
        mod, qual, fnode, selfobj = self.resolve(f, fr)
        if selfobj is not None and any(isinstance(d, ast.Name) and d.id == 'staticmethod' for d in fnode.decorator_list):
            selfobj = None
        if selfobj is not None:
            args = [selfobj] + list(args)
        c = self.ctx.contract_for(mod.relpath, qual)
        if fr is not None and fr.spec_only and c is not None and c.pure:
            params, env = self.bind_params(fnode, args, kwargs, st, fr, mod)
            return [(st, self.pure_app(c, mod, qual, fnode, params, env, st))]
        if c is not None and not c.inline:
            params, env = self.bind_params(fnode, args, kwargs, st, fr, mod)
            res = []
            if c.raises and not (fr is not None and fr.spec_only):
                # exceptional exits of the callee (modular: from its contract only)
                cfr = self.contract_frame(c, (mod, qual, fnode), fr)
                cfr.spec_only = True
                for (exc, when) in c.raises:
                    sR = st.fork()
                    tmp = sR.fork()
                    tmp.env = dict(env)
                    cfr.entry = tmp.fork()
                    w = self.ev_clause(when, tmp, cfr) if when is not None else True
                    sR.assume(w)
                    if self.feasible(sR):
                        sR.status = 'raise'
                        sR.exc = (exc, getattr(node, 'lineno', 0))
                        res.append((sR, None))
                    if when is not None and is_qf(w):
                        st.pc.append(simp(z3.Not(zbool(w))))
            v = self.apply_contract(c, (mod, qual, fnode), qual, params, [env[p] for p in params], {}, st, fr, node)
            return res + [(st, v)]
        # inline
        depth = (fr.depth if fr else 0) + 1
        if depth > self.ctx.inline_depth:
            raise OutOfReach('inline depth exceeded at ' + qual)
        params, env = self.bind_params(fnode, args, kwargs, st, fr, mod)
        sub = Frame(mod, qual, fnode, None, depth)
        sub.spec_only = fr.spec_only if fr else False
        caller_env = st.env
        st.env = env
        entry = st.fork()
        sub.entry = entry
        outs = self.run(fnode.body, st, sub)
        res = []
        for s in outs:
            v = s.retval
            s.env = caller_env
            if s.status in ('return', 'normal'):
                s.status = 'normal'
                s.retval = None
                res.append((s, v))
            elif s.status == 'raise':
                res.append((s, None))
            else:
                raise OutOfReach('bad status after call: ' + s.status)
        return res

    def pure_decl(self, key, sorts, ret):
        if key not in self.ctx.pure_decls:
            self.ctx.pure_decls[key] = z3.Function('pure!' + key.split('::')[-1], *sorts, ret)
        return self.ctx.pure_decls[key]

    def pure_app(self, c, mod, qual, fnode, params, env, st):
        zargs = []
        for p in params:
            v = env[p]
            if self.is_arr(v):
                zargs.append(self.arr_term(st, v))
            elif isinstance(v, FunVal):
                continue
            else:
                zargs.append(Z(v))
        SM = {'int': INT, 'float': REAL, 'bool': BOOL}
        rs = c.returns or 'float'
        if rs.startswith('tuple:'):
            out = []
            for k, comp in enumerate(rs[6:].split(',')):
                decl = self.pure_decl('%s#%d' % (c.key, k), [a.sort() for a in zargs], SM[comp])
                out.append(decl(*zargs))
            return tuple(out)
        decl = self.pure_decl(c.key, [a.sort() for a in zargs], SM[rs])
        return decl(*zargs)

    def apply_contract(self, c, target, qual, params, args, kwargs, st, fr, node):
        """Modular call: assert pre, havoc frame, assume post."""
        env = dict(zip(params, args))
        env.update(kwargs)
        cfr = self.contract_frame(c, target, fr)
        cfr.caller_env = st.env
        callee_st = st.fork()
        cfr.caller_env = dict(callee_st.env)
        callee_st.env = env
        for n, ck in c.funparams.items():
            # function-valued argument must be registered as satisfying the abstract contract
            fv = env.get(n)
            ok = isinstance(fv, FunVal) and self.satisfies(fv, ck)
            self.prove(st, fr, 'funparam_contract', bool(ok), node, clause=ck)
        if not (fr is not None and fr.spec_only):
            for i, cl in enumerate(c.requires):
                cfr.spec_only = True
                f = self.ev_clause(cl, callee_st, cfr)
                self.prove(st, fr, 'callee_pre', f, node, clause='%s requires[%d]: %s' % (qual, i, cl))
        # pre-state for old()
        cfr.entry = callee_st.fork()
        # havoc frame
        mods = c.modifies
        arr_params = [p for p in params if isinstance(env.get(p), Arr)]
        if mods is None:
            if target is not None and target[2] is not None:
                from .verify import default_modifies
                mods = default_modifies(target[2], c)
            else:
                mods = arr_params
        for p in mods:
            a = env.get(p)
            if a is None and p not in env:
                try:
                    a = self.ev_clause_val(p, callee_st, cfr)
                except OutOfReach:
                    a = None
            if isinstance(a, (Buf, BufRef, BufView)):
                self.havoc_buf(st, a)
                continue
            if isinstance(a, Arr):
                self.havoc_arr(st, a)
            elif isinstance(a, ArrView):
                self.havoc_view(st, a)
            elif a is not None and not isinstance(a, (SpecArr, ExprArr)):
                pass
            elif isinstance(a, ExprArr):
                raise OutOfReach('callee modifies a temporary array expression')
        post_st = st.fork()
        post_st.env = dict(env)
        result = None
        if c.returns is not None and c.returns.startswith('layout:'):
            # a Layout object known only through its name (size is an uninterpreted function of the name)
            nm = self.ev_clause_val(c.returns[7:], callee_st, cfr)
            nid = self.intern_name(nm)
            o = Obj(('pygyro/model/layout.py', 'Layout'))
            lsize = V.uf('lsize', INT, INT)
            st.objs[o.oid] = {'_name': nm, '_size': lsize(ZI(nid)), '_shape': ('shape-of', nm)}
            st.pc.append(lsize(ZI(nid)) >= 0)
            result = o
            post_st.env['result'] = result
        elif c.returns is not None and c.returns.startswith('expr:'):
            result = self.ev_clause_val(c.returns[5:], callee_st, cfr)
            post_st.env['result'] = result
        elif c.returns is not None:
            if c.pure:
                tmp = cfr.entry.fork()
                result = self.pure_app(c, target[0] if target else None, qual, None, params, env, tmp)
            elif c.returns.startswith('tuple:'):
                result = tuple(fresh('ret_' + qual.split('.')[-1], {'int': 'int', 'float': 'real', 'bool': 'bool'}[k])
                               for k in c.returns[6:].split(','))
            elif c.returns.startswith('arr') and c.returns[3:].isdigit():
                # a freshly allocated array of unknown shape and contents (the ensures clauses say more)
                rk = int(c.returns[3:])
                shp = [fresh('ret_n%d' % k, 'int') for k in range(rk)]
                for s_ in shp:
                    st.pc.append(s_ >= 0)
                result = self.new_arr(st, rk, shp, REAL, 'ret_' + qual.split('.')[-1])
                post_st.heap[result.aid] = st.heap[result.aid]
            else:
                result = fresh('ret_' + qual.split('.')[-1], {'int': 'int', 'float': 'real', 'bool': 'bool'}[c.returns])
            post_st.env['result'] = result
        for gn, (grank, gshape) in getattr(c, 'ghost_out', {}).items():
            V._arr_counter[0] += 1
            shp = [self.ev_clause_val(x, callee_st, cfr) for x in gshape]
            g = SpecArr(z3.Const('%s!o%d' % (gn, V._arr_counter[0]), V.arr_sort(grank, REAL)), shp, REAL)
            post_st.env[gn] = g
            st.env[gn] = g
        if c.creates:
            from .verify import make_param
            so = env.get('self')
            for an, spec in c.creates.items():
                if isinstance(spec, tuple) and spec and spec[0] == 'expr':
                    val = self.ev_clause_val(spec[1], callee_st, cfr)
                else:
                    val = make_param(self, st, '%s_%d' % (an, so.oid), None, spec)
                st.objs.setdefault(so.oid, {})[an] = val
        if c.interp_src is not None:
            sp, ug = env[c.interp_src[0]], env[c.interp_src[1]]
            st.objs.setdefault(sp.oid, {})['gh_interp'] = self.interp_descr(callee_st, ug)
        post_st.heap = dict(st.heap)
        post_st.bufs = dict(st.bufs)
        cfr.spec_only = True
        selfobj = env.get('self')
        for an, ex in c.sets.items():
            post_st.objs = st.objs
            st.objs[selfobj.oid][an] = self.ev_clause_val(ex, post_st, cfr)
        post_st.objs = st.objs
        for cl in c.ensures:
            f = self.ev_clause(cl, post_st, cfr)
            st.assume(f)
        return result

    def satisfies(self, fv, ckey):
        if fv.kind == 'param':
            return fv.ref == ckey
        if fv.kind == 'repo':
            rel, qual = fv.ref
            c = self.ctx.contract_for(rel, qual)
            return c is not None and ckey in getattr(c, 'implements', [])
        if fv.kind == 'method':
            rel, qual, obj = fv.ref
            c = self.ctx.contract_for(rel, qual)
            return c is not None and ckey in getattr(c, 'implements', [])
        return False

    def contract_frame(self, c, target, fr):
        if target is not None:
            mod, qual, fnode = target
        else:
            mod, qual, fnode = (fr.module if fr else None), c.key, None
        cfr = Frame(mod, qual, fnode, c, (fr.depth if fr else 0))
        return cfr

    def ev_clause(self, text, st, fr):
        node = self.ctx.clause_ast(text)
        v = self.ev(node, st, fr)
        if isinstance(v, smt.Form):
            return v
        return truth(v)

    def instantiate_class(self, f, args, kwargs, st, fr, node):
        rel, cname = f.ref
        obj = Obj((rel, cname))
        st.objs[obj.oid] = {}
        r = self.find_method((rel, cname), '__init__')
        if r is None:
            return [(st, obj)]
        mod, qual, fnode = r
        res = self.call_multi(FunVal('method', '__init__', (mod.relpath, qual, obj)), args, kwargs, st, fr, node)
        return [(s, obj) for (s, _) in res]

    # ------------------------------------------------------------------
    # statements
    # ------------------------------------------------------------------
    def run(self, stmts, st, fr):
        states = [st]
        for s in stmts:
            nxt = []
            for cur in states:
                if cur.status != 'normal':
                    nxt.append(cur)
                    continue
                try:
                    nxt.extend(self.exec_stmt(s, cur, fr))
                except PathRaised:
                    nxt.append(cur)
            states = nxt
            if len(states) > 4000:
                raise OutOfReach('path explosion in %s' % fr.qual)
        return states

    def exec_stmt(self, s, st, fr):
        m = getattr(self, 'st_' + type(s).__name__, None)
        if m is None:
            raise OutOfReach('statement %s at line %d' % (type(s).__name__, s.lineno))
        self.ctx.reached.add((fr.fname, s.lineno))
        if self.trace_mode(fr) and isinstance(s, (ast.Assign, ast.AugAssign, ast.Expr, ast.AnnAssign)) and not _execu.has_collective(s):
            # trace abstraction: a statement without collectives that is not modelled only makes its targets opaque
            snap = st.fork()
            try:
                return m(s, st, fr)
            except (OutOfReach, TypeError, AttributeError, KeyError, IndexError, ValueError):
                st.__dict__.update(snap.__dict__)
                names, arrs, calls = assigned_names([s])
                for n in names:
                    st.env[n] = V.Opaque()
                return [st]
        return m(s, st, fr)

    def st_Pass(self, s, st, fr):
        return [st]

    def st_FunctionDef(self, s, st, fr):
        """Nested helper `def g(args): return <expr>` (one expression, no defaults): a closure over the current names."""
        body = [b for b in s.body if not (isinstance(b, ast.Expr) and isinstance(b.value, ast.Constant))]
        if len(body) != 1 or not isinstance(body[0], ast.Return) or s.args.defaults or s.args.vararg or s.args.kwarg or s.decorator_list:
            raise OutOfReach('nested function %s is not a one-expression helper' % s.name)
        lam = ast.Lambda(args=s.args, body=body[0].value)
        ast.copy_location(lam, s)
        ast.fix_missing_locations(lam)
        st.env[s.name] = self.ev(lam, st, fr)
        return [st]

    def st_Import(self, s, st, fr):
        return [st]

    def st_ImportFrom(self, s, st, fr):
        for alias in s.names:
            nm = alias.asname or alias.name
            if nm == 'pi':
                st.env['pi'] = V.PI
            else:
                st.env[nm] = FunVal('builtin', alias.name)
        return [st]

    def st_Expr(self, s, st, fr):
        if isinstance(s.value, ast.Constant):
            return [st]
        if isinstance(s.value, ast.Call):
            return [r[0] for r in self.eval_call_multi(s.value, st, fr)]
        self.ev(s.value, st, fr)
        return [st]

    def eval_call_multi(self, e, st, fr):
        """Call at statement level: may fork."""
        if isinstance(e.func, ast.Name) and e.func.id in ('old', 'forall', 'exists', 'sum_', 'implies', 'and_', 'iff', 'ite_', 'let') \
                and e.func.id not in st.env:
            return [(st, self.ev(e, st, fr))]
        f = self.ev(e.func, st, fr)
        args = []
        for a in e.args:
            if isinstance(a, ast.Starred):
                args.extend(self.ev(a.value, st, fr))
            else:
                args.append(self.ev(a, st, fr))
        kwargs = {k.arg: self.ev(k.value, st, fr) for k in e.keywords}
        if isinstance(f, FunVal) and f.kind in ('repo', 'method', 'class', 'param'):
            return self.call_multi(f, args, kwargs, st, fr, e)
        return [(st, self.call_value(f, args, kwargs, st, fr, e))]

    def st_Assign(self, s, st, fr):
        if isinstance(s.value, ast.Call):
            res = self.eval_call_multi(s.value, st, fr)
        else:
            res = [(st, self.ev(s.value, st, fr))]
        out = []
        for (s2, v) in res:
            if s2.status == 'normal':
                for t in s.targets:
                    self.assign(t, v, s2, fr)
            out.append(s2)
        return out

    def st_AnnAssign(self, s, st, fr):
        if s.value is not None:
            self.assign(s.target, self.ev(s.value, st, fr), st, fr)
        return [st]

    def assign(self, t, v, st, fr):
        if isinstance(t, ast.Name):
            if isinstance(v, ExprArr) and not isinstance(v, (ArrView, FlatView)):
                # materialise: a new array object
                a = self.new_arr(st, v.rank, v.shape, v.elem, t.id)
                st.heap[a.aid] = self.arr_term(st, v)
                v = a
            st.env[t.id] = v
        elif isinstance(t, (ast.Tuple, ast.List)):
            if self.is_arr(v):
                if v.rank == 1 and is_cint(v.shape[0]):
                    ef = self.elem_fn(st, v)
                    v = [simp(ef((k,))) for k in range(v.shape[0])]
                else:
                    raise OutOfReach('unpacking an array')
            vs = list(v)
            if len(vs) != len(t.elts):
                self.safety(st, fr, 'unpack_length', False, t)
                raise PathRaised()
            for tt, vv in zip(t.elts, vs):
                self.assign(tt, vv, st, fr)
        elif isinstance(t, ast.Subscript):
            base = self.ev(t.value, st, fr)
            idx = self.ev(t.slice, st, fr)
            self.store(st, fr, base, idx, v, t)
        elif isinstance(t, ast.Attribute) and t.attr == 'flat':
            # a.flat = b.flat: copy in C order.  Extents of 1 do not change the C order, so with them removed the two
            # shapes must agree (obligation) and the copy is element by element
            base = self.ev(t.value, st, fr)
            if isinstance(v, V.FlatOf):
                src = v.arr
            elif self.is_arr(v):
                src = v          # a.flat = b: the values of b in C order
            else:
                raise OutOfReach('.flat assignment of this form')
            if not isinstance(base, Arr):
                raise OutOfReach('.flat assignment of this form')
            keep_t = [k for k, s_ in enumerate(base.shape) if not (is_cint(s_) and s_ == 1)]
            keep_s = [k for k, s_ in enumerate(src.shape) if not (is_cint(s_) and s_ == 1)]
            if len(keep_t) != len(keep_s):
                raise OutOfReach('.flat assignment between arrays of different squeezed rank')
            for kt, ks in zip(keep_t, keep_s):
                self.safety(st, fr, 'shape_agreement', compare('Eq', base.shape[kt], src.shape[ks]), t)
            sf = self.elem_fn(st, src)

            def fn(j, sf=sf, keep_t=keep_t, keep_s=keep_s, rank_s=src.rank):
                full = [0] * rank_s
                for kt, ks in zip(keep_t, keep_s):
                    full[ks] = j[kt]
                return sf(tuple(full))
            self.store(st, fr, base, slice(None), ExprArr(list(base.shape), fn, src.elem), t)
        elif isinstance(t, ast.Attribute):
            base = self.ev(t.value, st, fr)
            if isinstance(base, Obj):
                if isinstance(v, ExprArr) and not isinstance(v, (ArrView, FlatView)):
                    a = self.new_arr(st, v.rank, v.shape, v.elem, t.attr)
                    st.heap[a.aid] = self.arr_term(st, v)
                    v = a
                st.objs.setdefault(base.oid, {})[t.attr] = v
            else:
                raise OutOfReach('attribute store')
        else:
            raise OutOfReach('assignment target')

    def st_AugAssign(self, s, st, fr):
        t = s.target
        opn = type(s.op).__name__
        if isinstance(s.value, ast.Call):
            res = self.eval_call_multi(s.value, st, fr)
        else:
            res = [(st, self.ev(s.value, st, fr))]
        out = []
        for (s2, rhs) in res:
            if s2.status != 'normal':
                out.append(s2)
                continue
            if isinstance(t, ast.Name):
                cur = self.lookup(t.id, s2, fr)
                if isinstance(cur, Arr):
                    new = self.do_binop(opn, cur, rhs, s2, fr, s)
                    self.store(s2, fr, cur, (slice(None),) * cur.rank, new, s)
                else:
                    s2.env[t.id] = self.do_binop(opn, cur, rhs, s2, fr, s)
            elif isinstance(t, ast.Subscript):
                base = self.ev(t.value, s2, fr)
                idx = self.ev(t.slice, s2, fr)
                cur = self.subscript(s2, fr, base, idx, t)
                new = self.do_binop(opn, cur, rhs, s2, fr, s)
                self.store(s2, fr, base, idx, new, t)
            elif isinstance(t, ast.Attribute):
                base = self.ev(t.value, s2, fr)
                cur = s2.objs[base.oid][t.attr]
                s2.objs[base.oid][t.attr] = self.do_binop(opn, cur, rhs, s2, fr, s)
            else:
                raise OutOfReach('augassign target')
            out.append(s2)
        return out

    def st_Return(self, s, st, fr):
        if s.value is None:
            st.retval = None
            st.status = 'return'
            return [st]
        if isinstance(s.value, ast.Call):
            res = self.eval_call_multi(s.value, st, fr)
        else:
            res = [(st, self.ev(s.value, st, fr))]
        out = []
        for (s2, v) in res:
            if s2.status == 'normal':
                s2.retval = v
                s2.status = 'return'
            out.append(s2)
        return out

    def st_Raise(self, s, st, fr):
        name = 'Exception'
        if s.exc is not None:
            e = s.exc
            if isinstance(e, ast.Call):
                e = e.func
            if isinstance(e, ast.Name):
                name = e.id
        st.status = 'raise'
        st.exc = (name, s.lineno)
        return [st]

    def st_Assert(self, s, st, fr):
        if self.trace_mode(fr):
            # the trace abstraction does not decide data assertions (they are the subject of the other properties)
            return [st]
        c = self.ev(s.test, st, fr)
        c = truth(c)
        if fr.contract is not None or True:
            # A6: asserts are live; the code must not trip them under the precondition unless the
            # contract declares AssertionError as an exceptional exit
            declared = fr.contract is not None and any(r[0] == 'AssertionError' for r in fr.contract.raises)
            if declared or fr.depth > 0 and self.ctx.assert_as_branch:
                return self.branch(c, st, fr, s, lambda a: [a], lambda b: self._raise(b, 'AssertionError', s.lineno))
            self.safety(st, fr, 'assert', c, s)
        return [st]

    def _raise(self, st, name, lineno):
        st.status = 'raise'
        st.exc = (name, lineno)
        return [st]

    def branch(self, c, st, fr, node, then, orelse):
        if isinstance(c, bool):
            st.trace.append((node.lineno, c))
            return then(st) if c else orelse(st)
        out = []
        s1 = st.fork()
        s1.pc.append(c)
        if self.feasible(s1):
            s1.trace.append((node.lineno, True))
            out.extend(then(s1))
        else:
            self.ctx.pruned += 1
        s2 = st
        s2.pc.append(simp(z3.Not(c)))
        if self.feasible(s2):
            s2.trace.append((node.lineno, False))
            out.extend(orelse(s2))
        else:
            self.ctx.pruned += 1
        return out

    def st_If(self, s, st, fr):
        c = truth(self.ev(s.test, st, fr))
        return self.branch(c, st, fr, s, lambda a: self.run(s.body, a, fr), lambda b: self.run(s.orelse, b, fr))

    def st_Break(self, s, st, fr):
        st.status = 'break'
        return [st]

    def st_Continue(self, s, st, fr):
        st.status = 'continue'
        return [st]

    # ------------------------------------------------------------------
    # loops
    # ------------------------------------------------------------------
    def loop_contract(self, node, fr):
        fp = loop_fingerprint(node)
        n = fr.loop_counts.get((fp, id(node)))
        if n is None:
            k = sum(1 for (f, _) in fr.loop_counts if f == fp)
            fr.loop_counts[(fp, id(node))] = k
            n = k
        key = fp if n == 0 else '%s #%d' % (fp, n + 1)
        c = fr.contract
        if c is None:
            return None, key
        lc = c.loops.get(key)
        if lc is None and isinstance(node, ast.For):
            # '*': default contract for every for-loop the contract does not name (wiring contracts: no loop-carried facts)
            lc = c.loops.get('*')
        return lc, key

    def iter_spec(self, node, st, fr):
        """for-loop iteration space: (lo, hi, bind(st,i), index_name)."""
        it = node.iter
        tgt = node.target
        if isinstance(it, ast.Call) and isinstance(it.func, ast.Name) and it.func.id == 'range' and 'range' not in st.env:
            a = [self.ev(x, st, fr) for x in it.args]
            if len(a) == 1:
                lo, hi = 0, a[0]
            elif len(a) == 2:
                lo, hi = a
            else:
                raise OutOfReach('range with step')
            if not isinstance(tgt, ast.Name):
                raise OutOfReach('range target')
            return lo, hi, (lambda s, i: self.assign(tgt, i, s, fr)), tgt.id
        if isinstance(it, ast.Call) and isinstance(it.func, ast.Name) and it.func.id == 'enumerate' and 'enumerate' not in st.env:
            seq = self.ev(it.args[0], st, fr)
            if not (isinstance(tgt, ast.Tuple) and len(tgt.elts) == 2 and isinstance(tgt.elts[0], ast.Name)):
                raise OutOfReach('enumerate target')
            iname = tgt.elts[0].id
            if isinstance(seq, V.SymRange):
                def bindr(s, i, seq=seq):
                    self.assign(tgt.elts[0], i, s, fr)
                    self.assign(tgt.elts[1], binop('Add', seq.lo, i), s, fr)
                return 0, binop('Sub', seq.hi, seq.lo), bindr, iname
            if isinstance(seq, V.SymList):
                def bindl(s, i, seq=seq):
                    self.assign(tgt.elts[0], i, s, fr)
                    self.assign(tgt.elts[1], seq.fn(s, i, known_not_last=seq.drop_last > 0), s, fr)
                return 0, seq.length(), bindl, iname
            if self.is_arr(seq):
                if seq.rank != 1:
                    raise OutOfReach('enumerate over rank>1 array')

                def bind(s, i, seq=seq):
                    self.assign(tgt.elts[0], i, s, fr)
                    self.assign(tgt.elts[1], simp(self.elem_fn(s, seq)((i,))), s, fr)
                return 0, seq.shape[0], bind, iname
            seq = list(seq)
            return 0, len(seq), (lambda s, i: (self.assign(tgt.elts[0], i, s, fr), self.assign(tgt.elts[1], seq[i], s, fr))), iname
        if isinstance(it, ast.Call) and isinstance(it.func, ast.Name) and it.func.id == 'zip' and 'zip' not in st.env:
            seqs = [self.ev(a, st, fr) for a in it.args]
            if all(self.is_arr(q) and q.rank == 1 for q in seqs) and not all(is_cint(q.shape[0]) for q in seqs):
                if not (isinstance(tgt, ast.Tuple) and len(tgt.elts) == len(seqs)):
                    raise OutOfReach('zip target')
                # zip stops at the shortest sequence: the contract must make the lengths equal (obligation)
                for q in seqs[1:]:
                    self.safety(st, fr, 'zip_lengths', compare('Eq', q.shape[0], seqs[0].shape[0]), node)

                def bindz(s, i, seqs=seqs):
                    for te, q in zip(tgt.elts, seqs):
                        self.assign(te, simp(self.elem_fn(s, q)((i,))), s, fr)
                return 0, seqs[0].shape[0], bindz, '_i'
        seq = self.ev(it, st, fr)
        if isinstance(seq, V.EnumVal):
            if not (isinstance(tgt, ast.Tuple) and len(tgt.elts) == 2 and isinstance(tgt.elts[0], ast.Name)):
                raise OutOfReach('enumerate target')
            q = seq.seq
            iname = tgt.elts[0].id
            if isinstance(q, V.SymRange):
                return 0, binop('Sub', q.hi, q.lo), (lambda s, i: (self.assign(tgt.elts[0], i, s, fr),
                                                                  self.assign(tgt.elts[1], binop('Add', q.lo, i), s, fr))), iname
            if self.is_arr(q) and q.rank == 1:
                return 0, q.shape[0], (lambda s, i: (self.assign(tgt.elts[0], i, s, fr),
                                                     self.assign(tgt.elts[1], simp(self.elem_fn(s, q)((i,))), s, fr))), iname
            raise OutOfReach('enumerate value over ' + type(q).__name__)
        if isinstance(seq, V.SymRange):
            if not isinstance(tgt, ast.Name):
                raise OutOfReach('range target')
            return seq.lo, seq.hi, (lambda s, i: self.assign(tgt, i, s, fr)), tgt.id
        if self.is_arr(seq):
            if seq.rank != 1:
                raise OutOfReach('iteration over rank>1 array')
            return 0, seq.shape[0], (lambda s, i: self.assign(tgt, simp(self.elem_fn(s, seq)((i,))), s, fr)), '_i'
        seq = list(seq)
        return 0, len(seq), (lambda s, i: self.assign(tgt, seq[i], s, fr)), '_i'

    def havoc_set(self, body, st, fr):
        """What a loop body may change: (names and object attributes to forget, arrays to havoc).  Conservative and syntactic:
        assigned names; arrays written by subscript assignment (directly, through a view, or through an attribute of an object);
        arrays handed to callees that may write them (by the callee contract's modifies list - parameter names or expressions - or,
        for inlined callees, by a scan of their bodies, including writes to attributes of `self`)."""
        # nothing evaluated here leaks into the state: the counters for fresh names are restored, so that the text of the VCs
        # does not depend on how much was looked at
        saved_counters = (smt._fresh_counter[0], V._arr_counter[0], V._obj_counter[0])
        try:
            return self._havoc_set(body, st, fr)
        finally:
            smt._fresh_counter[0], V._arr_counter[0], V._obj_counter[0] = saved_counters

    def _havoc_set(self, body, st, fr):
        names, arrs, calls = assigned_names(body)
        names = set(names)
        arr_objs = []
        tmp = st.fork()
        for n in names:
            if n not in tmp.env:
                tmp.env[n] = z3.Int('hv!' + n)      # loop-local names, only needed to evaluate view expressions

        def add(v):
            if isinstance(v, Arr):
                arr_objs.append(v)
            elif isinstance(v, (ArrView, FlatView)):
                arr_objs.append(v.base)

        def try_ev(node, state=tmp):
            # evaluation only to find out WHICH array an expression denotes: no obligations, no effect on the state
            n_ob = len(self.ctx.obligations)
            old_spec = fr.spec_only
            fr.spec_only = True
            try:
                return self.ev(node, state.fork(), fr)
            except Exception:
                return None
            finally:
                fr.spec_only = old_spec
                del self.ctx.obligations[n_ob:]
        for a in arrs:
            add(try_ev(ast.parse(a, mode='eval').body))
        # attribute stores in the body itself: obj.attr = ...
        for s_ in body:
            for n in ast.walk(s_):
                if isinstance(n, (ast.Assign, ast.AugAssign, ast.AnnAssign)):
                    for t in (n.targets if isinstance(n, ast.Assign) else [n.target]):
                        for u in (t.elts if isinstance(t, (ast.Tuple, ast.List)) else [t]):
                            if isinstance(u, ast.Attribute):
                                o = try_ev(u.value)
                                if isinstance(o, Obj):
                                    names.add(('attr', o.oid, u.attr))
        for c in calls:
            f = try_ev(c.func)
            if not isinstance(f, FunVal) or f.kind not in ('repo', 'method', 'param'):
                continue
            selfobj = None
            fnode = None
            mod = None
            if f.kind == 'param':
                cc = self.ctx.contracts[f.ref]
                params = list(cc.params_order)
                mods = cc.modifies
            else:
                try:
                    mod, qual, fnode, selfobj = self.resolve(f, fr)
                except Exception:
                    continue
                cc = self.ctx.contract_for(mod.relpath, qual)
                params = [p.arg for p in fnode.args.args]
                if selfobj is not None and not any(isinstance(d, ast.Name) and d.id == 'staticmethod' for d in fnode.decorator_list):
                    params = params[1:]
                else:
                    selfobj = None if not params or params[0] != 'self' else selfobj
                mods = cc.modifies if cc is not None else None
                if cc is not None and mods is None:
                    from .verify import default_modifies
                    mods = default_modifies(fnode, cc)
                elif cc is None or cc.inline:
                    mods = self.syntactic_modifies(mod, fnode)
                    cc = None
            argvals = [try_ev(a) for a in c.args]
            for k, v in enumerate(argvals):
                if isinstance(v, (Arr, ArrView, FlatView)) and (mods is None or (k < len(params) and params[k] in mods)):
                    add(v)
            if cc is not None and mods:
                # modifies entries that are expressions over the callee's parameters (self._coeffs, grid._f, ...)
                exprs = [m for m in mods if not m.isidentifier()]
                if exprs:
                    env = dict(zip(params, argvals))
                    if selfobj is not None:
                        env['self'] = selfobj
                    cst = tmp.fork()
                    cst.env = env
                    cfr = self.contract_frame(cc, (mod, f.name, fnode) if mod is not None else None, fr)
                    cfr.spec_only = True
                    n_ob = len(self.ctx.obligations)
                    for m in exprs:
                        try:
                            add(self.ev(self.ctx.clause_ast(m), cst, cfr))
                        except Exception:
                            pass
                    del self.ctx.obligations[n_ob:]
            if cc is None and fnode is not None and selfobj is not None:
                # inlined method: arrays and scalar attributes of self written in its body (one more level of self-calls)
                for (kind, attr) in self.self_writes(mod, fnode, 0):
                    val = st.objs.get(selfobj.oid, {}).get(attr)
                    if kind == 'arr':
                        add(val)
                    else:
                        names.add(('attr', selfobj.oid, attr))
        return names, arr_objs

    def self_writes(self, mod, fnode, depth):
        """('arr' | 'scalar', attribute) pairs that a method body writes through `self` (syntactic; follows self.method() calls)."""
        out = set()
        for n in ast.walk(fnode):
            if isinstance(n, (ast.Assign, ast.AugAssign, ast.AnnAssign)):
                for t in (n.targets if isinstance(n, ast.Assign) else [n.target]):
                    for u in (t.elts if isinstance(t, (ast.Tuple, ast.List)) else [t]):
                        b = u
                        sub = False
                        while isinstance(b, ast.Subscript):
                            b = b.value
                            sub = True
                        if isinstance(b, ast.Attribute) and isinstance(b.value, ast.Name) and b.value.id == 'self':
                            out.add(('arr' if sub else 'scalar', b.attr))
            elif isinstance(n, ast.Call) and depth < 2 and isinstance(n.func, ast.Attribute) and isinstance(n.func.value, ast.Name) \
                    and n.func.value.id == 'self':
                cls = fnode and getattr(fnode, '_cls', None)
                for q, fn2 in mod.functions.items():
                    if q.endswith('.' + n.func.attr) and fn2 is not fnode:
                        out |= self.self_writes(mod, fn2, depth + 1)
        return out

    def syntactic_modifies(self, mod, fnode, depth=0):
        """Parameters of an inlined callee that its body may write (conservative syntactic scan)."""
        params = [p.arg for p in fnode.args.args]
        names, arrs, calls = assigned_names(fnode.body)
        out = set(a for a in arrs if a in params)
        if calls:
            # any array handed on to another call is assumed written
            for c in calls:
                for a in c.args:
                    if isinstance(a, ast.Name) and a.id in params:
                        out.add(a.id)
        return list(out)

    def havoc_view(self, st, v):
        """Unknown new contents inside the region a view covers; the rest of the storage is unchanged."""
        base = v.base
        t = st.heap[base.aid]
        V._arr_counter[0] += 1
        fresh_t = z3.Const('%s!v%d' % (base.name, V._arr_counter[0]), base.sort())
        ids = [z3.Int('lam!%d' % k) for k in range(base.rank)]
        conds = []
        vi = 0
        for k, (kd, val) in enumerate(v.spec):
            if kd == 'i':
                conds.append(ids[k] == ZI(val))
            else:
                conds.append(z3.And(ids[k] >= ZI(val), ids[k] < ZI(binop('Add', val, v.shape[vi]))))
                vi += 1
        st.heap[base.aid] = z3.Lambda(ids, z3.If(z3.And(*conds), z3.Select(fresh_t, *ids), z3.Select(t, *ids)))

    def do_havoc(self, st, names, arr_objs, keep=()):
        for n in names:
            if isinstance(n, tuple) and n and n[0] == 'attr':
                _, oid, attr = n
                cur = st.objs.get(oid, {}).get(attr)
                if cur is None:
                    continue
                if is_intlike(cur):
                    st.objs[oid][attr] = fresh(attr, 'int')
                elif is_reallike(cur):
                    st.objs[oid][attr] = fresh(attr, 'real')
                elif is_boollike(cur):
                    st.objs[oid][attr] = fresh(attr, 'bool')
                elif isinstance(cur, (Arr, V.Opaque)):
                    pass
                else:
                    del st.objs[oid][attr]
                continue
            if n in keep:
                continue
            v = st.env.get(n)
            if v is None:
                continue
            if is_intlike(v):
                st.env[n] = fresh(n, 'int')
            elif is_reallike(v):
                st.env[n] = fresh(n, 'real')
            elif is_boollike(v):
                st.env[n] = fresh(n, 'bool')
            elif isinstance(v, Arr):
                pass
            elif isinstance(v, V.Opaque):
                pass
            elif isinstance(v, SpecArr):
                V._arr_counter[0] += 1
                st.env[n] = SpecArr(z3.Const('%s!g%d' % (n, V._arr_counter[0]), V.arr_sort(v.rank, v.elem)), v.shape, v.elem)
            elif v is None:
                pass
            else:
                # structured value (list, view, ...) reassigned in the loop: unknown afterwards - unbound, so that any read
                # before the next assignment is reported as out of reach instead of using a stale value
                del st.env[n]
        seen = set()
        for a in arr_objs:
            if a.aid not in seen:
                seen.add(a.aid)
                self.havoc_arr(st, a)

    def bind_ghost(self, lc, st, fr):
        for n, ex in lc.get('ghost', {}).items():
            old = fr.spec_only
            fr.spec_only = True
            try:
                v = self.ev_clause_val(ex, st, fr)
            finally:
                fr.spec_only = old
            if isinstance(v, Arr):
                v = SpecArr(st.heap[v.aid], v.shape, v.elem)
            st.env[n] = v

    def ghost_update(self, lc, st, fr):
        ups = lc.get('ghost_update', {})
        if not ups:
            return
        old = fr.spec_only
        fr.spec_only = True
        try:
            vals = {n: self.ev_clause_val(ex, st, fr) for n, ex in ups.items()}
        finally:
            fr.spec_only = old
        st.env.update(vals)

    def check_inv(self, lc, st, fr, node, kind):
        splits = None
        if kind == 'loop_inv_step' and lc.get('case_split'):
            old = fr.spec_only
            fr.spec_only = True
            try:
                splits = {pn: [self.ev_clause_val(t, st, fr) for t in terms] for pn, terms in lc['case_split'].items()}
            finally:
                fr.spec_only = old
        for i, cl in enumerate(lc.get('inv', [])):
            old = fr.spec_only
            fr.spec_only = True
            try:
                f = self.ev_clause(cl, st, fr)
            finally:
                fr.spec_only = old
            self.prove(st, fr, kind, f, node, clause='inv[%d]: %s' % (i, cl), splits=splits)

    def assume_inv(self, lc, st, fr):
        old = fr.spec_only
        fr.spec_only = True
        try:
            for cl in lc.get('inv', []):
                st.assume(self.ev_clause(cl, st, fr))
        finally:
            fr.spec_only = old

    def abstract_loop(self, s, st, fr):
        """Trace abstraction: a loop without collectives only makes the variables it assigns opaque."""
        names, arrs, calls = assigned_names([s])
        for n in names:
            st.env[n] = V.Opaque()
        return [st]

    def st_For(self, s, st, fr):
        if self.trace_mode(fr) and not _execu.has_collective(s):
            snap = st.fork()
            try:
                return self.st_For_concrete(s, st, fr)
            except (OutOfReach, TypeError, AttributeError, KeyError, IndexError, ValueError):
                st.__dict__.update(snap.__dict__)
                return self.abstract_loop(s, st, fr)
        return self.st_For_concrete(s, st, fr)

    def st_For_concrete(self, s, st, fr):
        lo, hi, bind, iname = self.iter_spec(s, st, fr)
        lc, key = self.loop_contract(s, fr)
        if lc is None:
            if is_cint(lo) and is_cint(hi):
                if hi - lo > MAX_UNROLL:
                    raise OutOfReach('loop too long to unroll: ' + key)
                return self.unroll(s, st, fr, lo, hi, bind)
            raise OutOfReach('loop with symbolic trip count and no invariant: %s in %s' % (key, fr.fname))
        out = []
        self.bind_ghost(lc, st, fr)
        # path A: empty range
        c_enter = compare('Lt', lo, hi)
        if not (isinstance(c_enter, bool) and c_enter):
            sA = st.fork()
            if not isinstance(c_enter, bool):
                sA.pc.append(simp(z3.Not(c_enter)))
            if (isinstance(c_enter, bool) and not c_enter) or self.feasible(sA):
                out.extend(self.run(s.orelse, sA, fr) if s.orelse else [sA])
            if isinstance(c_enter, bool) and not c_enter:
                return out
        if not isinstance(c_enter, bool):
            st.pc.append(c_enter)
            if not self.feasible(st):
                return out
        # entry: invariant with index = lo
        st.env[iname] = lo
        self.check_inv(lc, st, fr, s, 'loop_inv_init')
        names, arr_objs = self.havoc_set(s.body, st, fr)
        names = set(names) | set(lc.get('ghost_update', {}))
        # arbitrary iteration
        sB = st.fork()
        self.do_havoc(sB, names, arr_objs)
        i = fresh(iname, 'int')
        sB.env[iname] = i
        sB.pc.append(ZI(lo) <= i)
        sB.pc.append(i < ZI(hi))
        self.assume_inv(lc, sB, fr)
        bind(sB, i)
        sB.env[iname] = i
        body_out = self.run(s.body, sB, fr)
        for b in body_out:
            if b.status in ('normal', 'continue'):
                b.status = 'normal'
                self.ghost_update(lc, b, fr)
                b.env[iname] = simp(i + 1)
                self.check_inv(lc, b, fr, s, 'loop_inv_step')
            elif b.status == 'break':
                b.status = 'normal'
                out.append(b)
            else:
                out.append(b)
        # exit
        sC = st
        self.do_havoc(sC, names, arr_objs)
        sC.env[iname] = hi
        self.assume_inv(lc, sC, fr)
        sC.env[iname] = binop('Sub', hi, 1)
        out.extend(self.run(s.orelse, sC, fr) if s.orelse else [sC])
        return out

    def unroll(self, s, st, fr, lo, hi, bind):
        states = [st]
        done = []
        for i in range(lo, hi):
            nxt = []
            for cur in states:
                bind(cur, i)
                for b in self.run(s.body, cur, fr):
                    if b.status in ('normal', 'continue'):
                        b.status = 'normal'
                        nxt.append(b)
                    elif b.status == 'break':
                        b.status = 'normal'
                        done.append(b)
                    else:
                        done.append(b)
            states = nxt
        return states + done

    def st_While(self, s, st, fr):
        if self.trace_mode(fr) and not _execu.has_collective(s) and (fr.contract is None or not fr.contract.loops):
            return self.abstract_loop(s, st, fr)
        lc, key = self.loop_contract(s, fr)
        if lc is None:
            # bounded unrolling only when the test is concrete
            states, out = [st], []
            for _ in range(MAX_UNROLL):
                nxt = []
                for cur in states:
                    c = truth(self.ev(s.test, cur, fr))
                    if not isinstance(c, bool):
                        raise OutOfReach('while loop with symbolic test and no invariant: %s in %s' % (key, fr.fname))
                    if not c:
                        out.append(cur)
                        continue
                    for b in self.run(s.body, cur, fr):
                        if b.status in ('normal', 'continue'):
                            b.status = 'normal'
                            nxt.append(b)
                        elif b.status == 'break':
                            b.status = 'normal'
                            out.append(b)
                        else:
                            out.append(b)
                states = nxt
                if not states:
                    return out
            raise OutOfReach('while loop does not terminate within unroll bound')
        out = []
        self.bind_ghost(lc, st, fr)
        self.check_inv(lc, st, fr, s, 'loop_inv_init')
        names, arr_objs = self.havoc_set(s.body, st, fr)
        names = set(names) | set(lc.get('ghost_update', {})) | set(lc.get('ghost_iter', {}))
        sB = st.fork()
        self.do_havoc(sB, names, arr_objs)
        self.assume_inv(lc, sB, fr)
        c = truth(self.ev(s.test, sB, fr))
        dec = lc.get('decreases')
        decby = lc.get('decreases_by')

        def body(b0):
            d0 = None
            for gn, gex in lc.get('ghost_iter', {}).items():
                fr.spec_only = True
                gv = self.ev_clause_val(gex, b0, fr)
                fr.spec_only = False
                if isinstance(gv, Arr):
                    gv = SpecArr(b0.heap[gv.aid], gv.shape, gv.elem)
                b0.env[gn] = gv
            if decby is not None:
                # real-valued variant: non-negative while the loop runs, and each iteration lowers it by at
                # least a positive loop-invariant amount
                fr.spec_only = True
                m0 = self.ev_clause_val(decby[0], b0, fr)
                dl = self.ev_clause_val(decby[1], b0, fr)
                fr.spec_only = False
                self.prove(b0, fr, 'decreases_bounded', b_and(compare('GtE', m0, 0), compare('Gt', dl, 0)), s,
                           clause='decreases_by %s, %s' % decby)
            if dec is not None:
                fr.spec_only = True
                d0 = self.ev_clause_val(dec, b0, fr)
                fr.spec_only = False
                self.prove(b0, fr, 'decreases_bounded', compare('GtE', d0, 0), s, clause='decreases ' + dec)
            res = []
            for b in self.run(s.body, b0, fr):
                if b.status in ('normal', 'continue'):
                    b.status = 'normal'
                    self.ghost_update(lc, b, fr)
                    self.check_inv(lc, b, fr, s, 'loop_inv_step')
                    if decby is not None:
                        fr.spec_only = True
                        m1 = self.ev_clause_val(decby[0], b, fr)
                        dl1 = self.ev_clause_val(decby[1], b, fr)
                        fr.spec_only = False
                        self.prove(b, fr, 'decreases_strict', b_and(compare('LtE', m1, binop('Sub', m0, dl)),
                                                                    compare('Eq', dl1, dl)), s,
                                   clause='decreases_by %s, %s' % decby)
                    if dec is not None:
                        fr.spec_only = True
                        d1 = self.ev_clause_val(dec, b, fr)
                        fr.spec_only = False
                        self.prove(b, fr, 'decreases_strict', compare('Lt', d1, d0), s, clause='decreases ' + dec)
                elif b.status == 'break':
                    b.status = 'normal'
                    res.append(b)
                else:
                    res.append(b)
            return res
        out.extend(self.branch(c, sB, fr, s, body, lambda x: []))
        # exit
        sC = st
        self.do_havoc(sC, names, arr_objs)
        self.assume_inv(lc, sC, fr)
        c2 = truth(self.ev(s.test, sC, fr))
        if isinstance(c2, bool):
            if not c2:
                out.append(sC)
        else:
            sC.pc.append(simp(z3.Not(c2)))
            if self.feasible(sC):
                out.append(sC)
        return out

    def ev_clause_val(self, text, st, fr):
        return self.ev(self.ctx.clause_ast(text), st, fr)


class PathRaised(Exception):
    pass


import vf.execu as _e2
_e2.PathRaised = PathRaised
