"""Values of the mixed concrete/symbolic interpreter and Python operator semantics.

Encoding assumptions (DESIGN.md 2.3): A1 floats are mathematical reals (concrete floats
are exact Fractions), A2 ints are mathematical integers, A3 int() truncates, // and %
are floor based.
"""
import math
from fractions import Fraction

import z3

from . import smt


class OutOfReach(Exception):
    """The code uses something outside the modelled subset."""


INT = z3.IntSort()
REAL = z3.RealSort()
BOOL = z3.BoolSort()


def is_sym(v):
    return isinstance(v, z3.ExprRef)


def is_cint(v):
    return isinstance(v, int) and not isinstance(v, bool)


def is_creal(v):
    return isinstance(v, Fraction)


def is_intlike(v):
    return is_cint(v) or (is_sym(v) and v.sort() == INT)


def is_reallike(v):
    return is_creal(v) or (is_sym(v) and v.sort() == REAL)


def is_boollike(v):
    return isinstance(v, bool) or (is_sym(v) and v.sort() == BOOL)


def is_num(v):
    return is_intlike(v) or is_reallike(v) or isinstance(v, bool)


def lit_float(x):
    return Fraction(repr(x))


def Z(v):
    """To z3 term."""
    if is_sym(v):
        return v
    if isinstance(v, bool):
        return z3.BoolVal(v)
    if isinstance(v, int):
        return z3.IntVal(v)
    if isinstance(v, Fraction):
        return z3.RealVal(v)
    if isinstance(v, float):
        return z3.RealVal(lit_float(v))
    raise OutOfReach('cannot convert %r to a term' % (v,))


def ZR(v):
    t = Z(v)
    if t.sort() == INT:
        return z3.ToReal(t)
    if t.sort() == BOOL:
        return z3.If(t, z3.RealVal(1), z3.RealVal(0))
    return t


def ZI(v):
    t = Z(v)
    if t.sort() == BOOL:
        return z3.If(t, z3.IntVal(1), z3.IntVal(0))
    if t.sort() != INT:
        raise OutOfReach('integer expected, got %s' % t.sort())
    return t


def _num(s):
    if z3.is_int_value(s):
        return s.as_long()
    if z3.is_true(s):
        return True
    if z3.is_false(s):
        return False
    if z3.is_rational_value(s) and s.sort() == REAL:
        return Fraction(s.numerator_as_long(), s.denominator_as_long())
    return None


def simp(t, full=False):
    """Numeral terms become Python values; full=True runs the z3 rewriter first."""
    if not is_sym(t):
        return t
    if full:
        t = z3.simplify(t)
    if z3.is_app(t) and t.num_args() == 0:
        r = _num(t)
        if r is not None:
            return r
    return t


def _nested_arith(t):
    if not z3.is_app(t):
        return False
    return t.decl().kind() in (z3.Z3_OP_ADD, z3.Z3_OP_SUB)


IMOD = z3.Function('imod', INT, INT, INT)


def imod_facts(x, y):
    """Facts about Python's x % y for integers (y > 0 is the only case the code under contract uses)."""
    r = IMOD(x, y)
    return z3.And(
        z3.Implies(y > 0, z3.And(r >= 0, r < y, r == x % y)),
        z3.Implies(z3.And(y > 0, x >= -y, x < 2 * y), r == z3.If(x < 0, x + y, z3.If(x >= y, x - y, x))),
        z3.Implies(y < 0, r == -((-x) % (-y))))


PI = z3.Real('pi')
PI_AXIOMS = [PI > z3.RealVal('3.14159'), PI < z3.RealVal('3.1416')]

UF = {}


def uf(name, *sorts):
    key = (name, tuple(str(s) for s in sorts))
    if key not in UF:
        UF[key] = z3.Function(name, *sorts)
    return UF[key]


def math_fun(name, x):
    """A5: transcendental functions are uninterpreted."""
    if not is_sym(x):
        x = Fraction(x) if not isinstance(x, Fraction) else x
    f = uf('m_' + name, REAL, REAL)
    return f(ZR(x))


MATH_AXIOMS = {
    'exp': lambda a, t: [t > 0],
    'sqrt': lambda a, t: [z3.Implies(a >= 0, z3.And(t >= 0, t * t == a)), z3.Implies(a > 0, t > 0)],
    'cosh': lambda a, t: [t >= 1],
    'tanh': lambda a, t: [t > -1, t < 1],
    'cos': lambda a, t: [t >= -1, t <= 1],
    'sin': lambda a, t: [t >= -1, t <= 1],
}


def both_concrete(a, b):
    return not is_sym(a) and not is_sym(b)


def binop(op, a, b, ob=None):
    """op: python ast operator class name. ob: callback(kind, cond) for obligations."""
    if isinstance(a, bool) and not is_sym(b):
        a = int(a)
    if isinstance(b, bool) and not is_sym(a):
        b = int(b)
    if isinstance(a, float):
        a = lit_float(a)
    if isinstance(b, float):
        b = lit_float(b)
    if both_concrete(a, b):
        if not (is_num(a) and is_num(b)):
            # lists / tuples / strings
            if op == 'Add':
                return a + b
            if op == 'Mult':
                return a * b
            if op == 'Mod' and isinstance(a, str):
                return a % b
            raise OutOfReach('binop %s on %r,%r' % (op, type(a), type(b)))
        if op == 'Add':
            return a + b
        if op == 'Sub':
            return a - b
        if op == 'Mult':
            return a * b
        if op == 'Div':
            if b == 0:
                if ob:
                    ob('div_nonzero', False)
                return Fraction(0)
            return Fraction(a) / Fraction(b)
        if op == 'FloorDiv':
            if b == 0:
                if ob:
                    ob('div_nonzero', False)
                return 0
            r = a // b
            return r if (is_cint(a) and is_cint(b)) else Fraction(r)
        if op == 'Mod':
            if b == 0:
                if ob:
                    ob('div_nonzero', False)
                return 0
            return a % b
        if op == 'Pow':
            if is_cint(b):
                if b >= 0:
                    return a ** b
                return Fraction(a) ** b
            raise OutOfReach('non-integer power')
        raise OutOfReach('binop ' + op)
    # symbolic
    ai, bi = is_intlike(a) or isinstance(a, bool), is_intlike(b) or isinstance(b, bool)
    if op in ('Add', 'Sub', 'Mult'):
        both_int = ai and bi
        ca, cb = not is_sym(a), not is_sym(b)
        if cb and b == 0 and op in ('Add', 'Sub'):
            return a if both_int or is_reallike(a) else ZR(a)
        if ca and a == 0 and op == 'Add':
            return b if both_int or is_reallike(b) else ZR(b)
        if op == 'Mult':
            if (ca and a == 0) or (cb and b == 0):
                return 0 if both_int else Fraction(0)
            if ca and a == 1:
                return b if both_int or is_reallike(b) else ZR(b)
            if cb and b == 1:
                return a if both_int or is_reallike(a) else ZR(a)
        if both_int:
            x, y = ZI(a), ZI(b)
        else:
            x, y = ZR(a), ZR(b)
        r = {'Add': x + y, 'Sub': x - y, 'Mult': x * y}[op]
        if op != 'Mult' and both_int and ((ca and _nested_arith(y)) or (cb and _nested_arith(x))):
            return simp(r, True)
        return r
    if op == 'Div':
        x, y = ZR(a), ZR(b)
        if ob:
            ob('div_nonzero', y != 0)
        return simp(x / y)
    if op == 'FloorDiv':
        if ai and bi:
            x, y = ZI(a), ZI(b)
            if ob:
                ob('div_nonzero', y != 0)
            if is_cint(b) and b > 0:
                return simp(x / y)
            return simp(z3.If(y > 0, x / y, (-x) / (-y)))
        x, y = ZR(a), ZR(b)
        if ob:
            ob('div_nonzero', y != 0)
        return simp(z3.ToReal(z3.ToInt(x / y)))
    if op == 'Mod':
        if ai and bi:
            x, y = ZI(a), ZI(b)
            if ob:
                ob('div_nonzero', y != 0)
            if is_cint(b) and b > 0:
                return simp(x % y)
            # symbolic divisor: an uninterpreted symbol with the defining facts instantiated per occurrence
            # (verify.new_ctx registers them), which keeps the VCs linear for small offsets
            return IMOD(x, y)
        x, y = ZR(a), ZR(b)
        if ob:
            ob('div_nonzero', y != 0)
        return simp(x - y * z3.ToReal(z3.ToInt(x / y)))
    if op == 'Pow':
        if is_cint(b) and 0 <= b <= 8:
            x = Z(a)
            r = z3.IntVal(1) if x.sort() == INT else z3.RealVal(1)
            for _ in range(b):
                r = r * x
            return simp(r)
        if is_cint(b) and -8 <= b < 0:
            x = ZR(a)
            r = z3.RealVal(1)
            for _ in range(-b):
                r = r * x
            if ob:
                ob('div_nonzero', x != 0)
            return simp(1 / r)
        f = uf('m_pow', REAL, REAL, REAL)
        return f(ZR(a), ZR(b))
    raise OutOfReach('binop ' + op)


def compare(op, a, b):
    if isinstance(a, float):
        a = lit_float(a)
    if isinstance(b, float):
        b = lit_float(b)
    if both_concrete(a, b):
        if op == 'Eq':
            return a == b
        if op == 'NotEq':
            return a != b
        if op == 'Lt':
            return a < b
        if op == 'LtE':
            return a <= b
        if op == 'Gt':
            return a > b
        if op == 'GtE':
            return a >= b
        if op == 'Is':
            return a is b
        if op == 'IsNot':
            return a is not b
        if op == 'In':
            return a in b
        if op == 'NotIn':
            return a not in b
        raise OutOfReach('compare ' + op)
    if op in ('In', 'NotIn'):
        if isinstance(b, (list, tuple)):
            r = z3.Or(*[zbool_of(compare('Eq', a, x)) for x in b]) if b else z3.BoolVal(False)
            return simp(r if op == 'In' else z3.Not(r))
        raise OutOfReach('symbolic membership')
    if op in ('Is', 'IsNot'):
        if a is None or b is None:
            return op == 'IsNot'
        raise OutOfReach('symbolic identity')
    if is_boollike(a) and is_boollike(b):
        x, y = Z(a), Z(b)
    elif (is_intlike(a) or isinstance(a, bool)) and (is_intlike(b) or isinstance(b, bool)):
        x, y = ZI(a), ZI(b)
    else:
        if not (is_num(a) and is_num(b)):
            if op == 'Eq':
                return False
            if op == 'NotEq':
                return True
            raise OutOfReach('compare %r %r' % (a, b))
        x, y = ZR(a), ZR(b)
    r = {'Eq': lambda: x == y, 'NotEq': lambda: x != y, 'Lt': lambda: x < y, 'LtE': lambda: x <= y,
         'Gt': lambda: x > y, 'GtE': lambda: x >= y}[op]()
    return simp(r)


def zbool_of(v):
    if isinstance(v, bool):
        return z3.BoolVal(v)
    if is_sym(v) and v.sort() == BOOL:
        return v
    if is_intlike(v):
        return ZI(v) != 0
    if is_reallike(v):
        return ZR(v) != 0
    raise OutOfReach('truth value of %r' % (v,))


class Opaque:
    """A value the trace abstraction does not model (rank-local data). Its truth value is unknown."""

    def __repr__(self):
        return 'Opaque'


_opq = [0]


def truth(v):
    """python truthiness; returns bool or z3 Bool."""
    if isinstance(v, Opaque):
        _opq[0] += 1
        return z3.Bool('opaque!%d' % _opq[0])
    if is_sym(v):
        return simp(zbool_of(v))
    if isinstance(v, Fraction):
        return v != 0
    return bool(v)


def neg(v):
    if is_sym(v):
        return simp(-v)
    return -v


def b_not(v):
    t = truth(v)
    if isinstance(t, bool):
        return not t
    return simp(z3.Not(t))


def b_and(*vs):
    if any(isinstance(v, Opaque) for v in vs):
        return Opaque() if not any(isinstance(v, bool) and not v for v in vs) else False
    ts = [truth(v) for v in vs]
    if any(isinstance(t, bool) and not t for t in ts):
        return False
    ts = [t for t in ts if not isinstance(t, bool)]
    if not ts:
        return True
    return simp(z3.And(*ts))


def b_or(*vs):
    if any(isinstance(v, Opaque) for v in vs):
        return Opaque() if not any(isinstance(v, bool) and v for v in vs) else True
    ts = [truth(v) for v in vs]
    if any(isinstance(t, bool) and t for t in ts):
        return True
    ts = [t for t in ts if not isinstance(t, bool)]
    if not ts:
        return False
    return simp(z3.Or(*ts))


def ite(c, a, b):
    if isinstance(c, bool):
        return a if c else b
    if is_boollike(a) and is_boollike(b):
        return simp(z3.If(c, Z(a), Z(b)))
    if is_intlike(a) and is_intlike(b):
        return simp(z3.If(c, ZI(a), ZI(b)))
    if is_num(a) and is_num(b):
        return simp(z3.If(c, ZR(a), ZR(b)))
    raise OutOfReach('conditional expression over non-scalars with symbolic test')


def py_int(v, ob=None):
    """int(x): truncation toward zero (A3)."""
    if is_cint(v) or isinstance(v, bool):
        return int(v)
    if is_creal(v):
        return math.trunc(v)
    if is_intlike(v):
        return v
    x = ZR(v)
    return simp(z3.If(x >= 0, z3.ToInt(x), -z3.ToInt(-x)))


def py_floor(v):
    if is_cint(v):
        return v
    if is_creal(v):
        return math.floor(v)
    if is_intlike(v):
        return v
    return simp(z3.ToInt(ZR(v)))


def py_abs(v):
    if not is_sym(v):
        return abs(v)
    return simp(z3.If(v >= 0, v, -v))


def py_min(*vs):
    if all(not is_sym(v) for v in vs):
        return min(vs)
    r = vs[0]
    for v in vs[1:]:
        c = compare('Lt', v, r)
        r = ite(c, v, r)
    return r


def py_max(*vs):
    if all(not is_sym(v) for v in vs):
        return max(vs)
    r = vs[0]
    for v in vs[1:]:
        c = compare('Gt', v, r)
        r = ite(c, v, r)
    return r


# --------------------------------------------------------------------------
# arrays
# --------------------------------------------------------------------------

_arr_counter = [0]


def arr_sort(rank, elem):
    return z3.ArraySort(*([INT] * rank), elem)


class Arr:
    """A numpy array object (identity = allocation). Contents live in the state's heap."""

    def __init__(self, rank, shape, elem=REAL, name='a'):
        _arr_counter[0] += 1
        self.aid = _arr_counter[0]
        self.rank = rank
        self.shape = list(shape)
        self.elem = elem
        self.name = name

    def sort(self):
        return arr_sort(self.rank, self.elem)

    def __repr__(self):
        return 'Arr(%s#%d,%s)' % (self.name, self.aid, self.shape)


class ExprArr:
    """Lazy array value: shape + element function (numpy expression, slice, ...)."""

    def __init__(self, shape, fn, elem=REAL):
        self.shape = list(shape)
        self.rank = len(self.shape)
        self.fn = fn
        self.elem = elem


class ArrView(ExprArr):
    """Live, writable numpy view of an allocated array: per base axis either a fixed index or a slice start."""

    def __init__(self, base, spec, shape):
        self.base = base          # Arr
        self.spec = spec          # list over base axes: ('i', index) | ('s', start)
        self.shape = list(shape)
        self.rank = len(self.shape)
        self.elem = base.elem
        self.fn = None            # element access goes through the current heap (Exec.elem_fn)

    def base_index(self, j):
        jj = iter(j)
        out = []
        for (k, v) in self.spec:
            out.append(v if k == 'i' else binop('Add', v, next(jj)))
        return tuple(out)


class SpecArr:
    """Array *value* in specifications: a z3 array term with shape (old(x), captured arrays)."""

    def __init__(self, term, shape, elem=REAL):
        self.term = term
        self.shape = list(shape)
        self.rank = len(self.shape)
        self.elem = elem


class SymRange:
    """range(lo, hi) with symbolic bounds (as an index it selects rows lo..hi-1, like a slice)."""

    def __init__(self, lo, hi):
        self.lo, self.hi = lo, hi


class FlatOf:
    """x.flat of an array value: the array read in C order (only: assigned to another array's .flat)."""

    def __init__(self, arr):
        self.arr = arr


class StarredArr:
    """*a inside a list display, for an array of symbolic length (np.array([x, *a, y]))."""

    def __init__(self, arr):
        self.arr = arr


class EnumVal:
    """enumerate(seq) as a value (returned by a method, iterated by the caller)."""

    def __init__(self, seq):
        self.seq = seq


class ObjArray(tuple):
    """np.array of a concrete list of objects / None (LayoutSwapper.getAxes): only elementwise ==/!= None and np.nonzero."""


class SymList:
    """List of symbolic length whose i-th element is given by a function of (state, index): the pieces of
    np.split(x, points) for an array of cut points.  Supports [i], [:-1], len() and enumerate()."""

    def __init__(self, n, fn, drop_last=0):
        self.n, self.fn, self.drop_last = n, fn, drop_last

    def length(self):
        return binop('Sub', self.n, self.drop_last) if self.drop_last else self.n


class FunVal:
    """Function value (callable of the repo, or a function parameter with an abstract contract)."""

    def __init__(self, kind, name, ref=None):
        self.kind = kind   # 'repo', 'param', 'builtin'
        self.name = name
        self.ref = ref


_obj_counter = [0]


class Obj:
    """Instance of an interpreted repo class; its attributes live in the state (st.objs[oid])."""

    def __init__(self, cls):
        _obj_counter[0] += 1
        self.oid = _obj_counter[0]
        self.cls = cls

    def __repr__(self):
        return 'Obj(%s#%d)' % (self.cls[1], self.oid)
