"""Function-level verification driver and obligation discharge."""
import ast
import multiprocessing as mp
import os
import sys
import time
from fractions import Fraction

import z3

from . import smt
from .smt import f_and, f_imp, fresh
from . import vals as V
from .vals import (OutOfReach, Arr, ExprArr, SpecArr, FunVal, Obj, INT, REAL, BOOL, is_sym, Z, ZR, ZI, simp,
                   compare, truth, b_not, b_and)
from .interp import load_module, State, Obligation, Contract, Ctx
from .execu import Frame, parse_annotation
from .stmts import Engine, PathRaised

SORTS = {'int': INT, 'real': REAL, 'float': REAL, 'bool': BOOL,
         'arr1': z3.ArraySort(INT, REAL), 'arr2': z3.ArraySort(INT, INT, REAL), 'arr3': z3.ArraySort(INT, INT, INT, REAL),
         'iarr1': z3.ArraySort(INT, INT)}


class VCtx(Ctx):
    def __init__(self, repo=None):
        super().__init__(repo)
        self._clause_cache = {}
        self.assert_as_branch = False
        self.results = {}
        self.fun_reports = []
        self.entries = {}

    def add_axioms(self, facts):
        """Universally valid side facts (ranges of uninterpreted functions, communicator sizes): part of every VC."""
        seen = self.__dict__.setdefault('_axiom_ids', set())
        for f in facts:
            if f.get_id() not in seen:
                seen.add(f.get_id())
                self.axioms.append(f)

    def clause_ast(self, text):
        n = self._clause_cache.get(text)
        if n is None:
            n = ast.parse(text.strip(), mode='eval').body
            self._clause_cache[text] = n
        return n

    def add_contracts(self, table):
        for k, d in table.items():
            c = Contract(k, d)
            c.params_order = d.get('params_order', [])
            c.implements = d.get('implements', [])
            self.contracts[k] = c

    def add_spec(self, name, params, ret, body, depth=8, engine=None):
        """params: list of (name, sortname). body: expression text or None (fully uninterpreted)."""
        sorts = [SORTS[s] for _, s in params]
        decl = z3.Function('spec!' + name, *sorts, SORTS[ret])
        self.spec_funs[name] = dict(params=params, sorts=sorts, decl=decl, ret=SORTS[ret], body=body)
        if body is None:
            if name in EXTENSIONAL and any(s_.kind() == z3.Z3_ARRAY_SORT for s_ in sorts):
                # uninterpreted function of arrays: two applications on extensionally equal arrays are equal (pair axioms)
                self.registry.__dict__.setdefault('uf_arrays', {})['spec!' + name] = decl
            return
        eng = engine
        ctx = self

        def unfold(*args):
            st = State()
            for (pn, sn), a in zip(params, args):
                if sn.startswith('arr') or sn.startswith('iarr'):
                    rank = int(sn[-1])
                    st.env[pn] = SpecArr(a, [None] * rank, INT if sn.startswith('i') else REAL)
                else:
                    st.env[pn] = simp(a)
            fr = Frame(_SpecModule(), 'spec:' + name, None, None)
            fr.spec_only = True
            v = ctx.engine.ev(ctx.clause_ast(body), st, fr)
            app = decl(*args)
            if SORTS[ret] == REAL:
                return simp(app == ZR(v))
            return simp(app == Z(v))
        self.registry.specs['spec!' + name] = smt.SpecFun('spec!' + name, decl, unfold, depth)


# uninterpreted spec functions of arrays for which extensionality pair axioms are generated (opt-in: the axioms add witnesses
# and terms to every VC in which the function occurs)
EXTENSIONAL = {'solveT'}


class _SpecModule:
    relpath = '<spec>'
    functions = {}
    classes = {}
    imports = {}
    globals = {}


def make_param(eng, st, name, ann, override=None):
    if override is not None:
        kind = override
        if isinstance(kind, tuple) and kind and kind[0] == 'const':
            return kind[1]
        if isinstance(kind, tuple) and kind and kind[0] == 'list':
            return [make_param(eng, st, '%s[%d]' % (name, k), None, v) for k, v in enumerate(kind[1])]
        if isinstance(kind, dict) and '__dict__' in kind:
            return {k: make_param(eng, st, '%s[%s]' % (name, k), None, v) for k, v in kind['__dict__'].items()}
        if isinstance(kind, dict) and '__class__' in kind:
            rel, cname = kind['__class__'].split('::')
            o = Obj((rel, cname))
            st.objs[o.oid] = {}
            later = []
            for an, spec in kind.items():
                if an == '__class__':
                    continue
                if isinstance(spec, tuple) and spec and spec[0] == 'expr':
                    later.append((an, spec[1]))
                else:
                    st.objs[o.oid][an] = make_param(eng, st, '%s.%s' % (name, an), None, spec)
            if later:
                fr_ = Frame(_SpecModule(), 'param:' + name, None, None)
                fr_.spec_only = True
                tmp = st.fork()
                tmp.env = {name: o}
                for an, ex in later:
                    tmp.objs = st.objs
                    tmp.bufs = st.bufs
                    st.objs[o.oid][an] = eng.ev(eng.ctx.clause_ast(ex), tmp, fr_)
            return o
        if not isinstance(kind, str):
            return kind          # concrete structural value
        if kind.startswith('comm:'):
            # a communicator shared by several objects of the structural case (same tag = same object)
            tab = st.ghost.setdefault('comm_tags', {})
            if kind not in tab:
                o = Obj(('<mpi>', 'Comm'))
                st.objs[o.oid] = {'cid': kind[5:]}
                tab[kind] = o
            return tab[kind]
        if kind == 'comm':
            o = Obj(('<mpi>', 'Comm'))
            st.objs[o.oid] = {'cid': name}
            return o
        if kind == 'opaque':
            return V.Opaque()
        if kind == 'buf':
            from .bufs import BufRef
            return BufRef.of(eng.new_buf(st, name))
        if kind.startswith('buflist'):
            return [eng.new_buf(st, '%s%d' % (name, k)) for k in range(int(kind[7:]))]
        if kind == 'field':
            from .bufs import FIELD
            return z3.Const(name, FIELD)
        if kind == 'name':
            return z3.Int(name)
        if kind.startswith('obj:'):
            rel, cname = kind[4:].split('::')
            o = Obj((rel, cname))
            st.objs[o.oid] = {}
            return o
        if kind.startswith('list') and kind.endswith('arr1'):
            n = int(kind[4:-4])
            out = []
            for k in range(n):
                sh = z3.Int('%s_%d_n0' % (name, k))
                st.pc.append(sh >= 0)
                out.append(eng.new_arr(st, 1, [sh], REAL, '%s_%d' % (name, k)))
            return out
        if kind == 'str':
            return name
        if kind == 'int':
            return z3.Int(name)
        if kind in ('float', 'real'):
            return z3.Real(name)
        if kind == 'bool':
            return z3.Bool(name)
        if kind.startswith('tuple') and kind.endswith('int'):
            n = int(kind[5:-3])
            return tuple(z3.Int('%s_%d' % (name.replace('.', '_'), k)) for k in range(n))
        if kind.startswith('list') and kind.endswith('int'):
            n = int(kind[4:-3])
            return [z3.Int('%s_%d' % (name, k)) for k in range(n)]
        if (kind.startswith('arr') or kind.startswith('iarr')) and ':' in kind:
            # 'arr1:7' / 'iarr1:n0,n1' concrete extents
            kd, ext = kind.split(':')
            shape = []
            for k, x in enumerate(ext.split(',')):
                if x == '?':
                    sv = z3.Int('%s_n%d' % (name.replace('.', '_'), k))
                    st.pc.append(sv >= 0)
                    shape.append(sv)
                else:
                    shape.append(int(x))
            return eng.new_arr(st, len(shape), shape, INT if kd.startswith('i') else REAL, name.replace('.', '_'))
        if kind.startswith('arr') or kind.startswith('iarr'):
            rank = int(kind[-1])
            shape = [z3.Int('%s_n%d' % (name, k)) for k in range(rank)]
            a = eng.new_arr(st, rank, shape, INT if kind.startswith('i') else REAL, name)
            for s in shape:
                st.pc.append(s >= 0)
            return a
        raise OutOfReach('param override ' + kind)
    p = parse_annotation(ann)
    if p is None:
        raise OutOfReach('no sort for parameter %s (%r)' % (name, ann))
    kind, rank, elem, final = p
    if kind == 'scalar':
        return z3.Const(name, elem)
    if kind == 'array':
        shape = [z3.Int('%s_n%d' % (name, k)) for k in range(rank)]
        a = eng.new_arr(st, rank, shape, elem, name)
        for s in shape:
            st.pc.append(s >= 0)
        return a
    raise OutOfReach('function parameter %s needs funparams entry' % name)


def ann_text(arg):
    a = arg.annotation
    if a is None:
        return None
    if isinstance(a, ast.Constant) and isinstance(a.value, str):
        return a.value
    return ast.unparse(a)


def verify_lemma(ctx, lem):
    """A lemma: free variables, requires, ensures. Proved like a function with an empty body."""
    eng = ctx.engine
    st = State()
    st.pc.extend(ctx.axioms)
    for (n, srt) in lem['vars']:
        st.env[n] = make_param(eng, st, n, None, srt)
    fr = Frame(_SpecModule(), 'lemma:' + lem['name'], None, None)
    fr.spec_only = True
    fr.entry = st.fork()
    for cl in lem.get('requires', []):
        st.assume(eng.ev_clause(cl, st, fr))
    n0 = len(ctx.obligations)
    ind = lem.get('induct')
    if ind:
        # induction on an integer variable over [lo, hi): ensures are P(k); base P(lo) (when lo < hi), step P(k) => P(k+1)
        # (lo <= k, k + 1 < hi).  The lemma is then used as forall k in [lo, hi): P(k).
        k, lo, hi = ind['var'], eng.ev_clause_val(ind['lo'], st, fr), eng.ev_clause_val(ind['hi'], st, fr)
        sb = st.fork()
        sb.env[k] = lo
        sb.assume(compare('Lt', lo, hi))
        for i, cl in enumerate(lem['ensures']):
            eng.prove(sb, fr, 'lemma', eng.ev_clause(cl, sb, fr), None, clause='%s base[%d]: %s' % (lem['name'], i, cl),
                      name='lemma:%s:base[%d]' % (lem['name'], i))
        ss = st.fork()
        kv = smt.fresh(k, 'int')
        ss.env[k] = kv
        ss.assume(b_and(compare('GtE', kv, lo), compare('Lt', kv + 1, hi)))
        for cl in lem['ensures']:
            ss.assume(eng.ev_clause(cl, ss, fr))
        ss.env[k] = kv + 1
        for i, cl in enumerate(lem['ensures']):
            eng.prove(ss, fr, 'lemma', eng.ev_clause(cl, ss, fr), None, clause='%s step[%d]: %s' % (lem['name'], i, cl),
                      name='lemma:%s:step[%d]' % (lem['name'], i))
    else:
        for i, cl in enumerate(lem['ensures']):
            f = eng.ev_clause(cl, st, fr)
            eng.prove(st, fr, 'lemma', f, None, clause='%s ensures[%d]: %s' % (lem['name'], i, cl),
                      name='lemma:%s[%d]' % (lem['name'], i))
    for ob in ctx.obligations[n0:]:
        ob.min_rounds = lem.get('rounds', 2)
    rep = dict(function='lemma:' + lem['name'], hash=None, paths=1, obligations=len(ctx.obligations) - n0,
               pre_satisfiable=smt.sat_probe(st.pc), canary_refuted=True, out_of_reach=None)
    ctx.fun_reports.append(rep)
    return rep


def default_modifies(node, c):
    """Arrays a callee may write when the contract does not say: every array parameter not annotated Final."""
    out = []
    for a in node.args.args:
        p = parse_annotation(ann_text(a)) if ann_text(a) else None
        ov = c.params.get(a.arg) if c is not None else None
        if ov is not None:
            if 'arr' in ov:
                out.append(a.arg)
        elif p is not None and p[0] == 'array' and not p[3]:
            out.append(a.arg)
    return out


def verify_function(ctx, relpath, qual, canary=True, struct=None, label=None):
    """Symbolically execute one function against its contract; obligations go to ctx.obligations.
    struct: structural case (parameter name -> concrete value or sort spec) overriding the contract's params."""
    eng = ctx.engine
    mod = load_module(relpath, ctx.repo)
    if qual not in mod.functions:
        raise OutOfReach('function %s not found in %s' % (qual, relpath))
    node = mod.functions[qual]
    c = ctx.contract_for(relpath, qual)
    if c is None:
        raise OutOfReach('no contract for ' + qual)
    fr = Frame(mod, qual, node, c, 0)
    st = State()
    st.pc.extend(ctx.axioms)
    smt.FLATTEN[0] = bool(getattr(ctx, 'flat_mode', False))
    params = [a.arg for a in node.args.args]
    for a in node.args.args:
        if a.arg in c.funparams:
            st.env[a.arg] = FunVal('param', a.arg, c.funparams[a.arg])
            continue
        ov = (struct or {}).get(a.arg, c.params.get(a.arg))
        st.env[a.arg] = make_param(eng, st, a.arg, ann_text(a), ov)
    if node.args.vararg is not None:
        va = node.args.vararg.arg
        ov = (struct or {}).get(va, c.params.get(va))
        if ov is None:
            raise OutOfReach('no sort for *%s' % va)
        st.env[va] = tuple(make_param(eng, st, va, None, ov))
        params.append(va)
    if node.args.kwarg is not None:
        # **kwargs: a dict described by the contract ({'__dict__': {...}}); no description -> no keyword arguments
        kw = node.args.kwarg.arg
        ov = (struct or {}).get(kw, c.params.get(kw))
        st.env[kw] = make_param(eng, st, kw, None, ov) if ov is not None else {}
        params.append(kw)
    nob0 = len(ctx.obligations)
    if label:
        fr.case_label = label
    report = dict(function=relpath + '::' + qual + (' [%s]' % label if label else ''), hash=mod.fhash(qual), paths=0, returns=0, raises=0,
                  pre_satisfiable=None, canary_refuted=None, out_of_reach=None)
    if getattr(mod, 'dropped_lines', None) and '#slice:' in relpath:
        report['slice_dropped_lines'] = list(mod.dropped_lines)
    # requires
    fr.entry = st.fork()
    fr.spec_only = True
    for cl in c.requires:
        st.assume(eng.ev_clause(cl, st, fr))
    fr.spec_only = False
    fr.entry = st.fork()
    ctx.entries[relpath + '::' + qual] = fr.entry
    report['pre_satisfiable'] = smt.sat_probe(st.pc)
    try:
        outs = eng.run(node.body, st, fr)
    except OutOfReach as e:
        if os.environ.get('VF_TB'):
            import traceback
            traceback.print_exc()
        report['out_of_reach'] = str(e)
        del ctx.obligations[nob0:]
        ctx.fun_reports.append(report)
        return report
    canary_states = []
    for s in outs:
        report['paths'] += 1
        penv = dict(fr.entry.env)
        if s.status in ('normal', 'return'):
            report['returns'] += 1
            post = s.fork()
            post.env = dict(penv)
            post.env['result'] = s.retval
            for gn in c.ghost_out:
                if gn in s.env:
                    post.env[gn] = s.env[gn]
            canary_states.append(post.fork())
            fr.spec_only = True
            all_ens = list(c.ensures) + ['self.%s is (%s)' % (an, ex) for an, ex in c.sets.items()]
            for i, cl in enumerate(all_ens):
                f = eng.ev_clause(cl, post, fr)
                eng.prove(post, fr, 'post', f, node, clause='ensures[%d]: %s' % (i, cl),
                          name='%s:post[%d]@ret%d' % (fr.fname, i, report['returns']))
                # sequential cut: later clauses may use the earlier ones (each has its own obligation)
                post.assume(f)
            for (exc, when) in c.raises:
                if when is None:
                    continue
                f = eng.ev_clause(when, post, fr)
                if smt.is_qf(f):
                    eng.prove(post, fr, 'no_raise_when', b_not(f), node, clause='raises %s iff %s' % (exc, when))
            fr.spec_only = False
            # frame: array parameters outside `modifies` are unchanged
            mods = c.modifies if c.modifies is not None else default_modifies(node, c)
            for a in node.args.args:
                v0 = fr.entry.env.get(a.arg)
                if isinstance(v0, Arr) and a.arg not in mods:
                    t0, t1 = fr.entry.heap[v0.aid], s.heap[v0.aid]
                    if not t0.eq(t1):
                        ks = [fresh('fr') for _ in range(v0.rank)]
                        eng.prove(post, fr, 'frame', z3.Select(t0, *ks) == z3.Select(t1, *ks), node,
                                  clause='%s is not in modifies' % a.arg)
        elif s.status == 'raise':
            report['raises'] += 1
            name, lineno = s.exc
            decl = [r for r in c.raises if r[0] == name]
            post = s.fork()
            post.env = penv
            fake = ast.Pass()
            fake.lineno = lineno
            if not decl:
                eng.prove(post, fr, 'unexpected_raise', False, fake, clause='%s raised at line %d' % (name, lineno))
            else:
                fr.spec_only = True
                for (exc, when) in decl:
                    if when is not None:
                        eng.prove(post, fr, 'raise_when', eng.ev_clause(when, post, fr), fake,
                                  clause='raises %s only when %s' % (exc, when))
                fr.spec_only = False
        else:
            raise OutOfReach('function ended with status ' + s.status)
    # vacuity canary: "False" must NOT be provable at (at least one) normal exit
    if canary and canary_states:
        ok = False
        for post in canary_states[:4]:
            r = smt.sat_probe(post.pc)
            if r == 'sat':
                ok = True
                break
            if r == 'unknown':
                ok = ok or None
        report['canary_refuted'] = ok
    report['obligations'] = len(ctx.obligations) - nob0
    ctx.fun_reports.append(report)
    return report


# --------------------------------------------------------------------------
# discharge
# --------------------------------------------------------------------------

def prepare(ctx, ob, rounds=2, nosum=False):
    neg = z3.Not(ob.goal)
    hyps = list(ob.hyps)
    if nosum:
        hyps = [h for h in hyps if not smt.has_sum(h, ctx.registry)]
    ground = list(ctx.axioms) + hyps + [neg]
    qf = list(ob.qfacts) + list(ctx.global_qfacts)
    hints = list(ob.skolems) + list(ob.hints)
    insts = smt.instantiate(ground, qf, ctx.registry, rounds=rounds, hints=hints, use_sums=not nosum, goal=neg)
    if nosum:
        insts = [h for h in insts if not smt.has_sum(h, ctx.registry)]
    return smt.simplify_all(ground + insts)


def split_cases(ctx, ob, rounds, nosum=False):
    """Proof by cases on the last index of each bounded skolem: sk < hi-1 | sk := hi-1 (substituted).
    Returns list of assertion lists; the obligation holds iff every case is unsat."""
    hinted = getattr(ob, 'split_terms', None)
    sks = [smt.SK_BOUNDS[k.get_id()] for k in ob.skolems if k.get_id() in smt.SK_BOUNDS][:3]
    if not sks and not hinted:
        return None
    hyps = list(ob.hyps)
    if nosum:
        hyps = [h for h in hyps if not smt.has_sum(h, ctx.registry)]
    base = list(ctx.axioms) + hyps + [z3.Not(ob.goal)]
    cases = [([], [])]
    if hinted:
        # cases given by the contract: variable equal to one of the terms (substituted), or different from all of them
        for (c, terms) in hinted.values():
            nxt = []
            for (subs, extra) in cases:
                for t in terms:
                    nxt.append((subs + [(c, t)], extra))
                nxt.append((subs, extra + [c != t for t in terms]))
            cases = nxt
        sks = []
    for (c, lo, hi) in sks:
        last = ZI(V.binop('Sub', hi, 1))
        nxt = []
        for (subs, extra) in cases:
            nxt.append((subs, extra + [c < last]))
            nxt.append((subs + [(c, last)], extra))
        cases = nxt
    out = []
    for (subs, extra) in cases:
        ground = [z3.substitute(x, *subs) if subs else x for x in base] + extra
        ground = [z3.simplify(x, expand_select_store=True) for x in ground]
        qf = list(ob.qfacts) + list(ctx.global_qfacts)
        hints = [k for k in ob.skolems if not any(k.eq(s[0]) for s in subs)] + list(ob.hints)
        insts = smt.instantiate(ground, qf, ctx.registry, rounds=rounds, hints=hints, use_sums=not nosum)
        if nosum:
            insts = [h for h in insts if not smt.has_sum(h, ctx.registry)]
        out.append(ground + smt.simplify_all(insts))
    return out


HINT_FILE = os.path.join(os.path.dirname(os.path.abspath(__file__)), 'strategy_hints.json')


def load_strategy_hints():
    try:
        import json
        return json.load(open(HINT_FILE))
    except Exception:
        return {}


def _hint_name(h):
    return h[0] if isinstance(h, list) else h


def save_strategy_hints(new):
    """Speed only: remembers which proof strategy discharged an obligation (never a verdict)."""
    if not new or os.environ.get('VF_NO_HINT_UPDATE'):
        return
    import json
    cur = load_strategy_hints()
    changed = False
    for k, v in new.items():
        if v == '<drop>':
            if k in cur:
                del cur[k]
                changed = True
        elif cur.get(k) != v:
            cur[k] = v
            changed = True
    if changed:
        try:
            json.dump(cur, open(HINT_FILE, 'w'), indent=0, sort_keys=True)
        except Exception:
            pass


def obligation_keys(obligations):
    """Stable key per obligation: name | clause | ordinal among equals."""
    seen = {}
    out = {}
    for o in obligations:
        base = '%s|%s' % (o.name, (o.clause or '')[:120])
        n = seen.get(base, 0)
        seen[base] = n + 1
        out[id(o)] = '%s|%d' % (base, n)
    return out


_G = {}


def _solve_asserts(asserts, timeout, be):
    """-> 'unsat' | 'sat' | 'unknown' for one quantifier-free VC on one back end."""
    if be == 'z3py':
        sv = z3.Solver()
        sv.set('timeout', int(timeout * 1000))
        sv.add(*asserts)
        r = sv.check()
        return 'sat' if r == z3.sat else ('unsat' if r == z3.unsat else 'unknown')
    text = smt.smt2_of(asserts)
    return smt.solve_text((text, timeout, be))[0]


def _work(args):
    """Worker (forked: sees the obligations and their closures). args = (index, strategy, timeout).
    strategy = (name, kind, rounds, nosum, backend); kind in ground/full/cases."""
    idx, strat, timeout = args
    name, kind, r, ns, be = strat
    ctx, ob = _G['ctx'], _G['obs'][idx]
    t0 = time.time()
    done = _G.get('done')
    if done is not None and done[idx]:
        # another strategy already settled this obligation
        return idx, name, be, 'skipped', 0.0, None
    smt.FLATTEN[0] = bool(getattr(ob, 'flatten', False))
    # instantiation is cut off too (a blow-up must end as "undecided", never as a hang)
    smt.DEADLINE[0] = t0 + 2 * timeout + 10
    try:
        if kind == 'ground':
            parts = [list(ctx.axioms) + list(ob.hyps) + [z3.Not(ob.goal)]]
        elif kind == 'full':
            parts = [prepare(ctx, ob, r, nosum=ns)]
        else:
            parts = split_cases(ctx, ob, r, nosum=ns)
            if not parts:
                return idx, name, be, 'unknown', time.time() - t0, None
        status = 'unsat'
        for asserts in parts:
            left = max(1.0, timeout - (time.time() - t0))
            st_ = _solve_asserts(asserts, left, be)
            if st_ != 'unsat':
                status = st_ if (kind == 'full' and len(parts) == 1) else 'unknown'
                break
        return idx, name, be, status, time.time() - t0, None
    except smt.InstTimeout:
        return idx, name, be, 'unknown', time.time() - t0, None
    except Exception as e:
        return idx, name, be, 'unknown', time.time() - t0, 'strategy %s failed for %s: %r' % (name, ob.name, e)


def portfolio(ctx, ob, rounds, backends):
    """Strategies tried concurrently in the last phase: (name, kind, rounds, nosum, backend, refutes)."""
    nosum_ok = bool(ctx.registry.sums) and not smt.has_sum(ob.goal, ctx.registry)
    deep_r = max(rounds + 1, getattr(ob, 'min_rounds', 0))
    plan = [('full%d' % rounds, 'full', rounds, False, be, False) for be in backends]
    plan.append(('full%d' % deep_r, 'full', deep_r, False, backends[0], True))
    plan.append(('full%d/nra' % deep_r, 'full', deep_r, False, 'z3py-nra', False))
    if nosum_ok:
        plan.append(('full1/nosum', 'full', 1, True, backends[0], False))
    if any(k.get_id() in smt.SK_BOUNDS for k in ob.skolems) or getattr(ob, 'split_terms', None):
        for cr in range(1, rounds + 2):
            plan.append(('cases/inst%d' % cr, 'cases', cr, False, backends[0], False))
        for be in backends[1:]:
            plan.append(('cases/inst%d@%s' % (rounds, be), 'cases', rounds, False, be, False))
        plan.append(('cases/inst%d/nra' % (rounds + 1), 'cases', rounds + 1, False, 'z3py-nra', False))
        if nosum_ok:
            plan.append(('cases/inst1/nosum', 'cases', 1, True, backends[0], False))
    return plan


def _bounded_iter(it, deadline, ctx):
    """Results of a pool map until a hard wall-clock deadline: a worker that ignores its solver timeout (huge formulas in
    preprocessing) must end as "undecided", never as a hang of the whole check."""
    while True:
        left = deadline - time.time()
        if left <= 0:
            ctx.notes.append('hard wall-clock budget of the discharge phase exhausted: remaining obligations left undecided')
            return
        try:
            yield it.next(timeout=left)
        except StopIteration:
            return
        except mp.TimeoutError:
            ctx.notes.append('hard wall-clock budget of the discharge phase exhausted: remaining obligations left undecided')
            return


def discharge(ctx, obligations=None, timeout=20, procs=None, backends=('z3py', 'z3-4.8', 'cvc5'), rounds=2, progress=None):
    """Discharge obligations. Phase 1: ground VC; phase 2: one instantiation round; phase 3: a portfolio run
    concurrently (full instantiation on every back end, NRA abstraction, proof by cases on the last index of bounded
    skolems), the strategy that worked last time first. Workers are forked, so instantiation runs in parallel too.
    Status: discharged (some strategy unsat) / refuted (deepest fully instantiated VC sat: candidate counterexample)
    / undecided."""
    obligations = ctx.obligations if obligations is None else obligations
    procs = procs or min(16, os.cpu_count() or 4)
    t0 = time.time()
    hard_deadline = t0 + max(1200, 30 * timeout)
    todo = []
    for i, ob in enumerate(obligations):
        if z3.is_true(z3.simplify(ob.goal)):
            ob.status, ob.backend = 'discharged', 'rewriter'
        else:
            todo.append(i)
    if todo:
        _G['ctx'], _G['obs'] = ctx, obligations
        _G['done'] = mp.RawArray('b', len(obligations))
        keys = obligation_keys(obligations)
        hints = load_strategy_hints()
        pool = mp.Pool(procs, maxtasksperchild=1)
        try:
            for (name, kind, r, tmo) in (('stage0', 'ground', 0, min(timeout, 3)), ('stage1', 'full', 1, min(timeout, 6))):
                if not todo:
                    break
                t_ph = time.time()
                jobs = [(i, (name, kind, r, False, backends[0]), tmo) for i in todo]
                left = set(todo)
                for (i, nm, be, st_, secs, err) in _bounded_iter(pool.imap_unordered(_work, jobs, chunksize=1), hard_deadline, ctx):
                    ob = obligations[i]
                    ob.seconds += secs
                    if err:
                        ctx.notes.append(err)
                    if st_ == 'unsat':
                        ob.status, ob.backend = 'discharged', '%s/%s' % (be, nm)
                        _G['done'][i] = 1
                        left.discard(i)
                todo = [i for i in todo if i in left]
                if os.environ.get('VF_TIMING'):
                    print('%s: %.1fs, %d left' % (name, time.time() - t_ph, len(todo)), file=sys.stderr)
            if todo:
                def wave(idxs, hinted):
                    jobs, state = [], {}
                    for i in idxs:
                        ob = obligations[i]
                        plan = portfolio(ctx, ob, rounds, backends)
                        if hinted:
                            plan = [p for p in plan if p[0] == _hint_name(hints.get(keys[id(ob)]))]
                        state[i] = dict(open=len(plan), resolved=len(plan) == 0, sat=None, refutes={(p[0], p[4]): p[5] for p in plan})
                        for p in plan:
                            jobs.append((i, p[:5], timeout))
                    if not jobs:
                        return state
                    # strategy-major order: every obligation gets its first strategies before anyone's last resort runs
                    order = {}
                    for n_, j in enumerate(jobs):
                        order.setdefault(j[0], []).append(n_)
                    rankj = {}
                    for i_, ns in order.items():
                        for r_, n_ in enumerate(ns):
                            rankj[n_] = r_
                    jobs = [j for n_, j in sorted(enumerate(jobs), key=lambda x: (rankj[x[0]], x[0]))]
                    for (i, nm, be, st_, secs, err) in _bounded_iter(pool.imap_unordered(_work, jobs, chunksize=1), hard_deadline, ctx):
                        ob, st = obligations[i], state[i]
                        st['open'] -= 1
                        st.setdefault('log', []).append((nm, be, st_, round(secs, 1)))
                        if st_ == 'skipped':
                            if st['open'] == 0:
                                st['resolved'] = True
                            if all(x['resolved'] for x in state.values()):
                                break
                            continue
                        if err:
                            ctx.notes.append(err)
                        if not st['resolved']:
                            ob.seconds += secs
                            if st_ == 'unsat':
                                ob.status, ob.backend, ob.strategy = 'discharged', '%s/%s' % (be, nm), [nm, round(secs, 1)]
                                if hinted:
                                    # the remembered strategy works but is much slower than when it was recorded (or was never
                                    # timed): forget it, the next run picks the fastest again
                                    h = hints.get(keys[id(ob)])
                                    t_rec = h[1] if isinstance(h, list) else None
                                    if secs > 20 and (t_rec is None or secs > 3 * t_rec + 20):
                                        ob.strategy = '<drop>'
                                    else:
                                        ob.strategy = h
                                _G['done'][i] = 1
                                st['resolved'] = True
                            elif st_ == 'sat' and st['refutes'].get((nm, be)):
                                st['sat'] = '%s/%s' % (be, nm)
                            if st['open'] == 0:
                                st['resolved'] = True
                        if all(x['resolved'] for x in state.values()):
                            break
                    return state
                t_ph = time.time()
                hinted = [i for i in todo if keys[id(obligations[i])] in hints]
                if hinted:
                    wave(hinted, True)
                    if os.environ.get('VF_TIMING'):
                        print('hinted wave: %.1fs for %d obligations, %d left' % (
                            time.time() - t_ph, len(hinted), sum(1 for i in hinted if obligations[i].status is None)), file=sys.stderr)
                    pool.terminate()
                    pool.join()
                    pool = mp.Pool(procs, maxtasksperchild=1)
                rest = [i for i in todo if obligations[i].status is None]
                if rest:
                    state = wave(rest, False)
                    for i in rest:
                        ob = obligations[i]
                        if ob.status is None:
                            if state[i]['sat']:
                                ob.status, ob.backend = 'refuted', state[i]['sat']
                            else:
                                ob.status, ob.backend = 'undecided', 'all-unknown'
                                if os.environ.get('VF_TIMING'):
                                    print('undecided %s: %s' % (ob.name, state[i].get('log')), file=sys.stderr)
                save_strategy_hints({keys[id(obligations[i])]: obligations[i].strategy for i in todo
                                     if getattr(obligations[i], 'strategy', None)})
                if os.environ.get('VF_TIMING'):
                    print('portfolio: %.1fs for %d obligations' % (time.time() - t_ph, len(todo)), file=sys.stderr)
        finally:
            pool.terminate()
            pool.join()
            _G.clear()
    for ob in obligations:
        if ob.status is None:
            ob.status, ob.backend = 'undecided', 'not-run'
    summ = dict(obligations=len(obligations),
                discharged=sum(1 for o in obligations if o.status == 'discharged'),
                refuted=sum(1 for o in obligations if o.status == 'refuted'),
                undecided=sum(1 for o in obligations if o.status == 'undecided'),
                solver_s=round(sum(o.seconds for o in obligations), 3),
                wall_s=round(time.time() - t0, 3))
    by = {}
    for o in obligations:
        by[o.backend] = by.get(o.backend, 0) + 1
    summ['by_backend'] = by
    return summ


def new_ctx(repo=None):
    ctx = VCtx(repo)
    ctx.engine = Engine(ctx)
    ctx.global_qfacts.append(smt.QFact(2, lambda x, y: V.imod_facts(x, y), 'integer modulo with symbolic divisor', trigger='imod'))

    def flat_hook(apps, seen, seen_pairs, singles=None):
        from . import flat
        out = []
        for rank in (2, 3, 4):
            occ = list(apps.get('flat%d' % rank, {}).items())
            for aid, app in occ:
                if ('flat', aid) not in seen:
                    seen[('flat', aid)] = 0
                    out.extend(flat.flat_axioms(rank, app))
                    out.extend(flat.concat_block_axioms(rank, app))
                # relational block form: candidate block numbers are the integer constants used as indices
                cands = [t for t in (singles or {}).values() if z3.is_const(t) and t.decl().kind() == z3.Z3_OP_UNINTERPRETED
                         and t.sort() == z3.IntSort()][:8]
                for t in cands:
                    if ('flatb', aid, t.get_id()) not in seen_pairs:
                        seen_pairs.add(('flatb', aid, t.get_id()))
                        out.extend(flat.concat_rel_axioms(rank, app, t))
            pocc = list(apps.get('prod%d' % rank, {}).items())
            for aid, app in pocc:
                if ('prod', aid) not in seen:
                    seen[('prod', aid)] = 0
                    out.extend(flat.prod_axioms(rank, app))
            if len(pocc) <= 10:
                import itertools
                for (i1, a1), (i2, a2) in itertools.combinations(pocc, 2):
                    if ('prodp', i1, i2) not in seen_pairs:
                        seen_pairs.add(('prodp', i1, i2))
                        out.extend(flat.prod_pair_axioms(rank, a1, a2))
            if os.environ.get('VF_FLAT_INJ') and len(occ) <= 14:
                # injectivity of the flat index (kept as a proved lemma, vf/lemmas_flat.py); not handed to the solver by default:
                # view writes are stated region-wise (written box / rest of the lens region / outside), which needs no inverse
                import itertools
                for (i1, a1), (i2, a2) in itertools.combinations(occ, 2):
                    if ('flatp', i1, i2) in seen_pairs:
                        continue
                    seen_pairs.add(('flatp', i1, i2))
                    out.append(flat.flat_pair_axiom(rank, a1, a2))
        return out
    ctx.registry.hooks = [flat_hook]
    return ctx
