"""Function-level verification driver and obligation discharge."""
import ast
import multiprocessing as mp
import os
import time
from fractions import Fraction

import z3

from . import smt
from .smt import f_and, f_imp, fresh
from . import vals as V
from .vals import (OutOfReach, Arr, ExprArr, SpecArr, FunVal, Obj, INT, REAL, BOOL, is_sym, Z, ZR, ZI, simp,
                   compare, truth, b_not, b_and)
from .interp import load_module, State, Obligation, Contract, Ctx
from .execu import Frame, parse_annotation
from .stmts import Engine, PathRaised

SORTS = {'int': INT, 'real': REAL, 'float': REAL, 'bool': BOOL,
         'arr1': z3.ArraySort(INT, REAL), 'arr2': z3.ArraySort(INT, INT, REAL), 'arr3': z3.ArraySort(INT, INT, INT, REAL),
         'iarr1': z3.ArraySort(INT, INT)}


class VCtx(Ctx):
    def __init__(self, repo=None):
        super().__init__(repo)
        self._clause_cache = {}
        self.assert_as_branch = False
        self.results = {}
        self.fun_reports = []

    def clause_ast(self, text):
        n = self._clause_cache.get(text)
        if n is None:
            n = ast.parse(text.strip(), mode='eval').body
            self._clause_cache[text] = n
        return n

    def add_contracts(self, table):
        for k, d in table.items():
            c = Contract(k, d)
            c.params_order = d.get('params_order', [])
            c.implements = d.get('implements', [])
            self.contracts[k] = c

    def add_spec(self, name, params, ret, body, depth=2, engine=None):
        """params: list of (name, sortname). body: expression text or None (fully uninterpreted)."""
        sorts = [SORTS[s] for _, s in params]
        decl = z3.Function('spec!' + name, *sorts, SORTS[ret])
        self.spec_funs[name] = dict(params=params, sorts=sorts, decl=decl, ret=SORTS[ret], body=body)
        if body is None:
            return
        eng = engine
        ctx = self

        def unfold(*args):
            st = State()
            for (pn, sn), a in zip(params, args):
                if sn.startswith('arr') or sn.startswith('iarr'):
                    rank = int(sn[-1])
                    st.env[pn] = SpecArr(a, [None] * rank, INT if sn.startswith('i') else REAL)
                else:
                    st.env[pn] = simp(a)
            fr = Frame(_SpecModule(), 'spec:' + name, None, None)
            fr.spec_only = True
            v = ctx.engine.ev(ctx.clause_ast(body), st, fr)
            app = decl(*args)
            if SORTS[ret] == REAL:
                return simp(app == ZR(v))
            return simp(app == Z(v))
        self.registry.specs['spec!' + name] = smt.SpecFun('spec!' + name, decl, unfold, depth)


class _SpecModule:
    relpath = '<spec>'
    functions = {}
    classes = {}
    imports = {}
    globals = {}


def make_param(eng, st, name, ann, override=None):
    if override is not None:
        kind = override
        if kind == 'int':
            return z3.Int(name)
        if kind in ('float', 'real'):
            return z3.Real(name)
        if kind == 'bool':
            return z3.Bool(name)
        if kind.startswith('list') and kind.endswith('int'):
            n = int(kind[4:-3])
            return [z3.Int('%s_%d' % (name, k)) for k in range(n)]
        if kind.startswith('arr') or kind.startswith('iarr'):
            rank = int(kind[-1])
            shape = [z3.Int('%s_n%d' % (name, k)) for k in range(rank)]
            a = eng.new_arr(st, rank, shape, INT if kind.startswith('i') else REAL, name)
            for s in shape:
                st.pc.append(s >= 0)
            return a
        raise OutOfReach('param override ' + kind)
    p = parse_annotation(ann)
    if p is None:
        raise OutOfReach('no sort for parameter %s (%r)' % (name, ann))
    kind, rank, elem, final = p
    if kind == 'scalar':
        return z3.Const(name, elem)
    if kind == 'array':
        shape = [z3.Int('%s_n%d' % (name, k)) for k in range(rank)]
        a = eng.new_arr(st, rank, shape, elem, name)
        for s in shape:
            st.pc.append(s >= 0)
        return a
    raise OutOfReach('function parameter %s needs funparams entry' % name)


def ann_text(arg):
    a = arg.annotation
    if a is None:
        return None
    if isinstance(a, ast.Constant) and isinstance(a.value, str):
        return a.value
    return ast.unparse(a)


def verify_function(ctx, relpath, qual, canary=True):
    """Symbolically execute one function against its contract; obligations go to ctx.obligations."""
    eng = ctx.engine
    mod = load_module(relpath, ctx.repo)
    if qual not in mod.functions:
        raise OutOfReach('function %s not found in %s' % (qual, relpath))
    node = mod.functions[qual]
    c = ctx.contract_for(relpath, qual)
    if c is None:
        raise OutOfReach('no contract for ' + qual)
    fr = Frame(mod, qual, node, c, 0)
    st = State()
    st.pc.extend(ctx.axioms)
    params = [a.arg for a in node.args.args]
    for a in node.args.args:
        if a.arg in c.funparams:
            st.env[a.arg] = FunVal('param', a.arg, c.funparams[a.arg])
            continue
        st.env[a.arg] = make_param(eng, st, a.arg, ann_text(a), c.params.get(a.arg))
    nob0 = len(ctx.obligations)
    report = dict(function=relpath + '::' + qual, hash=mod.fhash(qual), paths=0, returns=0, raises=0,
                  pre_satisfiable=None, canary_refuted=None, out_of_reach=None)
    # requires
    fr.entry = st.fork()
    fr.spec_only = True
    for cl in c.requires:
        st.assume(eng.ev_clause(cl, st, fr))
    fr.spec_only = False
    fr.entry = st.fork()
    report['pre_satisfiable'] = smt.quick_sat(st.pc, 5000)
    try:
        outs = eng.run(node.body, st, fr)
    except OutOfReach as e:
        report['out_of_reach'] = str(e)
        del ctx.obligations[nob0:]
        ctx.fun_reports.append(report)
        return report
    canary_states = []
    for s in outs:
        report['paths'] += 1
        penv = dict(fr.entry.env)
        if s.status in ('normal', 'return'):
            report['returns'] += 1
            post = s.fork()
            post.env = penv
            post.env['result'] = s.retval
            fr.spec_only = True
            for i, cl in enumerate(c.ensures):
                f = eng.ev_clause(cl, post, fr)
                eng.prove(post, fr, 'post', f, node, clause='ensures[%d]: %s' % (i, cl),
                          name='%s:post[%d]@ret%d' % (fr.fname, i, report['returns']))
            for (exc, when) in c.raises:
                if when is None:
                    continue
                f = eng.ev_clause(when, post, fr)
                if smt.is_qf(f):
                    eng.prove(post, fr, 'no_raise_when', b_not(f), node, clause='raises %s iff %s' % (exc, when))
            fr.spec_only = False
            canary_states.append(post)
        elif s.status == 'raise':
            report['raises'] += 1
            name, lineno = s.exc
            decl = [r for r in c.raises if r[0] == name]
            post = s.fork()
            post.env = penv
            fake = ast.Pass()
            fake.lineno = lineno
            if not decl:
                eng.prove(post, fr, 'unexpected_raise', False, fake, clause='%s raised at line %d' % (name, lineno))
            else:
                fr.spec_only = True
                for (exc, when) in decl:
                    if when is not None:
                        eng.prove(post, fr, 'raise_when', eng.ev_clause(when, post, fr), fake,
                                  clause='raises %s only when %s' % (exc, when))
                fr.spec_only = False
        else:
            raise OutOfReach('function ended with status ' + s.status)
    # vacuity canary: "False" must NOT be provable at (at least one) normal exit
    if canary and canary_states:
        ok = False
        for post in canary_states[:4]:
            r = smt.quick_sat(post.pc, 5000)
            if r == 'sat':
                ok = True
                break
            if r == 'unknown':
                ok = ok or None
        report['canary_refuted'] = ok
    report['obligations'] = len(ctx.obligations) - nob0
    ctx.fun_reports.append(report)
    return report


# --------------------------------------------------------------------------
# discharge
# --------------------------------------------------------------------------

def prepare(ctx, ob, rounds=2):
    neg = z3.Not(ob.goal)
    ground = list(ctx.axioms) + list(ob.hyps) + [neg]
    qf = list(ob.qfacts) + list(ctx.global_qfacts)
    hints = list(ob.skolems) + list(ob.hints)
    insts = smt.instantiate(ground, qf, ctx.registry, rounds=rounds, hints=hints)
    return ground + insts


def _solve_round(pool, items, timeout, backend):
    """items: list of (ob, text). Returns (decided list, undecided list); sets seconds."""
    res = pool.map(smt.solve_text, [(txt, timeout, backend) for (_, txt) in items], chunksize=1)
    out = []
    for (ob, txt), (st_, secs, be) in zip(items, res):
        ob.seconds += secs
        out.append((ob, txt, st_, be))
    return out


def discharge(ctx, obligations=None, timeout=20, procs=None, backends=('z3py', 'z3-4.8'), rounds=2, progress=None):
    """Discharge obligations in stages: ground only, then 1..rounds instantiation rounds.
    Status per obligation: discharged / refuted (sat at the last stage: candidate counterexample) / undecided."""
    obligations = ctx.obligations if obligations is None else obligations
    procs = procs or min(16, os.cpu_count() or 4)
    t0 = time.time()
    todo = []
    for ob in obligations:
        if z3.is_true(z3.simplify(ob.goal)):
            ob.status, ob.backend = 'discharged', 'rewriter'
        else:
            todo.append(ob)
    if todo:
        with mp.Pool(procs) as pool:
            for stage in range(0, rounds + 1):
                if not todo:
                    break
                items = []
                for ob in todo:
                    try:
                        if stage == 0:
                            asserts = list(ctx.axioms) + list(ob.hyps) + [z3.Not(ob.goal)]
                        else:
                            asserts = prepare(ctx, ob, stage)
                    except Exception as e:
                        ob.status, ob.backend = 'undecided', 'instantiation-error: %r' % (e,)
                        continue
                    ob.asserts = asserts
                    ob.stage = stage
                    items.append((ob, smt.smt2_of(asserts)))
                last = stage == rounds
                tmo = timeout if last else min(timeout, 3 if stage == 0 else 10)
                nxt = []
                pending = items
                for bi, be in enumerate(backends if last else backends[:1]):
                    if not pending:
                        break
                    res = _solve_round(pool, pending, tmo, be)
                    pending = []
                    for (ob, txt, st_, be_) in res:
                        if st_ == 'unsat':
                            ob.status, ob.backend = 'discharged', '%s/stage%d' % (be_, stage)
                        elif st_ == 'sat' and last:
                            ob.status, ob.backend = 'refuted', '%s/stage%d' % (be_, stage)
                        elif last:
                            pending.append((ob, txt))
                        else:
                            nxt.append(ob)
                if last:
                    for (ob, txt) in pending:
                        ob.status, ob.backend = 'undecided', 'all-unknown'
                todo = nxt
    summ = dict(obligations=len(obligations),
                discharged=sum(1 for o in obligations if o.status == 'discharged'),
                refuted=sum(1 for o in obligations if o.status == 'refuted'),
                undecided=sum(1 for o in obligations if o.status == 'undecided'),
                solver_s=round(sum(o.seconds for o in obligations), 3),
                wall_s=round(time.time() - t0, 3))
    by = {}
    for o in obligations:
        by[o.backend] = by.get(o.backend, 0) + 1
    summ['by_backend'] = by
    return summ


def new_ctx(repo=None):
    ctx = VCtx(repo)
    ctx.engine = Engine(ctx)
    return ctx
